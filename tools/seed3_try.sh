#!/bin/bash
# usage: seed3_try.sh <Cxx> [more props]
P=$1; shift
mkdir -p /root/scratch/seeds3
cp /tmp/patch3_$P.diff /tmp/demo3_$P.py /root/scratch/seeds3/ 2>/dev/null
git -C /repo worktree remove --force /tmp/w3_$P 2>/dev/null
git -C /repo worktree prune
/verif/tools/try_patch.sh /root/scratch/seeds3/patch3_$P.diff $P "$@" | grep "^\[C\|FAIL\|ERROR" | cut -c1-420
git -C /repo status --short | head -3
