#!/bin/bash
# usage: try_patch.sh <patch> <prop> [<prop>...] : apply patch to /repo, run quick checks (no evidence written), revert.
P=$1; shift
git -C /repo apply "$P" || git -C /repo apply --3way "$P" || { echo "PATCH DOES NOT APPLY"; exit 3; }
for p in "$@"; do /venv/bin/python /verif/check $p --no-write 2>&1 | grep -E "^\[|FAIL|VIOLATION|ANALYSIS|KNOWN" ; done
git -C /repo reset -q --hard HEAD; git -C /repo status --short | head -3
