#!/venv/bin/python
"""sanity of the canonical program: every local that comes from a written-out helper (name contains '__') and is read must also be bound in the same function"""
import ast
import sys

sys.path.insert(0, "/verif")
from kv.engine import Engine  # noqa: E402

root = sys.argv[1] if len(sys.argv) > 1 else "/repo"
eng = Engine(root)
bad = 0
for f in eng.p.all_functions():
    bound, loaded = set(), {}
    for n in ast.walk(f.node):
        if isinstance(n, ast.Name):
            if isinstance(n.ctx, ast.Load):
                loaded.setdefault(n.id, n)
            else:
                bound.add(n.id)
        elif isinstance(n, ast.arg):
            bound.add(n.arg)
        elif isinstance(n, (ast.FunctionDef, ast.ClassDef)):
            bound.add(n.name)
        elif isinstance(n, ast.ExceptHandler) and n.name:
            bound.add(n.name)
    for k, n in loaded.items():
        if "__" in k and not k.startswith("__") and k not in bound:
            bad += 1
            print("UNBOUND %s in %s (%s:%s)" % (k, f.qualname, f.file, getattr(n, "lineno", 0)))
print("unbound helper locals: %d" % bad)
sys.exit(1 if bad else 0)
