#!/venv/bin/python
"""all registered properties against one tree with ONE shared engine (the canonical program is built once): tools/quick_all.py [--root DIR] [Cxx ...]
prints one line per property (rc as the quick check would give it) and the failing obligations; used for trying patches, not registered in the manifest"""
import sys

sys.path.insert(0, "/verif")
from kv.driver import run_property  # noqa: E402
from kv.engine import Engine  # noqa: E402
from kv.manifest_data import CLAIMED  # noqa: E402
from kv.report import load_known  # noqa: E402
from kv.srcmodel import AnalysisError  # noqa: E402

args = sys.argv[1:]
root = "/repo"
if args and args[0] == "--root":
    root, args = args[1], args[2:]
props = args or sorted(CLAIMED)
try:
    eng = Engine(root)
except Exception as e:  # noqa: BLE001
    print("ENGINE rc=2 %r" % e)
    sys.exit(2)
worst = 0
for p in props:
    try:
        R, _ = run_property(p, "quick", root, quiet=True, eng=eng)
        known = load_known(p)
        new = [o for o in R.violations() if o.key not in known]
        try:
            R.check_floors()
            floor = None
        except AnalysisError as e:
            floor = str(e)
        if R.analysis_errors and not floor:
            floor = "; ".join(R.analysis_errors[:2])
        rc = 1 if new else (2 if floor else 0)
        if rc:
            print("%s rc=%d" % (p, rc))
            for o in new[:8]:
                print("  FAIL %s %s" % (o.rule, o.key[:200]))
            if floor and not new:
                print("  ANALYSIS-ERROR %s" % floor[:250])
    except AnalysisError as e:
        rc = 2
        print("%s rc=2\n  ANALYSIS-ERROR %s" % (p, str(e)[:300]))
    except Exception as e:  # noqa: BLE001
        rc = 2
        print("%s rc=2\n  INTERNAL %r" % (p, e))
    worst = max(worst, rc)
print("worst rc=%d" % worst)
