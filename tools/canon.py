#!/venv/bin/python
"""print the canonical form (kv/canon.py) of functions: tools/canon.py [--root DIR] Class.method [...]"""
import ast
import sys

sys.path.insert(0, "/verif")
from kv.engine import Engine  # noqa: E402

args = sys.argv[1:]
root = "/repo"
if args and args[0] == "--root":
    root, args = args[1], args[2:]
eng = Engine(root)
if args and args[0] == "--dump":
    import json

    out = {}
    for f in eng.p.all_functions():
        try:
            from kv.canon import alpha
            out["%s::%s" % (f.file, f.qualname)] = " ".join(ast.unparse(alpha(eng.cnode(f))).split())
        except Exception as e:  # noqa: BLE001
            out["%s::%s" % (f.file, f.qualname)] = "ERROR %r" % e
    json.dump(out, open(args[1], "w"), indent=0, sort_keys=True)
    sys.exit(0)
for q in args:
    hits = [f for f in eng.p.all_functions() if f.qualname == q or f.qualname.endswith("." + q) or f.name == q or f.qualname in (q + ".fget", q + ".fset")]
    for f in hits:
        print("#", f.file, f.qualname)
        print(ast.unparse(eng.cnode(f)))
        print()
