#!/bin/bash
# usage: ref_try.sh <Cxx>  - apply a behaviour-preserving refactoring (from /tmp/refpatch_Cxx.diff) to /repo, run ALL quick checks, revert; any rc != 0 is a false alarm
P=$1
mkdir -p /root/scratch/refs
cp /tmp/refpatch2_$P.diff /tmp/equiv2_$P.py /root/scratch/refs/ 2>/dev/null
git -C /repo worktree remove --force /tmp/wr2_$P 2>/dev/null; git -C /repo worktree prune
git -C /repo apply /root/scratch/refs/refpatch2_$P.diff || git -C /repo apply --3way /root/scratch/refs/refpatch2_$P.diff || { echo "PATCH DOES NOT APPLY"; git -C /repo reset -q --hard HEAD; exit 3; }
for c in $(/venv/bin/python -c "import sys; sys.path.insert(0,'/verif'); from kv.manifest_data import CLAIMED; print(' '.join(sorted(CLAIMED)))"); do
  OUT=$(/venv/bin/python /verif/check $c --no-write 2>&1); RC=$?
  if [ $RC -ne 0 ]; then echo "$c rc=$RC"; echo "$OUT" | grep "FAIL\|ANALYSIS-ERROR" | cut -c1-330; fi
done
git -C /repo reset -q --hard HEAD; git -C /repo status --short | head -3
