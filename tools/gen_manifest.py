#!/venv/bin/python
"""Regenerate /verif/MANIFEST.json from kv/manifest_data.py (run by hand after adding a property check)."""
import json, os, sys
V = os.path.dirname(os.path.dirname(os.path.abspath(__file__)))
sys.path.insert(0, V)
from kv.manifest_data import CLAIMED, NOT_APPLICABLE, NOT_YET, TOL_NOTE
props = [json.loads(l)["id"] for l in open(os.path.join(V, "properties.jsonl"))]
checks = []
for pid in props:
    if pid in CLAIMED:
        c = CLAIMED[pid]
        checks.append({
            "property_id": pid,
            "quick_cmd": "/venv/bin/python /verif/check %s --tier quick" % pid,
            "thorough_cmd": "/venv/bin/python /verif/check %s --tier thorough" % pid,
            "evidence_file": "/verif/evidence/%s.json" % pid,
            "replay_cmd_template": "/venv/bin/python /verif/check %s --replay {path}" % pid,
            "engine": "kv",
            "level_claimed": {"category": c.get("category", "other"), "text": c["text"] + TOL_NOTE, "design_ref": c.get("design_ref", "DESIGN.md sections 6 and 10 (%s)" % pid)},
            "level_note": c["note"],
            "technique": c["technique"],
        })
na = [{"property_id": p, "reason": r} for p, r in NOT_APPLICABLE.items()]
for p in props:
    if p not in CLAIMED and p not in NOT_APPLICABLE:
        na.append({"property_id": p, "reason": NOT_YET})
m = {
    "version": 1,
    "setup_cmd": "/venv/bin/python -m compileall -q /verif/kv /verif/check >/dev/null && /venv/bin/python /verif/check --help >/dev/null",
    "hooks": {"guard": "KAFE2_VERIF", "enable": "none needed: the checks read /repo's source text and never execute it", 
              "baseline_off_cmd": "cd /repo && /venv/bin/python -m pytest -ra -q -p no:cacheprovider --timeout=900 --continue-on-collection-errors",
              "source_commits": [], "add_only": True},
    "engines": [{"name": "kv", "path": "/verif/kv", "serves_properties": sorted(CLAIMED), "kind_free_text": "custom static analysis over Python ast: class model with C3 MRO, callee resolution, per-function CFG, interprocedural read/write effect summaries, constant-propagating table evaluators, expression normaliser"}],
    "checks": checks,
    "not_applicable": na,
    "notes": "Static analysis only (stdlib ast under /venv/bin/python). Known findings: /verif/known_findings.json. Exit 2 + ANALYSIS-ERROR = checker could not decide (nothing claimed).",
}
json.dump(m, open(os.path.join(V, "MANIFEST.json"), "w"), indent=1)
print("claimed:", sorted(CLAIMED), "n/a:", [x["property_id"] for x in na])
