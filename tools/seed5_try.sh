#!/bin/bash
# usage: seed5_try.sh <Cxx>  - collect /tmp/patch5_Cxx.diff + demo, remove the worktree, run ALL properties (shared engine) against the patch
P=$1
mkdir -p /root/scratch/seeds5
cp /tmp/patch5_$P.diff /tmp/demo5_$P.py /root/scratch/seeds5/ 2>/dev/null
git -C /repo worktree remove --force /tmp/w5_$P 2>/dev/null; git -C /repo worktree prune
git -C /repo apply /root/scratch/seeds5/patch5_$P.diff || { echo "PATCH DOES NOT APPLY"; exit 3; }
/verif/tools/quick_all.py | cut -c1-260
git -C /repo reset -q --hard HEAD; git -C /repo status --short | head -3
