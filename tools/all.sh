#!/bin/bash
# usage: all.sh [quick|thorough] [--no-write]  - run every claimed check, one summary line each
TIER=${1:-quick}; shift
cd /verif
for c in $(/venv/bin/python -c "import sys; sys.path.insert(0,'/verif'); from kv.manifest_data import CLAIMED; print(' '.join(sorted(CLAIMED)))"); do
  OUT=$(./check $c --tier $TIER "$@" 2>&1); RC=$?
  echo "$c rc=$RC $(echo "$OUT" | grep "^\[C" | cut -c1-120) $(echo "$OUT" | grep -c "KNOWN-FINDING") known"
  echo "$OUT" | grep "FAIL\|ANALYSIS-ERROR\|MISS\|NOISE" | cut -c1-300
done
