#!/bin/bash
# usage: confirm_seed_par.sh confirm|detect <seed-id> <property> <patch> <demo> "<needs>" [extra-check-props...]
# Same as confirm_seed.sh, split in two stages so that the scratch-worktree stage (demo without / with the patch, test suite with it)
# of several seeds can run side by side; the detect stage patches /repo and must run alone.
set -u
STAGE=$1; ID=$2; PROP=$3; PATCH=$4; DEMO=$5; NEEDS=$6; shift 6
WT=/tmp/cs_$ID
D=/verif/seeded/$ID
NJ=${NJ:-4}
if [ "$STAGE" = confirm ]; then
  mkdir -p $D
  cp "$PATCH" $D/patch.diff; cp "$DEMO" $D/demo.py
  git -C /repo worktree remove --force $WT 2>/dev/null
  git -C /repo worktree add -q --detach $WT HEAD || exit 3
  cd $WT
  PYTHONPATH=$WT /venv/bin/python -W ignore $D/demo.py > $D/demo_without.txt 2>&1; RC0=$?
  git apply $D/patch.diff || git apply --3way $D/patch.diff || { echo "patch does not apply"; git -C /repo worktree remove --force $WT; exit 3; }
  PYTHONPATH=$WT /venv/bin/python -W ignore $D/demo.py > $D/demo_with.txt 2>&1; RC1=$?
  PYTHONPATH=$WT /venv/bin/python -m pytest -q -p no:cacheprovider -n $NJ --dist loadfile -q 2>&1 | tail -6 > $D/tests_with.txt
  UNEXPECTED=$(grep "^FAILED" $D/tests_with.txt | grep -v "test_deriv_by_par" | grep -v "TestWrapperCallableXY::test_save" | wc -l)
  cd /verif
  git -C /repo worktree remove --force $WT
  echo "$RC0 $RC1 $UNEXPECTED" > $D/.confirm
  echo "seed $ID: demo without=$RC0 with=$RC1 unexpected_test_failures=$UNEXPECTED"
  exit 0
fi
read RC0 RC1 UNEXPECTED < $D/.confirm; rm -f $D/.confirm
DET=""
git -C /repo apply $D/patch.diff 2>/dev/null || git -C /repo apply --3way $D/patch.diff
for p in $PROP "$@"; do
  OUT=$(/venv/bin/python /verif/check $p --no-write 2>&1); RC=$?
  echo "$OUT" | grep -E "FAIL|ANALYSIS" | head -5 > $D/check_$p.txt
  DET="$DET $p:rc=$RC"
done
git -C /repo reset -q --hard HEAD
/venv/bin/python - <<PY
import json
json.dump({"id":"$ID","breaks_property":"$PROP","needs_to_manifest":"""$NEEDS""",
 "confirmed":{"demo_exit_without_patch":$RC0,"demo_exit_with_patch":$RC1,"unexpected_test_failures_with_patch":$UNEXPECTED,
   "ran":"scratch worktree $WT of /repo HEAD: demo.py without and with patch.diff; pytest -n $NJ --dist loadfile with the patch (tests_with.txt)"},
 "detection":"$DET".split()}, open("$D/meta.json","w"), indent=1)
PY
echo "seed $ID: detection=$DET"
git -C /repo status --short | head -3
