#!/bin/bash
# every stored behaviour-preserving refactoring (twins/*/patch.diff) is applied to /repo in turn and all quick checks are run on it: each must stay silent
# usage: tools/twins_all.sh [prefix]     (e.g. r4_)
cd /verif
n=0; bad=0
for d in twins/${1:-}*/; do
  t=$(basename "$d")
  out=$(tools/twin_try.sh /verif/twins/$t/patch.diff 2>&1 | grep -E "rc=|FAIL|ANALYSIS" )
  n=$((n+1))
  if echo "$out" | grep -q "worst rc=0"; then echo "$t silent"; else bad=$((bad+1)); echo "$t ALARM"; echo "$out" | sed 's/^/    /' | cut -c1-220; fi
done
echo "twins: $n, not silent: $bad"
git -C /repo status --short | head -3
