#!/bin/bash
# usage: confirm_seed.sh <seed-id> <property> <patch> <demo> "<needs>" [extra-check-props...]
# Confirms a seeded breaking change in a scratch worktree of /repo (demo passes without / fails with the patch, test suite
# still passes with it), runs the registered quick checks against it on /repo (apply -> check -> revert), stores it in /verif/seeded/<id>/.
set -u
ID=$1; PROP=$2; PATCH=$3; DEMO=$4; NEEDS=$5; shift 5
WT=/tmp/cs_$ID
D=/verif/seeded/$ID
mkdir -p $D
cp "$PATCH" $D/patch.diff; cp "$DEMO" $D/demo.py
git -C /repo worktree remove --force $WT 2>/dev/null
git -C /repo worktree add -q --detach $WT HEAD || exit 3
cd $WT
PYTHONPATH=$WT /venv/bin/python -W ignore $D/demo.py > $D/demo_without.txt 2>&1; RC0=$?
git apply $D/patch.diff || git apply --3way $D/patch.diff || { echo "patch does not apply"; git -C /repo worktree remove --force $WT; exit 3; }
PYTHONPATH=$WT /venv/bin/python -W ignore $D/demo.py > $D/demo_with.txt 2>&1; RC1=$?
PYTHONPATH=$WT /venv/bin/python -m pytest -q -p no:cacheprovider -n 12 --dist loadfile -q 2>&1 | tail -6 > $D/tests_with.txt
FAILED=$(grep -c "^FAILED" $D/tests_with.txt)
UNEXPECTED=$(grep "^FAILED" $D/tests_with.txt | grep -v "test_deriv_by_par" | grep -v "TestWrapperCallableXY::test_save" | wc -l)
cd /verif
git -C /repo worktree remove --force $WT
# detection by the registered checks
DET=""
git -C /repo apply $D/patch.diff 2>/dev/null || git -C /repo apply --3way $D/patch.diff
for p in $PROP "$@"; do
  OUT=$(/venv/bin/python /verif/check $p --no-write 2>&1); RC=$?
  echo "$OUT" | grep -E "FAIL|ANALYSIS" | head -5 > $D/check_$p.txt
  DET="$DET $p:rc=$RC"
done
git -C /repo reset -q --hard HEAD
/venv/bin/python - <<PY
import json
json.dump({"id":"$ID","breaks_property":"$PROP","needs_to_manifest":"""$NEEDS""",
 "confirmed":{"demo_exit_without_patch":$RC0,"demo_exit_with_patch":$RC1,"unexpected_test_failures_with_patch":$UNEXPECTED,
   "ran":"scratch worktree $WT of /repo HEAD: demo.py without and with patch.diff; pytest -n 12 --dist loadfile with the patch (tests_with.txt)"},
 "detection":"$DET".split()}, open("$D/meta.json","w"), indent=1)
PY
echo "seed $ID: demo without=$RC0 with=$RC1 unexpected_test_failures=$UNEXPECTED detection=$DET"
git -C /repo status --short | head -3
