#!/bin/bash
# usage: seed3_try.sh <Cxx> [more props]
P=$1; shift
mkdir -p /root/scratch/seeds4
cp /tmp/patch4_$P.diff /tmp/demo4_$P.py /root/scratch/seeds4/ 2>/dev/null
git -C /repo worktree remove --force /tmp/w4_$P 2>/dev/null
git -C /repo worktree prune
/verif/tools/try_patch.sh /root/scratch/seeds4/patch4_$P.diff $P "$@" | grep "^\[C\|FAIL\|ERROR" | cut -c1-420
git -C /repo status --short | head -3
