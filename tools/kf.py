#!/venv/bin/python
"""Maintain /verif/known_findings.json by hand (never called by a check).
usage: kf.py add <property> <status known|fixed> <key> <what> [commit]"""
import json, os, sys
P = os.path.join(os.path.dirname(os.path.dirname(os.path.abspath(__file__))), "known_findings.json")
d = json.load(open(P)) if os.path.exists(P) else {"_doc": "status 'known': that exact key is reported as KNOWN-FINDING and does not fail the check; status 'fixed': repaired in /repo by the named fix: commit, suppresses nothing.", "findings": []}
cmd = sys.argv[1]
if cmd == "add":
    prop, status, key, what = sys.argv[2:6]
    commit = sys.argv[6] if len(sys.argv) > 6 else None
    d["findings"] = [e for e in d["findings"] if not (e["property"] == prop and e["key"] == key)]
    e = {"property": prop, "rule": key.split("|")[0], "key": key, "status": status, "what": what}
    if commit:
        e["commit"] = commit
    if status == "fixed":
        e["line"] = "fixed: property=%s %s %s" % (prop, commit, what)
    d["findings"].append(e)
json.dump(d, open(P, "w"), indent=1)
