#!/bin/bash
# usage: seeds_check.sh [Cxx ...]  - every stored seed (of the given properties; default all) must still be reported (rc=1) by the checks recorded as detecting it in its meta.json
WANT="$@"
BAD=0
for d in /verif/seeded/s*/; do
  id=$(basename $d); prop=$(echo $id | cut -d_ -f2)
  if [ -n "$WANT" ] && ! echo " $WANT " | grep -q " $prop "; then continue; fi
  if /venv/bin/python -c "import json,sys; sys.exit(0 if json.load(open('$d/meta.json')).get('missed') else 1)"; then echo "$id known miss (see meta.json: why_missed)"; continue; fi
  DET=$(/venv/bin/python -c "import json,sys; m=json.load(open('$d/meta.json')); print(' '.join(x.split(':')[0] for x in m.get('detection',[]) if x.endswith('rc=1')) or '$prop')")
  git -C /repo apply $d/patch.diff 2>/dev/null || git -C /repo apply --3way $d/patch.diff 2>/dev/null || { echo "$id PATCH DOES NOT APPLY"; git -C /repo reset -q --hard HEAD; BAD=1; continue; }
  OUT=$(/verif/tools/quick_all.py $DET 2>&1)
  git -C /repo reset -q --hard HEAD
  OKS=""
  for c in $DET; do
    if echo "$OUT" | grep -q "^$c rc=1"; then OKS="$OKS $c"; else echo "$id NOT DETECTED by $c: $(echo "$OUT" | grep -A1 "^$c rc" | tr '\n' ' ' | cut -c1-200)"; BAD=1; fi
  done
  echo "$id ok:$OKS"
done
git -C /repo status --short | head -3
exit $BAD
