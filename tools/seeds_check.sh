#!/bin/bash
# usage: seeds_check.sh [Cxx ...]  - every stored seed of the given properties (default: all) must still be reported (rc=1) by its property's quick check
WANT="$@"
BAD=0
for d in /verif/seeded/s*/; do
  id=$(basename $d); prop=$(echo $id | cut -d_ -f2)
  if [ -n "$WANT" ] && ! echo " $WANT " | grep -q " $prop "; then continue; fi
  git -C /repo apply $d/patch.diff 2>/dev/null || git -C /repo apply --3way $d/patch.diff 2>/dev/null || { echo "$id PATCH DOES NOT APPLY"; git -C /repo reset -q --hard HEAD; BAD=1; continue; }
  /venv/bin/python /verif/check $prop --no-write >/tmp/seedchk.out 2>&1; RC=$?
  git -C /repo reset -q --hard HEAD
  if [ $RC -ne 1 ]; then echo "$id NOT DETECTED rc=$RC"; grep "ANALYSIS" /tmp/seedchk.out | cut -c1-200; BAD=1; else echo "$id ok"; fi
done
git -C /repo status --short | head -3
exit $BAD
