#!/venv/bin/python
"""regenerate the status table of DESIGN.md section 10.1 from the evidence files (run after `tools/all.sh thorough`)"""
import glob
import json
import os

V = os.path.dirname(os.path.dirname(os.path.abspath(__file__)))
print("| id | rules (obligations on the current tree) | self-test (mutants + twins) |")
print("|----|----------------------------------------|-----------------------------|")
for fn in sorted(glob.glob(os.path.join(V, "evidence", "C*.json"))):
    d = json.load(open(fn))
    c = d["coverage"]
    st = c.get("selftest") or {}
    n = sum(v for k, v in st.items() if k in ("ok", "miss", "noise", "skip") and isinstance(v, int)) if isinstance(st, dict) else "?"
    kn = c.get("known_findings_reported", 0)
    print("| %s | %s (%s obligations%s) | %s |" % (d["property_id"], ", ".join(sorted(c.get("rules", {}))), c.get("obligations"), (", %s known" % kn) if kn else "", n or "quick tier"))
