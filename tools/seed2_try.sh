#!/bin/bash
# usage: seed2_try.sh <Cxx> [more props]  - collect a round-2 seed from /tmp, drop its worktree, run the quick checks against it
P=$1; shift
mkdir -p /root/scratch/seeds2
cp /tmp/patch2_$P.diff /tmp/demo2_$P.py /root/scratch/seeds2/ 2>/dev/null
git -C /repo worktree remove --force /tmp/w2_$P 2>/dev/null
git -C /repo worktree prune
/verif/tools/try_patch.sh /root/scratch/seeds2/patch2_$P.diff $P "$@" | grep "^\[C\|FAIL\|ERROR" | cut -c1-420
git -C /repo status --short | head -3
