#!/bin/bash
# usage: canon_diff.sh <patch>  - which functions have a different canonical form (kv/canon.py) after the patch? (a behaviour-preserving refactoring should ideally list none)
set -e
/verif/tools/canon.py --dump /root/scratch/canon_clean.json
git -C /repo apply "$1"
/verif/tools/canon.py --dump /root/scratch/canon_patched.json || true
git -C /repo reset -q --hard HEAD
/venv/bin/python - <<'PY'
import json
a = json.load(open("/root/scratch/canon_clean.json")); b = json.load(open("/root/scratch/canon_patched.json"))
for k in sorted(set(a) | set(b)):
    if a.get(k) != b.get(k):
        print("==", k)
        if k in a and k in b:
            import difflib
            x, y = a[k], b[k]
            sm = difflib.SequenceMatcher(None, x, y, autojunk=False)
            for tag, i1, i2, j1, j2 in sm.get_opcodes():
                if tag != "equal":
                    print("   ", tag, repr(x[max(0,i1-30):i2+30])[:200], "->", repr(y[max(0,j1-30):j2+30])[:200])
        else:
            print("   only in", "clean" if k in a else "patched")
PY
