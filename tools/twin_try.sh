#!/bin/bash
# usage: twin_try.sh <patch>  - behaviour-preserving patch: apply to /repo, run all properties with one shared engine, revert; anything but "worst rc=0" is a false alarm
git -C /repo apply "$1" || { echo "PATCH DOES NOT APPLY"; exit 3; }
/verif/tools/quick_all.py
git -C /repo reset -q --hard HEAD; git -C /repo status --short | head -3
