"""Path-sensitive evaluation of one function over a finite abstract domain (static; nothing is executed).

Tracked facts per variable: NONE / NOTNONE, True / False, small integers. Everything else is kept as an expression
environment (name -> closed syntax tree) for the expression normaliser. Branches whose test is decided by the facts are
followed on that side only, undecided tests fork. Loops are entered once (the body is evaluated for one symbolic
element) and skipped once. Calls to small methods of the same class can be inlined with the facts of their arguments.
The caller gets an `on_event(kind, node, facts, env, trail)` callback at the call sites it asked for."""
import ast
import copy

from .srcmodel import AnalysisError
from .termform import subst

NONE, NOTNONE = "<None>", "<not None>"
MAX_PATHS = 4096


class _Stop(Exception):
    pass


class Evaluator:
    def __init__(self, cls=None, event_calls=(), inline=()):
        self.cls = cls
        self.event_calls = set(event_calls)  # attribute names of calls reported through on_event, e.g. {"append"}
        self.inline = set(inline)  # method names of self.<m>(...) that may be inlined
        self.events = []
        self.n_paths = 0

    # ------------------------------------------------------------ facts
    def test(self, e, facts, env):
        """True / False / None (undecided)"""
        if isinstance(e, ast.Constant):
            return bool(e.value) if isinstance(e.value, (bool, int)) or e.value is None else None
        if isinstance(e, ast.Name):
            v = facts.get(e.id)
            if v is True or v is False:
                return v
            if v == NONE:
                return False
            if isinstance(v, int) and not isinstance(v, bool):
                return v != 0
            if e.id in env:
                return self.test(env[e.id], facts, {})
            return None
        if isinstance(e, ast.UnaryOp) and isinstance(e.op, ast.Not):
            r = self.test(e.operand, facts, env)
            return None if r is None else (not r)
        if isinstance(e, ast.BoolOp):
            rs = [self.test(v, facts, env) for v in e.values]
            if isinstance(e.op, ast.And):
                if any(r is False for r in rs):
                    return False
                return True if all(r is True for r in rs) else None
            if any(r is True for r in rs):
                return True
            return False if all(r is False for r in rs) else None
        if isinstance(e, ast.Compare) and len(e.ops) == 1:
            op, l, r = e.ops[0], e.left, e.comparators[0]
            if isinstance(op, (ast.Is, ast.IsNot)) and isinstance(r, ast.Constant) and r.value is None:
                v = self.value(l, facts, env)
                if v == NONE:
                    return isinstance(op, ast.Is)
                if v == NOTNONE or v is True or v is False or isinstance(v, int):
                    return isinstance(op, ast.IsNot)
                return None
            lv, rv = self.value(l, facts, env), self.value(r, facts, env)
            if isinstance(lv, int) and isinstance(rv, int):
                return {ast.Eq: lv == rv, ast.NotEq: lv != rv, ast.Lt: lv < rv, ast.LtE: lv <= rv, ast.Gt: lv > rv, ast.GtE: lv >= rv}.get(type(op))
            return None
        return None

    def value(self, e, facts, env):
        """abstract value of an expression or None if untracked"""
        if isinstance(e, ast.Constant):
            if e.value is None:
                return NONE
            if isinstance(e.value, (bool, int)):
                return e.value
            return NOTNONE
        if isinstance(e, ast.Name):
            if e.id in facts:
                return facts[e.id]
            if e.id in env:
                return self.value(env[e.id], facts, {})
            return None
        if isinstance(e, (ast.List, ast.Tuple, ast.Dict, ast.Set, ast.ListComp, ast.JoinedStr)):
            return NOTNONE
        if isinstance(e, (ast.Compare, ast.BoolOp)) or (isinstance(e, ast.UnaryOp) and isinstance(e.op, ast.Not)):
            return self.test(e, facts, env)
        if isinstance(e, ast.IfExp):
            t = self.test(e.test, facts, env)
            if t is None:
                a, b = self.value(e.body, facts, env), self.value(e.orelse, facts, env)
                return a if a == b else None
            return self.value(e.body if t else e.orelse, facts, env)
        if isinstance(e, ast.BinOp) and isinstance(e.op, (ast.Add, ast.Sub)):
            a, b = self.value(e.left, facts, env), self.value(e.right, facts, env)
            if isinstance(a, int) and isinstance(b, int) and not isinstance(a, bool) and not isinstance(b, bool):
                return a + b if isinstance(e.op, ast.Add) else a - b
        return None

    # ------------------------------------------------------------ expressions
    def close(self, e, facts, env, depth=0):
        """expression with decided conditionals resolved, inlinable self-calls replaced by their result, temporaries substituted"""
        ev = self

        class T(ast.NodeTransformer):
            def visit_IfExp(self, n):
                t = ev.test(n.test, facts, env)
                if t is None:
                    return self.generic_visit(n)
                return self.visit(n.body if t else n.orelse)

            def visit_Call(self, n):
                n = self.generic_visit(n)
                if isinstance(n.func, ast.Attribute) and isinstance(n.func.value, ast.Name) and n.func.value.id == "self" and n.func.attr in ev.inline and ev.cls is not None and depth < 3:
                    m = ev.cls.find_method(n.func.attr)
                    if m is not None:
                        r = ev.inline_call(m, n, facts, env, depth + 1)
                        if r is not None:
                            return r
                return n

        out = T().visit(copy.deepcopy(e))
        return subst(out, env)

    def _wrapped_value(self, call, facts, env):
        """`x = _as_list(x)`: a private module-level helper of one argument whose every return is that argument or a container literal around it keeps what is
        known about the argument (not None stays not None)"""
        if not (isinstance(call, ast.Call) and isinstance(call.func, ast.Name) and len(call.args) == 1 and not call.keywords and self.cls is not None):
            return None
        fn = getattr(self.cls.module, "functions", {}).get(call.func.id)
        if fn is None or not call.func.id.startswith("_") or len(fn.node.args.args) != 1:
            return None
        par = fn.node.args.args[0].arg
        rets = [r.value for r in ast.walk(fn.node) if isinstance(r, ast.Return)]
        if not rets or any(r is None for r in rets):
            return None
        for r in rets:
            if isinstance(r, ast.Name) and r.id == par:
                continue
            if isinstance(r, (ast.List, ast.Tuple)) and all(isinstance(x, ast.Name) and x.id == par for x in r.elts) and r.elts:
                continue
            return None
        v = self.value(call.args[0], facts, env)
        return v if v == NOTNONE else None

    def inline_call(self, m, call, facts, env, depth):
        params = [a.arg for a in m.node.args.args]
        if m.kind not in ("static",) and params and params[0] in ("self", "cls"):
            params = params[1:]
        defaults = m.node.args.defaults
        defmap = dict(zip(params[len(params) - len(defaults):], defaults)) if defaults else {}
        bound = {}
        for p_, a in zip(params, call.args):
            bound[p_] = a
        for k in call.keywords:
            if k.arg is None:
                return None
            bound[k.arg] = k.value
        for p_ in params:
            if p_ not in bound:
                if p_ in defmap:
                    bound[p_] = defmap[p_]
                else:
                    return None
        cf, ce = {}, {}
        for p_, a in bound.items():
            v = self.value(a, facts, env)
            if v is not None:
                cf[p_] = v
            ce[p_] = self.close(a, facts, env, depth)
        rets = []
        sub = Evaluator(self.cls, (), self.inline)
        for st, (f2, e2, r) in sub._block(m.node.body, cf, ce, []):
            if st == "return":
                rets.append(ast.unparse(r) if r is not None else "None")
                last = r
        if len(set(rets)) != 1:
            return None
        return last

    # ------------------------------------------------------------ statements
    def _block(self, stmts, facts, env, trail):
        """yield (status, (facts, env, return expr)) for every path; status in normal / return / raise"""
        if not stmts:
            yield "normal", (facts, env, None)
            return
        st, rest = stmts[0], stmts[1:]
        for status, (f1, e1, r) in self._stmt(st, facts, env, trail):
            if status != "normal":
                yield status, (f1, e1, r)
            else:
                yield from self._block(rest, f1, e1, trail)

    def _stmt(self, st, facts, env, trail):
        self.n_paths += 1
        if self.n_paths > MAX_PATHS * 50:
            raise AnalysisError("path evaluation: too many paths")
        if isinstance(st, ast.If):
            t = self.test(st.test, facts, env)
            sides = [(True, st.body), (False, st.orelse)] if t is None else [(t, st.body if t else st.orelse)]
            for pol, body in sides:
                f1 = dict(facts)
                if t is None:
                    self._assume(st.test, pol, f1)
                yield from self._block(list(body), f1, dict(env), trail + [(st.test, pol)])
            return
        if isinstance(st, ast.Assign) and len(st.targets) == 1 and isinstance(st.targets[0], ast.Name):
            n = st.targets[0].id
            f1, e1 = dict(facts), dict(env)
            v = self.value(st.value, facts, env)
            if v is None:
                v = self._wrapped_value(st.value, facts, env)
            closed = self.close(st.value, facts, env)
            self._events_in(st.value, facts, env, trail)
            if v is not None:
                f1[n] = v
            else:
                f1.pop(n, None)
            e1[n] = closed
            yield "normal", (f1, e1, None)
            return
        if isinstance(st, ast.AugAssign) and isinstance(st.target, ast.Name):
            n = st.target.id
            f1, e1 = dict(facts), dict(env)
            cur = facts.get(n)
            inc = self.value(st.value, facts, env)
            if isinstance(cur, int) and isinstance(inc, int) and isinstance(st.op, (ast.Add, ast.Sub)):
                f1[n] = cur + inc if isinstance(st.op, ast.Add) else cur - inc
            else:
                f1.pop(n, None)
            e1[n] = self.close(ast.BinOp(left=ast.Name(id=n, ctx=ast.Load()), op=st.op, right=st.value), facts, env)
            yield "normal", (f1, e1, None)
            return
        if isinstance(st, ast.Return):
            yield "return", (facts, env, self.close(st.value, facts, env) if st.value is not None else None)
            return
        if isinstance(st, ast.Raise):
            yield "raise", (facts, env, None)
            return
        if isinstance(st, ast.Try):
            # body completes, or any handler runs after a prefix of the body that changed nothing we track
            yield from self._block(list(st.body) + list(st.orelse) + list(st.finalbody), dict(facts), dict(env), trail)
            for h in st.handlers:
                yield from self._block(list(h.body) + list(st.finalbody), dict(facts), dict(env), trail)
            return
        if isinstance(st, (ast.For, ast.While)):
            # zero iterations
            yield "normal", (dict(facts), dict(env), None)
            # one symbolic iteration
            f1, e1 = dict(facts), dict(env)
            if isinstance(st, ast.For):
                for n in ast.walk(st.target):
                    if isinstance(n, ast.Name):
                        f1.pop(n.id, None)
                        e1.pop(n.id, None)
            for status, (f2, e2, r) in self._block(list(st.body), f1, e1, trail + [(st, True)]):
                if status == "normal":
                    # values assigned in the body are not trusted after the loop
                    f3, e3 = dict(facts), dict(env)
                    for n in ast.walk(ast.Module(body=st.body, type_ignores=[])):
                        if isinstance(n, ast.Name) and isinstance(n.ctx, ast.Store):
                            if f2.get(n.id) != facts.get(n.id):
                                f3.pop(n.id, None)
                            if n.id in e2 and (n.id not in env or ast.unparse(e2[n.id]) != ast.unparse(env[n.id])):
                                e3.pop(n.id, None)
                    yield "normal", (f3, e3, None)
                else:
                    yield status, (f2, e2, r)
            return
        if isinstance(st, ast.Expr):
            self._events_in(st.value, facts, env, trail)
            yield "normal", (facts, env, None)
            return
        if isinstance(st, (ast.Pass, ast.Assert, ast.Import, ast.ImportFrom, ast.Global, ast.Nonlocal, ast.Delete, ast.FunctionDef, ast.AnnAssign, ast.With, ast.Continue, ast.Break)):
            if isinstance(st, ast.With):
                yield from self._block(list(st.body), facts, env, trail)
                return
            yield "normal", (facts, env, None)
            return
        # tuple assignments etc.: forget the targets
        f1, e1 = dict(facts), dict(env)
        for n in ast.walk(st):
            if isinstance(n, ast.Name) and isinstance(n.ctx, ast.Store):
                f1.pop(n.id, None)
                e1.pop(n.id, None)
        yield "normal", (f1, e1, None)

    def _assume(self, test, pol, facts):
        """record what an undecided test tells about tracked names"""
        if isinstance(test, ast.UnaryOp) and isinstance(test.op, ast.Not):
            return self._assume(test.operand, not pol, facts)
        if isinstance(test, ast.BoolOp):
            if (isinstance(test.op, ast.And) and pol) or (isinstance(test.op, ast.Or) and not pol):
                for v in test.values:
                    self._assume(v, pol, facts)
            return
        if isinstance(test, ast.Compare) and len(test.ops) == 1 and isinstance(test.left, ast.Name) and isinstance(test.comparators[0], ast.Constant) and test.comparators[0].value is None:
            is_none = isinstance(test.ops[0], ast.Is) == pol
            facts[test.left.id] = NONE if is_none else NOTNONE
            return
        if isinstance(test, ast.Name):
            facts[test.id] = pol if pol else facts.get(test.id, False)

    def _events_in(self, expr, facts, env, trail):
        for c in ast.walk(expr):
            if isinstance(c, ast.Call) and isinstance(c.func, ast.Attribute) and c.func.attr in self.event_calls:
                self.events.append((c, dict(facts), dict(env), list(trail)))

    # ------------------------------------------------------------ entry
    def run(self, func_node, init_facts):
        self.events = []
        outcomes = []
        for status, (f, e, r) in self._block(list(func_node.body), dict(init_facts), {}, []):
            outcomes.append((status, f, r))
        return outcomes
