"""Canonical form of a function, used by shape rules so that they decide what the code does and not how it is written down.

Two functions that differ only by one of the following edits get the same canonical form:

  * a private helper that is referenced from exactly one place is written out at that place (or extracted from it),
  * a local that is assigned once is used directly (or a sub-expression is given a name),
  * an argument is passed by keyword or by position, or through a `**{...}` / `**dict(...)` literal,
  * `if not c: A else: B`  <->  `if c: B else: A`; `if c: return/continue` + rest  <->  `if c: ... else: rest`; `if a: if b: X`  <->  `if a and b: X`,
  * a nested one-line `def` <-> a lambda; `x = []` + append loop <-> list comprehension.

Names of the locals that remain (loop variables, accumulators) are left as written; the rules match them with placeholders (`common.Src`).
Nothing is executed; the canonical tree is only read (text, CFG)."""
import ast
import copy

from .termform import subst

# leading parameters of the library functions that kafe2 calls with a mix of positional and keyword arguments (numpy / scipy documentation)
EXTERNAL_SIGS = {
    "opt.minimize": ["fun", "x0"], "integrate.quad": ["func", "a", "b"], "np.append": ["arr", "values"], "np.insert": ["arr", "obj", "values"],
}

PURE_CALLS = {"len", "list", "dict", "tuple", "set", "float", "int", "str", "bool", "zip", "enumerate", "range", "isinstance", "getattr", "sorted", "sum", "min", "max", "abs",
              "hasattr", "type", "id", "repr", "round", "any", "all", "reversed", "iter", "slice", "frozenset"}


def txt(n):
    return " ".join(ast.unparse(n).split())


# names of properties (anywhere in the program) whose getter does more than hand out a field: reading one of them may compute, cache or refresh something,
# so such a read is treated like a call with possible effects (filled in by Canon._index)
EFFECT_ATTRS = set()


def _is_pure(e, local_mutators_ok=False, reads_ok=False):
    """reads_ok: reading a computed property is not an effect (for writing an expression twice at the same place)"""
    if isinstance(e, ast.Lambda):
        return True
    for x in _walk_no_defs(e):
        if local_mutators_ok and isinstance(x, ast.Call) and isinstance(x.func, ast.Attribute) and x.func.attr in MUTATORS and isinstance(x.func.value, ast.Name) \
                and x.func.value.id not in ("self", "cls"):
            continue  # `local.append(x)`: changes a local container, not the state of an object
        if isinstance(x, ast.Attribute) and isinstance(x.ctx, ast.Load) and x.attr in EFFECT_ATTRS and not reads_ok:
            return False
        if isinstance(x, ast.Call):
            f = x.func
            if isinstance(f, ast.Name) and f.id in PURE_CALLS:
                continue
            if isinstance(f, ast.Attribute) and isinstance(f.value, ast.Name) and f.value.id in ("np", "numpy", "math", "six", "os"):
                continue
            if isinstance(f, ast.Attribute) and isinstance(f.value, ast.Attribute) and txt(f.value) in ("np.linalg", "os.path", "scipy.special", "np.random"):
                continue
            if isinstance(f, ast.Attribute) and f.attr in ("get", "keys", "values", "items", "index", "copy", "format", "join", "lower", "upper", "strip", "split", "startswith",
                                                             "endswith", "reshape", "flatten", "astype", "count", "replace", "dot", "tolist", "sum", "mean", "transpose", "ravel", "squeeze",
                                                             "diagonal", "take", "any", "all", "min", "max", "conj", "isidentifier", "isdigit", "rstrip", "lstrip", "find", "encode", "decode"):
                continue
            return False
        if isinstance(x, (ast.Yield, ast.YieldFrom, ast.Await, ast.NamedExpr)):
            return False
    return True


# ------------------------------------------------------------------------------------------------------------------- tests
NEG = {ast.Eq: ast.NotEq, ast.NotEq: ast.Eq, ast.Is: ast.IsNot, ast.IsNot: ast.Is, ast.In: ast.NotIn, ast.NotIn: ast.In}


def negate(t):
    if isinstance(t, ast.UnaryOp) and isinstance(t.op, ast.Not):
        return positive(t.operand)
    if isinstance(t, ast.Compare) and len(t.ops) == 1 and type(t.ops[0]) in NEG:
        return ast.Compare(left=t.left, ops=[NEG[type(t.ops[0])]()], comparators=t.comparators)
    if isinstance(t, ast.BoolOp):
        op = ast.And() if isinstance(t.op, ast.Or) else ast.Or()
        return ast.BoolOp(op=op, values=[negate(v) for v in t.values])
    return ast.UnaryOp(op=ast.Not(), operand=t)


MIRROR = {ast.Lt: ast.Gt, ast.Gt: ast.Lt, ast.LtE: ast.GtE, ast.GtE: ast.LtE, ast.Eq: ast.Eq, ast.NotEq: ast.NotEq}


def positive(t):
    """negations pushed to the leaves; a literal on the left of a comparison goes to the right (`0 < x` -> `x > 0`)"""
    if isinstance(t, ast.UnaryOp) and isinstance(t.op, ast.Not):
        return negate(t.operand)
    if isinstance(t, ast.Compare) and len(t.ops) == 1 and isinstance(t.left, ast.Constant) and not isinstance(t.comparators[0], ast.Constant) and type(t.ops[0]) in MIRROR:
        return ast.Compare(left=t.comparators[0], ops=[MIRROR[type(t.ops[0])]()], comparators=[t.left])
    if isinstance(t, ast.BoolOp):
        vals = []
        for v in t.values:
            v = positive(v)
            if isinstance(v, ast.BoolOp) and type(v.op) is type(t.op):
                vals.extend(v.values)
            else:
                vals.append(v)
        return ast.BoolOp(op=t.op, values=vals)
    return t


def _neg_count(t):
    return sum(1 for x in ast.walk(t) if (isinstance(x, ast.UnaryOp) and isinstance(x.op, ast.Not)) or (isinstance(x, ast.Compare) and any(isinstance(o, (ast.NotEq, ast.IsNot, ast.NotIn)) for o in x.ops)))


def _is_negative(t):
    """should a two-branch conditional be written with the negation of this test (branches exchanged)? The form with fewer negations wins; on a tie a conjunction
    at the top wins over a disjunction (`C if p is None or not d else P` and `P if p is not None and d else C` are one form). Stable: the winner is never flipped back."""
    t = positive(t)
    n = negate(t)
    a, b = _neg_count(t), _neg_count(n)
    if a != b:
        return b < a
    return isinstance(t, ast.BoolOp) and isinstance(t.op, ast.Or)


def _terminator(body):
    """'return' / 'continue' / 'break' / 'raise' / 'mixed' if every path through the block ends in an exit, else None"""
    if not body:
        return None
    st = body[-1]
    if isinstance(st, ast.Return):
        return "return"
    if isinstance(st, ast.Continue):
        return "continue"
    if isinstance(st, ast.Break):
        return "break"
    if isinstance(st, ast.Raise):
        return "raise"
    if isinstance(st, ast.If) and st.orelse:
        a, b = _terminator(st.body), _terminator(st.orelse)
        if a and b:
            return a if a == b else "mixed"
    return None


def _and(a, b):
    vals = []
    for v in (a, b):
        if isinstance(v, ast.BoolOp) and isinstance(v.op, ast.And):
            vals.extend(v.values)
        else:
            vals.append(v)
    return ast.BoolOp(op=ast.And(), values=vals)


class _Blocks:
    """early exits -> if/else, negations folded, nested ifs merged. `tail` is 'loop' / 'func' when falling off the end of the block ends the iteration / the call."""

    try_else = False   # (helpers being written out) `try: A except E: <exit>` + rest  ->  `try: A except E: <exit> else: rest`: every return in tail position

    def block(self, body, tail):
        out = []
        for i, st in enumerate(body):
            last = i == len(body) - 1
            if self.try_else and isinstance(st, ast.Try) and not st.finalbody and not last and st.handlers and all(_terminator(h.body) in ("return", "raise") for h in st.handlers) \
                    and any(isinstance(x, ast.Return) for h in st.handlers for x in ast.walk(h)):
                st = copy.copy(st)
                st.orelse = list(st.orelse) + list(body[i + 1:])
                out.append(self.stmt(st, tail))
                return out
            if isinstance(st, ast.If):
                st = ast.copy_location(ast.If(test=st.test, body=list(st.body), orelse=list(st.orelse)), st)
                rest = body[i + 1:]
                if not st.orelse and rest and _terminator(st.body) in ("return", "continue", "break", "mixed"):
                    st.orelse = rest
                    out.extend(self.fold(st, tail))
                    return out
                if st.orelse and rest and _terminator(st.orelse) in ("return", "continue", "break", "mixed") and not _terminator(st.body):
                    st.body = st.body + rest
                    out.extend(self.fold(st, tail))
                    return out
                out.extend(self.fold(st, tail if last else None))
                continue
            out.append(self.stmt(st, tail if last else None))
        # a bare exit at the very end of the block says nothing
        while out and tail == "loop" and isinstance(out[-1], ast.Continue):
            out.pop()
        while out and tail == "func" and isinstance(out[-1], ast.Return) and (out[-1].value is None or (isinstance(out[-1].value, ast.Constant) and out[-1].value.value is None)):
            out.pop()
        return out or [ast.Pass()]

    def stmt(self, st, tail):
        if isinstance(st, (ast.For, ast.AsyncFor, ast.While)):
            st = copy.copy(st)
            st.body = self.block(st.body, "loop")
            st.orelse = self.block(st.orelse, None) if st.orelse else []
            return st
        if isinstance(st, (ast.With, ast.AsyncWith)):
            st = copy.copy(st)
            st.body = self.block(st.body, None)
            return st
        if isinstance(st, ast.Try):
            st = copy.copy(st)
            st.body = self.block(st.body, None)
            st.handlers = [ast.copy_location(ast.ExceptHandler(type=h.type, name=h.name, body=self.block(h.body, None)), h) for h in st.handlers]
            st.orelse = self.block(st.orelse, None) if st.orelse else []
            st.finalbody = self.block(st.finalbody, None) if st.finalbody else []
            return st
        return st

    def fold(self, st, tail):
        """-> list of statements equivalent to the If"""
        st.test = positive(st.test)
        body = self.block(st.body, tail)
        orelse = self.block(st.orelse, tail) if st.orelse else []
        if len(body) == 1 and isinstance(body[0], ast.Pass) and not orelse:
            # `if c: continue` at the tail: only the test is left
            if _is_pure_test(st.test):
                return []
            return [ast.copy_location(ast.Expr(value=st.test), st)]
        if orelse and len(orelse) == 1 and isinstance(orelse[0], ast.Pass):
            orelse = []
        if len(body) == 1 and isinstance(body[0], ast.Pass) and orelse:
            st.test, body, orelse = negate(st.test), orelse, []
        if orelse and _is_negative(st.test):
            st.test, body, orelse = negate(st.test), orelse, body
        # if a: (if b: X)  ->  if a and b: X
        if not orelse and len(body) == 1 and isinstance(body[0], ast.If) and not body[0].orelse:
            st.test, body = _and(st.test, body[0].test), body[0].body
        st.body, st.orelse = body, orelse
        return [st]


def _is_pure_test(t):
    return _is_pure(t)


class _IfExp(ast.NodeTransformer):
    def visit_IfExp(self, n):
        self.generic_visit(n)
        n.test = positive(n.test)
        if _is_negative(n.test):
            n.test, n.body, n.orelse = negate(n.test), n.orelse, n.body
        return n


# ------------------------------------------------------------------------------------------------------------------- helpers
def _bound_names(fn):
    out = set()
    for n in ast.walk(fn):
        if isinstance(n, ast.Name) and isinstance(n.ctx, (ast.Store, ast.Del)):
            out.add(n.id)
        elif isinstance(n, ast.arg):
            out.add(n.arg)
        elif isinstance(n, (ast.FunctionDef, ast.AsyncFunctionDef)) and n is not fn:
            out.add(n.name)
        elif isinstance(n, ast.ExceptHandler) and n.name:
            out.add(n.name)
    return out


class _Rename(ast.NodeTransformer):
    def __init__(self, m):
        self.m = m

    def visit_Name(self, n):
        if n.id in self.m:
            return ast.copy_location(ast.Name(id=self.m[n.id], ctx=n.ctx), n)
        return n

    def visit_arg(self, n):
        if n.arg in self.m:
            n.arg = self.m[n.arg]
        return n

    def visit_FunctionDef(self, n):
        if n.name in self.m:
            n.name = self.m[n.name]
        self.generic_visit(n)
        return n

    def visit_ExceptHandler(self, n):
        if n.name in self.m:
            n.name = self.m[n.name]
        self.generic_visit(n)
        return n


def _returns_in_tail(body):
    """every `return` of the block is the last statement of its branch (so inlining can replace it by an assignment)"""
    def tail_ok(b):
        for i, st in enumerate(b):
            last = i == len(b) - 1
            if isinstance(st, ast.Return):
                if not last:
                    return False
                continue
            if isinstance(st, ast.If) and last:
                if not tail_ok(st.body) or not tail_ok(st.orelse):
                    return False
                continue
            if isinstance(st, ast.Try) and last and not st.finalbody:
                if not tail_ok(st.body) or not tail_ok(st.orelse) or not all(tail_ok(h.body) for h in st.handlers):
                    return False
                continue
            if any(isinstance(x, ast.Return) for x in _walk_no_defs(st)):
                return False
        return True
    return tail_ok(body)


def _walk_no_defs(node):
    stack = [node]
    while stack:
        n = stack.pop()
        yield n
        for c in ast.iter_child_nodes(n):
            if isinstance(c, (ast.FunctionDef, ast.AsyncFunctionDef, ast.Lambda, ast.ClassDef)):
                continue
            stack.append(c)


# Private functions that rules name as anchors (call targets of must-call / ordering rules, or functions looked up by name) and that the clean tree keeps as calls: they are
# never written out into their callers, whatever a later change does to their size or to the number of their call sites (the decision must not depend on such counts).
KEEP_AS_CALLS = frozenset('''
_add_error_object _add_error_to_fit_generic _add_property_to_nexus _bin_evaluation_antiderivative _bin_evaluation_numerical _bin_evaluation_rectangle _bin_evaluation_simpson
_bin_evaluation_trapezoid _calc_fun_with_constraints _calculate_asymmetric_parameter_errors _calculate_cov_mat _calculate_total_error _convert_yaml_doc_to_object _fcn_wrapper
_fill_in_zeroes_for_fixed _fill_unprocessed _find_axis_raise _find_cost_cut _fit_wrapper_generic _func_wrapper _func_wrapper_unpack_args _get_base_class _get_cost_value
_get_error_by_name_raise _get_error_reference _get_fit_info _get_iminuit _get_model_function_parameter_formatters _get_node_names_to_freeze _get_object_type_name
_get_preface_comment _get_profile_bound _get_required_keywords _get_total_error _init_cost_function _init_nexus _init_shared_error_nodes _initialize_fitter _invalidate_cache
_iterative_fits_needed _load_state _make_representation _min_x_error _minimize _on_error_change _post_fit_iteration _pre_fit_iteration _recalculate _register_class
_remove_zeroes_for_fixed _report_fit_results _save_state _second_fit_needed _set_data_as_model_ref _set_new_parametric_model _update_parameter_formatters _update_singular_fits
_clear_total_error_cache _on_data_change _set_new_data _mark_errors_for_update _get_file_format
'''.split())


class Canon:
    def __init__(self, p):
        self.p = p
        self._refs = None
        self._defs = None
        self._cache = {}
        self._sig = {}
        self._inlined = {}
        self._mentions = None
        self._all_done = False
        self._k = {}

    # -------------------------------------------------------------------------------------------------------- program facts
    def _index(self):
        if self._refs is not None:
            return
        refs, defs = {}, {}
        bare = {}   # references by bare name only (a method is not reached that way: a nested function of the same name is another thing)
        for m in self.p.modules.values():
            for n in ast.walk(m.tree if hasattr(m, "tree") else m.node):
                if isinstance(n, ast.Attribute):
                    refs[n.attr] = refs.get(n.attr, 0) + 1
                elif isinstance(n, ast.Name) and isinstance(n.ctx, ast.Load):
                    refs[n.id] = refs.get(n.id, 0) + 1
                    bare[n.id] = bare.get(n.id, 0) + 1
                elif isinstance(n, ast.Constant) and isinstance(n.value, str) and n.value.isidentifier():
                    refs[n.value] = refs.get(n.value, 0) + 1  # getattr(self, "name") style
        for f in self.p.all_functions():
            defs.setdefault(f.name, []).append(f)
        for f in self.p.all_functions():
            if f.cls is not None and f.name.startswith("_") and len(defs.get(f.name, [])) == 1 and bare.get(f.name):
                refs[f.name] = refs.get(f.name, 0) - bare[f.name]
        # `self.<name>` inside a class that is not related to the class of the method names something else (a field of that class)
        by_cls = {}
        for g in self.p.all_functions():
            if g.cls is None:
                continue
            for x in ast.walk(g.node):
                if isinstance(x, ast.Attribute) and isinstance(x.value, ast.Name) and x.value.id in ("self", "cls") and x.attr.startswith("_"):
                    by_cls.setdefault(x.attr, {})
                    by_cls[x.attr][g.cls] = by_cls[x.attr].get(g.cls, 0) + 1
        for f in self.p.all_functions():
            if f.cls is not None and f.name in by_cls and len(defs.get(f.name, [])) == 1 and f.kind in ("method", "static"):
                for c_, k_ in by_cls[f.name].items():
                    if not (c_ is f.cls or c_.is_subclass_of(f.cls) or f.cls.is_subclass_of(c_)):
                        refs[f.name] = refs.get(f.name, 0) - k_
        self._refs, self._defs = refs, defs
        EFFECT_ATTRS.clear()
        for f in self.p.all_functions():
            if f.kind == "getter" and not _trivial_getter(f.node):
                EFFECT_ATTRS.add(f.prop or f.name)

    def helper(self, f, call, generator=False):
        """FuncInfo of the private single-use helper called by `call` inside `f`, or None. generator=True: a generator function whose `yield`s are plain statements
        (read where a `for` consumes it); otherwise an ordinary function"""
        self._index()
        fn = call.func
        if isinstance(fn, ast.Attribute) and isinstance(fn.value, ast.Name) and fn.value.id in ("self", "cls") and f.cls is not None:
            name = fn.attr
        elif isinstance(fn, ast.Name):
            name = fn.id
        else:
            return None
        if not name.startswith("_") or name.startswith("__") or not (1 <= self._refs.get(name, 0) <= 6) or name in KEEP_AS_CALLS:
            return None
        ds = self._defs.get(name, [])
        if len(ds) != 1:
            return None
        h = ds[0]
        if h is f or h.kind not in ("method", "function", "static"):
            return None
        if isinstance(fn, ast.Attribute):
            if h.cls is None or f.cls is None or not (f.cls is h.cls or f.cls.is_subclass_of(h.cls)):
                return None
        elif h.cls is not None or h.module is not f.module:
            return None
        a = h.node.args
        if a.kwarg or h.node.decorator_list and h.kind != "static":
            return None
        if a.vararg and any(isinstance(x, ast.Starred) for x in call.args):
            return None
        if any(isinstance(x, (ast.YieldFrom, ast.Await, ast.Global, ast.Nonlocal)) for x in ast.walk(h.node)):
            return None
        ys = [x for x in ast.walk(h.node) if isinstance(x, ast.Yield)]
        if bool(ys) != generator:
            return None
        if generator:
            stmt_yields = {id(x.value) for x in ast.walk(h.node) if isinstance(x, ast.Expr) and isinstance(x.value, ast.Yield)}
            if any(id(y) not in stmt_yields or y.value is None for y in ys) or any(isinstance(x, ast.Return) and x.value is not None for x in ast.walk(h.node)) \
                    or any(isinstance(x, (ast.FunctionDef, ast.Lambda)) and x is not h.node for x in ast.walk(h.node)):
                return None
        n_stmts = sum(1 for b in _strip_doc(h.node.body) for x in ast.walk(b) if isinstance(x, ast.stmt))   # (the docstring does not count)
        if self._refs.get(name, 0) > 1 and n_stmts > (25 if self._refs.get(name, 0) == 2 else (10 if self._refs.get(name, 0) <= 4 else 3)):
            return None  # a helper shared by several callers is only written out when it is small
        return h

    def signature(self, f, call):
        """parameter names (without self) of the callee of `call` if it can be determined, else None"""
        self._index()
        fn = call.func
        ext = EXTERNAL_SIGS.get(txt(fn))
        if ext is not None:
            return list(ext), []
        cands = None
        if isinstance(fn, ast.Attribute) and isinstance(fn.value, ast.Name) and fn.value.id in ("self", "cls") and f.cls is not None:
            m = f.cls.find_method(fn.attr)
            cands = [m] if m is not None and hasattr(m, "node") else None
        if cands is None and isinstance(fn, ast.Name):
            c = None
            try:
                c = self.p.resolve_name(f.module, fn.id)
            except Exception:
                c = None
            if c is not None and hasattr(c, "find_method"):
                m = c.find_method("__init__")
                cands = [m] if m is not None and hasattr(m, "node") else None
            elif c is not None and hasattr(c, "node") and isinstance(c.node, ast.FunctionDef):
                cands = [c]
        if cands is None:
            name = fn.attr if isinstance(fn, ast.Attribute) else (fn.id if isinstance(fn, ast.Name) else None)
            cands = [d for d in self._defs.get(name, []) if d.kind in ("method", "function", "static", "class")] or None
            if cands is None and name is not None:
                try:
                    cl = self.p.find_class(name) if name[:1].isupper() else None
                except Exception:  # noqa: BLE001  (not a class of the program)
                    cl = None
                if cl is not None and cl.find_method("__init__") is not None:
                    cands = [cl.find_method("__init__")]
        if not cands:
            return None
        sigs = set()
        for d in cands:
            a = d.node.args
            ps = [x.arg for x in a.posonlyargs + a.args]
            if d.kind in ("method", "class") or (d.cls is not None and d.kind != "static"):
                ps = ps[1:]
            sigs.add((tuple(ps), tuple(x.arg for x in a.kwonlyargs), a.vararg is not None))
        if len(sigs) != 1:
            return None
        (ps, kwo, var), = sigs
        return None if var else (list(ps), list(kwo))

    # -------------------------------------------------------------------------------------------------------- literal tables
    def _with_tables(self, f, node):
        """`for row in TABLE:` with TABLE a module-level name bound once to a literal tuple / list of at most 8 rows: the literal
        is written in place of the name (the loop then is a loop over a literal table like any other)"""
        key = id(f.module)
        tabs = self._tables.get(key) if hasattr(self, "_tables") else None
        if tabs is None:
            if not hasattr(self, "_tables"):
                self._tables = {}
            tabs = {}
            tree = getattr(f.module, "tree", None)
            if tree is not None:
                stores = {}
                for x in ast.walk(tree):
                    if isinstance(x, ast.Name) and isinstance(x.ctx, (ast.Store, ast.Del)):
                        stores[x.id] = stores.get(x.id, 0) + 1
                    elif isinstance(x, ast.Attribute) and isinstance(x.ctx, (ast.Store, ast.Del)):
                        stores[x.attr] = stores.get(x.attr, 0) + 1
                scopes = [("", tree.body)] + [(c.name, c.body) for c in tree.body if isinstance(c, ast.ClassDef)]
                for owner, body in scopes:
                    for st in body:
                        if isinstance(st, ast.Assign) and len(st.targets) == 1 and isinstance(st.targets[0], ast.Name) and isinstance(st.value, (ast.Tuple, ast.List)) \
                                and 1 <= len(st.value.elts) <= 8 and stores.get(st.targets[0].id, 0) == 1 and _is_pure(st.value) \
                                and not any(isinstance(y, (ast.Call, ast.Lambda, ast.Starred)) for y in ast.walk(st.value)):
                            tabs[(owner, st.targets[0].id)] = st.value
            self._tables[key] = tabs
        if f.cls is not None:
            node = self._with_class_tables(f, node)
        dtabs = self._dict_tables.get(key) if hasattr(self, "_dict_tables") else None
        if dtabs is None:
            if not hasattr(self, "_dict_tables"):
                self._dict_tables = {}
            dtabs = {}
            tree = getattr(f.module, "tree", None)
            if tree is not None:
                stores, mut = {}, set()
                for x in ast.walk(tree):
                    if isinstance(x, ast.Name) and isinstance(x.ctx, (ast.Store, ast.Del)):
                        stores[x.id] = stores.get(x.id, 0) + 1
                    elif isinstance(x, ast.Subscript) and isinstance(x.ctx, (ast.Store, ast.Del)) and isinstance(x.value, ast.Name):
                        mut.add(x.value.id)
                    elif isinstance(x, ast.Call) and isinstance(x.func, ast.Attribute) and x.func.attr in MUTATORS and isinstance(x.func.value, ast.Name):
                        mut.add(x.func.value.id)
                for st in tree.body:
                    # NAME = slice(a, b) with literal bounds: a named index range
                    if isinstance(st, ast.Assign) and len(st.targets) == 1 and isinstance(st.targets[0], ast.Name) and isinstance(st.value, ast.Call) and isinstance(st.value.func, ast.Name) \
                            and st.value.func.id == "slice" and not st.value.keywords and stores.get(st.targets[0].id, 0) == 1 \
                            and all(isinstance(a_, ast.Constant) or (isinstance(a_, ast.UnaryOp) and isinstance(a_.operand, ast.Constant)) for a_ in st.value.args):
                        dtabs[("slice", st.targets[0].id)] = st.value
                    if isinstance(st, ast.Assign) and len(st.targets) == 1 and isinstance(st.targets[0], ast.Name) and isinstance(st.value, ast.Dict) and 1 <= len(st.value.keys) <= 12 \
                            and stores.get(st.targets[0].id, 0) == 1 and st.targets[0].id not in mut \
                            and all(isinstance(k, ast.Constant) for k in st.value.keys) \
                            and all(isinstance(v, ast.Constant) or (isinstance(v, ast.UnaryOp) and isinstance(v.operand, ast.Constant)) for v in st.value.values):
                        dtabs[st.targets[0].id] = {k.value: v for k, v in zip(st.value.keys, st.value.values)}
            self._dict_tables[key] = dtabs
        if dtabs:
            # TABLE['key'] with a literal key of a module-level literal dict of constants (never stored to) is the constant
            bound = {x.id for x in ast.walk(node) if isinstance(x, ast.Name) and isinstance(x.ctx, (ast.Store, ast.Del))} | {a.arg for a in ast.walk(node) if isinstance(a, ast.arg)}

            class D(ast.NodeTransformer):
                def visit_Subscript(self, n):
                    self.generic_visit(n)
                    if isinstance(n.ctx, ast.Load) and isinstance(n.value, ast.Name) and n.value.id in dtabs and n.value.id not in bound and isinstance(n.slice, ast.Constant) \
                            and n.slice.value in dtabs[n.value.id]:
                        return ast.copy_location(copy.deepcopy(dtabs[n.value.id][n.slice.value]), n)
                    # x[NAMED_RANGE] with NAMED_RANGE = slice(..) at module level
                    def rng(e):
                        if isinstance(e, ast.Name) and ("slice", e.id) in dtabs and e.id not in bound:
                            return copy.deepcopy(dtabs[("slice", e.id)])
                        return e
                    if isinstance(n.slice, ast.Tuple):
                        n.slice = ast.Tuple(elts=[rng(e) for e in n.slice.elts], ctx=ast.Load())
                    else:
                        n.slice = rng(n.slice)
                    return n

            node = D().visit(node)
        if not tabs:
            return node
        local = {x.id for x in ast.walk(node) if isinstance(x, ast.Name) and isinstance(x.ctx, (ast.Store, ast.Del))} | {a.arg for a in ast.walk(node) if isinstance(a, ast.arg)}
        cname = f.cls.name if f.cls is not None else None
        for lp in ast.walk(node):
            if isinstance(lp, (ast.For, ast.comprehension)):
                it = lp.iter
                lit = None
                if isinstance(it, ast.Name) and it.id not in local:
                    lit = tabs.get(("", it.id))
                # (a class-level table read through self / cls may be overridden in a subclass: it stays a name)
                if lit is not None:
                    lp.iter = copy.deepcopy(lit)
        return node

    def _with_class_tables(self, f, node):
        """`self.NAME[<literal key>]` / `for row in self.NAME` with NAME a class-level literal (dict of constants or tuples of constants, tuple of rows) that is defined
        in exactly one class of the whole program and never stored to through an attribute: no subclass can have overridden it (unlike `_AXES`), so the literal is
        written in place"""
        if not hasattr(self, "_class_tables"):
            defs, attr_stores = {}, set()
            for m in self.p.modules.values():
                tree = getattr(m, "tree", None)
                if tree is None:
                    continue
                for c in ast.walk(tree):
                    if isinstance(c, ast.ClassDef):
                        for st in c.body:
                            if isinstance(st, ast.Assign) and len(st.targets) == 1 and isinstance(st.targets[0], ast.Name):
                                defs.setdefault(st.targets[0].id, []).append(st.value)
                    elif isinstance(c, ast.Attribute) and isinstance(c.ctx, (ast.Store, ast.Del)):
                        attr_stores.add(c.attr)

            def const(v):
                return isinstance(v, ast.Constant) or (isinstance(v, ast.UnaryOp) and isinstance(v.operand, ast.Constant)) or (isinstance(v, ast.Tuple) and all(const(e) for e in v.elts))

            self._class_tables = {}
            for name, vals in defs.items():
                if len(vals) != 1 or name in attr_stores:
                    continue
                v = vals[0]
                if isinstance(v, ast.Dict) and 1 <= len(v.keys) <= 12 and all(isinstance(k, ast.Constant) for k in v.keys) and all(const(x) for x in v.values):
                    self._class_tables[name] = ("dict", {k.value: x for k, x in zip(v.keys, v.values)})
                elif isinstance(v, (ast.Tuple, ast.List)) and 1 <= len(v.elts) <= 8 and all(const(x) for x in v.elts):
                    self._class_tables[name] = ("rows", v)
        tabs = self._class_tables
        if not tabs:
            return node

        def table_of(e):
            if isinstance(e, ast.Attribute) and isinstance(e.value, ast.Name) and e.value.id in ("self", "cls") and e.attr in tabs:
                return tabs[e.attr]
            return None

        class D(ast.NodeTransformer):
            def visit_Subscript(self, n):
                self.generic_visit(n)
                t = table_of(n.value)
                if isinstance(n.ctx, ast.Load) and t is not None and t[0] == "dict" and isinstance(n.slice, ast.Constant) and n.slice.value in t[1]:
                    return ast.copy_location(copy.deepcopy(t[1][n.slice.value]), n)
                return n

            def visit_For(self, n):
                self.generic_visit(n)
                t = table_of(n.iter)
                if t is not None and t[0] == "rows":
                    n.iter = copy.deepcopy(t[1])
                return n

        return D().visit(node)

    # -------------------------------------------------------------------------------------------------------- inlining
    def _prepared(self, h, depth):
        """helper body with nested helpers written out and early exits turned into if/else; locals made unique"""
        node = copy.deepcopy(h.node)
        node.body = _strip_doc(node.body)
        node = _Small().visit(self._with_tables(h, node))   # (a loop over a literal table is the body once per row: its returns then are in tail position)
        body = self._inline_block(h, node.body, depth + 1)
        bl = _Blocks()
        bl.try_else = True
        body = bl.block(body, "func")
        holder = ast.Module(body=body, type_ignores=[])
        body = _AppendLoops().visit(holder).body   # (`x = []; for ..: x.append(E); return x` is the single expression `[E for ..]`)
        self._k[h.name] = self._k.get(h.name, 0) + 1
        sfx = h.name.lstrip("_") + ("" if self._k[h.name] == 1 else "_%d" % self._k[h.name])
        ren = {n: "_%s__%s" % (n.lstrip("_"), sfx) for n in _bound_names(node) if n not in ("self", "cls")}
        node.body = body
        node = _Rename(ren).visit(node)
        return node, ren

    def _bind(self, h, hnode, ren, call):
        """[param = arg] assignments for a call of the helper, or None if the call cannot be bound"""
        a = hnode.args
        params = [x.arg for x in a.posonlyargs + a.args]
        if h.cls is not None and h.kind != "static":
            params = params[1:]
        orig = [x.arg for x in h.node.args.posonlyargs + h.node.args.args]
        if h.cls is not None and h.kind != "static":
            orig = orig[1:]
        kwonly = [x.arg for x in a.kwonlyargs]
        korig = [x.arg for x in h.node.args.kwonlyargs]
        var = a.vararg.arg if a.vararg else None
        if any(isinstance(x, ast.Starred) for x in call.args) or (len(call.args) > len(params) and var is None):
            return None
        val = {}
        for p_, v in zip(params, call.args):
            val[p_] = v
        if var is not None:
            # `*rest` receives the remaining positional arguments as a tuple
            val[var] = ast.Tuple(elts=list(call.args[len(params):]), ctx=ast.Load())
        kws = _expand_kwargs(call.keywords)
        if kws is None:
            return None
        by_orig = dict(zip(orig + korig, params + kwonly))
        for k in kws:
            if k.arg not in by_orig or by_orig[k.arg] in val:
                return None
            val[by_orig[k.arg]] = k.value
        dm = h.defaults_map()
        for o, p_ in by_orig.items():
            if p_ not in val:
                if o not in dm:
                    return None
                val[p_] = copy.deepcopy(dm[o])
        return [ast.copy_location(ast.Assign(targets=[ast.Name(id=p_, ctx=ast.Store())], value=val[p_], lineno=call.lineno), call) for p_ in params + ([var] if var else []) + kwonly]

    def _inline_block(self, f, body, depth=0):
        if depth > 3:
            return body
        out = []
        for st in body:
            st = self._inline_nested(f, st, depth)
            if isinstance(st, ast.For) and isinstance(st.iter, ast.Call) and not st.orelse and (isinstance(st.target, ast.Name) or (
                    isinstance(st.target, ast.Tuple) and all(isinstance(e, ast.Name) for e in st.target.elts))) and self.helper(f, st.iter, generator=True) is not None \
                    and not any(isinstance(x, (ast.Break, ast.Continue, ast.Return, ast.Yield)) for b in st.body for x in ast.walk(b)):
                # `for v in self._gen(..): body` with a generator helper: the helper's body with `v = E; body` at every `yield E` (a generator is consumed lazily: the
                # same interleaving)
                h = self.helper(f, st.iter, generator=True)
                hnode, ren = self._prepared(h, depth)
                binds = self._bind(h, hnode, ren, st.iter)
                if binds is not None and not any(isinstance(x, ast.Return) for x in ast.walk(hnode)):
                    k_ = [0]

                    class Y(ast.NodeTransformer):
                        def visit_Expr(self, n):
                            if isinstance(n.value, ast.Yield):
                                k_[0] += 1
                                body_ = copy.deepcopy(st.body) if k_[0] > 1 else list(st.body)
                                return [ast.copy_location(ast.Assign(targets=[copy.deepcopy(st.target)], value=n.value.value, lineno=n.lineno), n)] + body_   # (`a, b = E1, E2` is split later)
                            return n

                    new_body = []
                    for b in hnode.body:
                        r = Y().visit(b)
                        new_body.extend(r if isinstance(r, list) else [r])
                    self._inlined[id(h)] = self._inlined.get(id(h), 0) + (1 if depth == 0 else 0)
                    out.extend(binds + new_body)
                    continue
            call, mode = None, None
            if isinstance(st, ast.Expr) and isinstance(st.value, ast.Call):
                call, mode = st.value, "expr"
            elif isinstance(st, ast.Assign) and isinstance(st.value, ast.Call):
                call, mode = st.value, "assign"
            elif isinstance(st, ast.Return) and isinstance(st.value, ast.Call):
                call, mode = st.value, "return"
            elif isinstance(st, ast.AugAssign) and isinstance(st.value, ast.Call):
                call, mode = st.value, "aug"
            h = self.helper(f, call) if call is not None else None
            if h is None:
                st = self._inline_exprs(f, st, depth)
                hoisted = self._sum_over_generator(f, st) if isinstance(st, (ast.Expr, ast.Assign, ast.Return, ast.AugAssign)) else None
                if hoisted is None:
                    hoisted = self._hoist_arg(f, st) if isinstance(st, (ast.Expr, ast.Assign, ast.Return, ast.AugAssign)) and not isinstance(getattr(st, "value", None), ast.ListComp) else None
                if hoisted is None:
                    hoisted = self._comp_to_loop(f, st)
                if hoisted is not None:
                    out.extend(self._inline_block(f, hoisted, depth))
                else:
                    out.append(st)
                continue
            hnode, ren = self._prepared(h, depth)
            binds = self._bind(h, hnode, ren, call)
            if binds is None or not _returns_in_tail(hnode.body):
                out.append(st)
                continue
            new = _replace_returns(hnode.body, mode, st)
            self._inlined[id(h)] = self._inlined.get(id(h), 0) + (1 if depth == 0 else 0)
            out.extend(binds + new)
        return out

    def _hoist_arg(self, f, st):
        """`g(self._helper(..), b)` / `self._helper(..) - t` / `self._helper(..).x`  ->  `_arg__helper = self._helper(..)` followed by the statement with the local in its place,
        when the helper is one that is written out and nothing with an effect is evaluated before it (the helper call then is a statement of its own and the ordinary rule
        applies)"""
        canon = self

        def first(e):
            """the first helper call in evaluation order, or None if something impure / lazily evaluated comes first"""
            if isinstance(e, ast.Call):
                if canon.helper(f, e) is not None:
                    return e
                if isinstance(e.func, ast.Attribute):
                    r = first(e.func.value)
                    if r is not None or not _is_pure(e.func.value):
                        return r
                elif not _is_pure(e.func):
                    return None
                for a in list(e.args) + [k.value for k in e.keywords]:
                    if isinstance(a, ast.Starred):
                        return None
                    r = first(a)
                    if r is not None or not _is_pure(a):
                        return r
                return None
            if isinstance(e, ast.BinOp):
                r = first(e.left)
                if r is not None or not _is_pure(e.left):
                    return r
                return first(e.right)
            if isinstance(e, ast.UnaryOp):
                return first(e.operand)
            if isinstance(e, ast.Attribute):
                return first(e.value)
            if isinstance(e, ast.Subscript):
                r = first(e.value)
                if r is not None or not _is_pure(e.value):
                    return r
                return first(e.slice)
            if isinstance(e, (ast.Tuple, ast.List)):
                for x in e.elts:
                    if isinstance(x, ast.Starred):
                        return None
                    r = first(x)
                    if r is not None or not _is_pure(x):
                        return r
                return None
            if isinstance(e, ast.Compare):
                r = first(e.left)
                if r is not None or not _is_pure(e.left) or len(e.comparators) != 1:
                    return r
                return first(e.comparators[0])
            return None

        outer = st.value
        if outer is None or (isinstance(outer, ast.Call) and self.helper(f, outer) is not None):
            return None
        a = first(outer)
        if a is None:
            return None
        h = self.helper(f, a)
        bl = _Blocks()
        bl.try_else = True
        probe = copy.deepcopy(h.node)
        probe.body = _strip_doc(probe.body)
        probe = _Small().visit(self._with_tables(h, probe))   # (as the helper will be prepared: a loop over a literal table is written once per row)
        if not _returns_in_tail(bl.block(probe.body, "func")):
            return None
        self._k["arg " + h.name] = self._k.get("arg " + h.name, 0) + 1
        k = self._k["arg " + h.name]
        name = "_arg__%s%s" % (h.name.lstrip("_"), "" if k == 1 else "_%d" % k)
        tmp = ast.copy_location(ast.Assign(targets=[ast.Name(id=name, ctx=ast.Store())], value=a, lineno=st.lineno), st)

        class Rep(ast.NodeTransformer):
            def visit_Call(self, n):
                if n is a:
                    return ast.copy_location(ast.Name(id=name, ctx=ast.Load()), n)
                return self.generic_visit(n)

        st.value = Rep().visit(st.value)
        return [tmp, st]

    def _sum_over_generator(self, f, st):
        """`... sum(E(v) for v in self._gen(..)) ...` with a private generator helper  ->  `_sum__gen = 0; for v in self._gen(..): _sum__gen += E(v)` followed by the statement
        with the local in place of the sum (the loop is what `sum` does; the generator helper is then written out at the loop). Only when nothing with an effect is
        evaluated before the sum in the statement."""
        if st.value is None:
            return None
        cands = [c for c in _walk_no_defs(st.value) if isinstance(c, ast.Call) and isinstance(c.func, ast.Name) and c.func.id == "sum" and len(c.args) == 1 and not c.keywords
                 and isinstance(c.args[0], ast.GeneratorExp) and len(c.args[0].generators) == 1 and not c.args[0].generators[0].is_async
                 and isinstance(c.args[0].generators[0].iter, ast.Call) and isinstance(c.args[0].generators[0].target, ast.Name)
                 and self.helper(f, c.args[0].generators[0].iter, generator=True) is not None]
        if len(cands) != 1:
            return None
        c = cands[0]
        # everything else in the statement must be pure (the sum moves to the front)
        rest_pure = all(_is_pure(x, reads_ok=True) for x in ast.iter_child_nodes(st.value) if x is not c) if st.value is not c else True
        if not rest_pure:
            return None
        g = c.args[0].generators[0]
        h = self.helper(f, g.iter, generator=True)
        self._k["sum " + h.name] = self._k.get("sum " + h.name, 0) + 1
        k = self._k["sum " + h.name]
        name = "_sum__%s%s" % (h.name.lstrip("_"), "" if k == 1 else "_%d" % k)
        init = ast.Assign(targets=[ast.Name(id=name, ctx=ast.Store())], value=ast.Constant(value=0), lineno=st.lineno)
        body = [ast.AugAssign(target=ast.Name(id=name, ctx=ast.Store()), op=ast.Add(), value=c.args[0].elt)]
        for t in reversed(g.ifs):
            body = [ast.If(test=t, body=body, orelse=[])]
        loop = ast.For(target=ast.Name(id=g.target.id, ctx=ast.Store()), iter=g.iter, body=body, orelse=[], lineno=st.lineno)

        class Rep(ast.NodeTransformer):
            def visit_Call(self, n):
                if n is c:
                    return ast.copy_location(ast.Name(id=name, ctx=ast.Load()), n)
                return self.generic_visit(n)

        st.value = Rep().visit(st.value)
        for o in (init, loop):
            ast.copy_location(o, st)
            ast.fix_missing_locations(o)
        return [init, loop, st]

    def _comp_to_loop(self, f, st):
        """`x = [self._helper(v) for v in it]` / `x += [...]`  ->  `x = []` / nothing, then `for v in it: x.append(self._helper(v))` when the helper is one that is written
        out as statements (the loop body then is the helper's body, as if it had never been extracted)"""
        if isinstance(st, ast.Assign) and len(st.targets) == 1 and isinstance(st.targets[0], ast.Name):
            name, fresh = st.targets[0].id, True
        elif isinstance(st, ast.AugAssign) and isinstance(st.op, ast.Add) and isinstance(st.target, ast.Name):
            name, fresh = st.target.id, False
        else:
            return None
        comp = st.value
        if not (isinstance(comp, ast.ListComp) and len(comp.generators) == 1 and not comp.generators[0].is_async and isinstance(comp.elt, ast.Call) and self.helper(f, comp.elt) is not None):
            return None
        g = comp.generators[0]
        bound = {x.id for x in ast.walk(g.target) if isinstance(x, ast.Name)}
        n_fn = sum(1 for x in ast.walk(f.node) if isinstance(x, ast.Name) and x.id in bound)
        n_comp = sum(1 for x in ast.walk(comp) if isinstance(x, ast.Name) and x.id in bound)
        if n_fn > n_comp or any(isinstance(x, ast.Name) and x.id == name for x in ast.walk(comp)):
            return None
        app = ast.Expr(value=ast.Call(func=ast.Attribute(value=ast.Name(id=name, ctx=ast.Load()), attr="append", ctx=ast.Load()), args=[comp.elt], keywords=[]))
        body = app
        for c in reversed(g.ifs):
            body = ast.If(test=c, body=[body], orelse=[])
        loop = ast.For(target=g.target, iter=g.iter, body=[body], orelse=[], lineno=st.lineno)
        for t in ast.walk(loop.target):
            if isinstance(t, ast.Name):
                t.ctx = ast.Store()
        out = [ast.Assign(targets=[ast.Name(id=name, ctx=ast.Store())], value=ast.List(elts=[], ctx=ast.Load()), lineno=st.lineno)] if fresh else []
        out.append(loop)
        for o in out:
            ast.copy_location(o, st)
            ast.fix_missing_locations(o)
        return out

    def _inline_nested(self, f, st, depth):
        """recurse into compound statements"""
        for fld in ("body", "orelse", "finalbody"):
            b = getattr(st, fld, None)
            if isinstance(b, list) and b and isinstance(b[0], ast.stmt) and not isinstance(st, ast.ClassDef):
                # (a nested function calls helpers of the same object: its body is read the same way)
                setattr(st, fld, self._inline_block(f, b, depth))
        if isinstance(st, ast.Try):
            for h in st.handlers:
                h.body = self._inline_block(f, h.body, depth)
        return st

    def _inline_exprs(self, f, st, depth):
        """calls of single-expression helpers inside larger expressions"""
        canon = self

        class T(ast.NodeTransformer):
            def visit_Call(self, n):
                self.generic_visit(n)
                h = canon.helper(f, n)
                if h is None:
                    return n
                hnode, ren = canon._prepared(h, depth)
                binds = canon._bind(h, hnode, ren, n)
                if binds is None:
                    return n
                env = {b.targets[0].id: b.value for b in binds}
                body = list(hnode.body)
                def sub(e_):
                    t_ = _SubstAll(env)
                    t_._top = hnode   # (scope-aware: also inside comprehensions / lambdas that do not rebind the name)
                    return t_.visit(copy.deepcopy(e_))

                while body and isinstance(body[0], ast.Assign) and len(body[0].targets) == 1 and isinstance(body[0].targets[0], ast.Name) and len(body) > 1:
                    env[body[0].targets[0].id] = sub(body[0].value)
                    body = body[1:]
                value = _return_expr(body)
                if value is not None:
                    canon._inlined[id(h)] = canon._inlined.get(id(h), 0) + (1 if depth == 0 else 0)
                    return sub(value)
                return n

            def visit_FunctionDef(self, n):
                return n

            def visit_Lambda(self, n):
                return n

        if isinstance(st, (ast.If, ast.While)):
            st.test = T().visit(st.test)
            return st
        if isinstance(st, (ast.For, ast.AsyncFor)):
            st.iter = T().visit(st.iter)
            return st
        if isinstance(st, (ast.With, ast.Try, ast.FunctionDef, ast.ClassDef)):
            return st
        return T().visit(st)

    # -------------------------------------------------------------------------------------------------------- aliases
    def _close(self, node):
        """single-assignment locals written out at their uses (see `_aliases` for when that is allowed)"""
        for _ in range(10):
            sel = _aliases(node)
            if not sel:
                break
            # a name whose value is pure only because it mentions another selected name that stands for something with an effect: writing both out would write the effect
            # once per use of the outer name - the inner one goes first, the outer one is looked at again in the next round
            uses = {}
            for x in ast.walk(node):
                if isinstance(x, ast.Name) and isinstance(x.ctx, ast.Load):
                    uses[x.id] = uses.get(x.id, 0) + 1
            for k in list(sel):
                if uses.get(k, 0) > 1 and any(isinstance(x, ast.Name) and x.id in sel and x.id != k and (not _is_pure(sel[x.id]) or _is_fresh(sel[x.id])) for x in ast.walk(sel[k])):
                    del sel[k]
            if not sel:
                break
            # values may mention other selected names: resolve them first
            for _i in range(len(sel) + 1):
                changed = False
                for k in list(sel):
                    if any(isinstance(x, ast.Name) and isinstance(x.ctx, ast.Load) and x.id in sel and x.id != k for x in ast.walk(sel[k])):
                        t = _SubstAll({a: b for a, b in sel.items() if a != k})
                        t._top = node
                        sel[k] = t.visit(copy.deepcopy(sel[k]))
                        changed = True
                if not changed:
                    break
            node = _Drop(sel).visit(node)
            node = _SubstAll(sel).visit(node)
            ast.fix_missing_locations(node)
        return node

    # -------------------------------------------------------------------------------------------------------- calls
    def _calls(self, f, node):
        canon = self

        class T(ast.NodeTransformer):
            def visit_Call(self, n):
                self.generic_visit(n)
                kws = _expand_kwargs(n.keywords)
                if kws is None:
                    return n
                n.keywords = kws
                if not n.keywords or any(isinstance(a, ast.Starred) for a in n.args):
                    return n
                sig = canon.signature(f, n)
                if sig is None:
                    n.keywords = sorted(n.keywords, key=lambda k: k.arg)
                    return n
                ps, kwo = sig
                given = {k.arg: k.value for k in n.keywords}
                if not set(given) <= set(ps) | set(kwo) and txt(n.func) not in EXTERNAL_SIGS:
                    n.keywords = sorted(n.keywords, key=lambda k: k.arg)
                    return n
                args = list(n.args)
                i = len(args)
                while i < len(ps) and ps[i] in given:
                    args.append(given.pop(ps[i]))
                    i += 1
                order = {name: j for j, name in enumerate(ps + kwo)}
                n.args = args
                n.keywords = [ast.keyword(arg=k, value=v) for k, v in sorted(given.items(), key=lambda kv: (order.get(kv[0], 999), kv[0]))]
                return n

        return T().visit(node)

    # -------------------------------------------------------------------------------------------------------- entry points
    def fn(self, f, inline=True):
        """inline=False: private helpers stay calls (everything else is normalised the same way)"""
        k = id(f) if inline else ("noinline", id(f))
        if k in self._cache:
            return self._cache[k]
        node = copy.deepcopy(f.node)
        node.decorator_list = []
        self._k = {}
        node.body = _strip_doc(node.body)
        node = self._with_tables(f, node)
        node = _Small().visit(node)   # (tuple assignments from a literal table, f(*(a, b)), ... are plain statements before helpers are looked at)
        body = node.body
        if inline:
            body = self._inline_block(f, body)
        body = _Blocks().block(body, "func")
        node.body = body
        node = _merge_copy_chains(node)
        node = _DefToLambda().visit(node)
        node = _AppendLoops().visit(node)
        node = _Small().visit(node)
        node = self._close(node)
        if inline:
            # helper calls that could not be bound before (arguments passed through a local dict: `self._h(a, **_shared)`) are plain calls now
            before = sum(self._inlined.values())
            body2 = self._inline_block(f, copy.deepcopy(node.body))
            if sum(self._inlined.values()) != before:
                node.body = _Blocks().block(body2, "func")
                node = _Small().visit(_AppendLoops().visit(node))
                node = self._close(node)
        for _round in range(3):   # (`a, b = E1, E2; use(a, b)`: writing `b` out makes the definition of `a` adjacent to its use)
            before_ = ast.dump(node)
            node = _adjacent_def_use(node)
            if ast.dump(node) == before_:
                break
        node = self._close(node)
        node = self._with_tables(f, node)   # (a table key that was a parameter of a written-out helper is a literal now)
        node = _Small().visit(node)
        # nested multi-statement defs: their own single-assignment locals
        for sub in [x for x in ast.walk(node) if isinstance(x, ast.FunctionDef) and x is not node]:
            new = copy.deepcopy(sub)
            new.body = _Blocks().block(_strip_doc(new.body), "func")
            new = _AppendLoops().visit(_Small().visit(new))
            new = _Small().visit(self._close(new))
            new.body = _hoist(_Blocks().block(new.body, "func"))
            sub.body = new.body
        node = _FoldConst().visit(node)
        node = _IfExp().visit(node)
        node.body = _hoist(_Blocks().block(node.body, "func"))
        node = self._calls(f, node)
        ast.fix_missing_locations(node)
        node._canonical = True
        self._cache[k] = node
        return node

    def absorbed(self, f):
        self._index()
        name = f.name
        if not name.startswith("_") or name.startswith("__") or len(self._defs.get(name, [])) != 1 or not (1 <= self._refs.get(name, 0) <= 6):
            return False
        # the call sites are counted while the functions that mention the name are canonicalised
        if self._mentions is None:
            self._mentions = {}
            for g in self.p.all_functions():
                for x in ast.walk(g.node):
                    nm = x.attr if isinstance(x, ast.Attribute) else (x.id if isinstance(x, ast.Name) else None)
                    if nm is not None and nm.startswith("_"):
                        self._mentions.setdefault(nm, set()).add(id(g))
            self._by_id = {id(g): g for g in self.p.all_functions()}
        for gid in self._mentions.get(name, ()):
            if gid != id(f) and gid not in self._cache:
                self.fn(self._by_id[gid])
        return self._inlined.get(id(f), 0) == self._refs.get(name, 0)

    def src(self, f):
        from .rules.common import Src

        return Src(txt(self.fn(f)))


def _return_expr(body, _depth=0):
    """the value a block returns, as one expression: `return E`, or `if c: return A` followed by / `else:` a block of the same kind (-> `A if c else B`)"""
    if len(body) == 1 and isinstance(body[0], ast.Return) and body[0].value is not None:
        return body[0].value
    if body and isinstance(body[0], ast.If) and _depth < 3:
        st = body[0]
        rest = st.orelse if len(body) == 1 else (body[1:] if not st.orelse else None)
        if rest:
            a, b = _return_expr(st.body, _depth + 1), _return_expr(rest, _depth + 1)
            if a is not None and b is not None:
                return ast.IfExp(test=st.test, body=a, orelse=b)
    return None


def _strip_doc(body):
    if body and isinstance(body[0], ast.Expr) and isinstance(body[0].value, ast.Constant) and isinstance(body[0].value.value, str):
        return list(body[1:]) or [ast.Pass()]
    return list(body)


def _expand_kwargs(keywords):
    """`**{'a': x}` / `**dict(a=x)` written as keywords; None if a `**` argument is not a literal"""
    out = []
    for k in keywords:
        if k.arg is not None:
            out.append(k)
            continue
        v = k.value
        if isinstance(v, ast.Dict) and all(isinstance(kk, ast.Constant) and isinstance(kk.value, str) for kk in v.keys):
            out.extend(ast.keyword(arg=kk.value, value=vv) for kk, vv in zip(v.keys, v.values))
        elif isinstance(v, ast.Call) and isinstance(v.func, ast.Name) and v.func.id == "dict" and not v.args and all(x.arg is not None for x in v.keywords):
            out.extend(v.keywords)
        else:
            return None
    return out


def _replace_returns(body, mode, site):
    def rep(b):
        out = []
        for i, st in enumerate(b):
            if isinstance(st, ast.Return):
                v = st.value if st.value is not None else ast.Constant(value=None)
                if mode == "return":
                    out.append(st)
                elif mode == "assign":
                    out.append(ast.copy_location(ast.Assign(targets=copy.deepcopy(site.targets), value=v, lineno=st.lineno), st))
                elif mode == "aug":
                    out.append(ast.copy_location(ast.AugAssign(target=copy.deepcopy(site.target), op=site.op, value=v), st))
                elif not _is_pure(v):
                    out.append(ast.copy_location(ast.Expr(value=v), st))
                continue
            if isinstance(st, ast.If) and i == len(b) - 1:
                st = ast.copy_location(ast.If(test=st.test, body=rep(st.body) or [ast.Pass()], orelse=rep(st.orelse)), st)
            elif isinstance(st, ast.Try) and i == len(b) - 1 and not st.finalbody:
                st = ast.copy_location(ast.Try(body=rep(st.body) or [ast.Pass()], orelse=rep(st.orelse), finalbody=[],
                                               handlers=[ast.copy_location(ast.ExceptHandler(type=h.type, name=h.name, body=rep(h.body) or [ast.Pass()]), h) for h in st.handlers]), st)
            out.append(st)
        return out

    new = rep(body)
    if mode == "assign":
        new = _assign_none_on_fallthrough(new, site)
    return new


def _assign_none_on_fallthrough(body, site):
    """a path of the helper that ends without `return` yields None: make that explicit for `target = helper(...)`"""
    def none_assign(at):
        return ast.copy_location(ast.Assign(targets=copy.deepcopy(site.targets), value=ast.Constant(value=None), lineno=getattr(at, "lineno", site.lineno)), at)

    def is_target_assign(st):
        return isinstance(st, ast.Assign) and len(st.targets) == len(site.targets) and all(txt(a) == txt(b) for a, b in zip(st.targets, site.targets))

    def fix(b):
        if not b:
            return [none_assign(site)]
        st = b[-1]
        if is_target_assign(st) or isinstance(st, ast.Raise):
            return b
        if isinstance(st, ast.If):
            st.body = fix(list(st.body))
            st.orelse = fix(list(st.orelse))
            return b
        if isinstance(st, ast.Try) and not st.finalbody:
            st.body = fix(list(st.body)) if not st.orelse else st.body
            if st.orelse:
                st.orelse = fix(list(st.orelse))
            for h in st.handlers:
                h.body = fix(list(h.body))
            return b
        return b + [none_assign(st)]

    return fix(list(body))


class _Drop(ast.NodeTransformer):
    def __init__(self, env):
        self.env = env

    def visit_Assign(self, n):
        if len(n.targets) == 1 and isinstance(n.targets[0], ast.Name) and n.targets[0].id in self.env:
            return None
        return n

    def generic_visit(self, node):
        node = super().generic_visit(node)
        for fld in ("body", "orelse", "finalbody"):
            b = getattr(node, fld, None)
            if isinstance(b, list) and not b and fld == "body" and isinstance(node, (ast.If, ast.For, ast.While, ast.With, ast.Try, ast.FunctionDef, ast.ExceptHandler)):
                setattr(node, fld, [ast.Pass()])
        return node


class _SubstAll(ast.NodeTransformer):
    """substitution that also enters lambdas / nested defs / comprehensions unless they rebind the name"""

    def __init__(self, env):
        self.env = env

    def visit_Name(self, n):
        if isinstance(n.ctx, ast.Load) and n.id in self.env:
            return copy.deepcopy(self.env[n.id])
        return n

    def _scoped(self, n, bound):
        saved = self.env
        self.env = {k: v for k, v in saved.items() if k not in bound}
        try:
            self.generic_visit(n)
        finally:
            self.env = saved
        return n

    def visit_Lambda(self, n):
        a = n.args
        return self._scoped(n, {x.arg for x in a.args + a.kwonlyargs + a.posonlyargs} | ({a.vararg.arg} if a.vararg else set()) | ({a.kwarg.arg} if a.kwarg else set()))

    def visit_FunctionDef(self, n):
        if getattr(self, "_top", None) is None:
            self._top = n
            self.generic_visit(n)
            return n
        return self._scoped(n, _bound_names(n))

    def _comp(self, n):
        bound = set()
        for g in n.generators:
            for x in ast.walk(g.target):
                if isinstance(x, ast.Name):
                    bound.add(x.id)
        return self._scoped(n, bound)

    visit_ListComp = visit_SetComp = visit_GeneratorExp = visit_DictComp = _comp


class _DefToLambda(ast.NodeTransformer):
    """nested `def g(x): return E`  ->  `g = lambda x: E`"""

    def visit_FunctionDef(self, n):
        if getattr(self, "_top", None) is None:
            self._top = n
            self.generic_visit(n)
            return n
        body = _strip_doc(n.body)
        # `if c: return A` + `return B`  /  `if c: return A else: return B`   ->   `return A if c else B`   (c pure; for a local function that is only called)
        if len(body) == 2 and isinstance(body[0], ast.If) and not body[0].orelse and len(body[0].body) == 1 and isinstance(body[0].body[0], ast.Return) and isinstance(body[1], ast.Return) \
                and body[0].body[0].value is not None and body[1].value is not None and _is_pure(body[0].test, reads_ok=True):
            body = [ast.copy_location(ast.Return(value=ast.IfExp(test=body[0].test, body=body[0].body[0].value, orelse=body[1].value)), body[1])]
        elif len(body) == 1 and isinstance(body[0], ast.If) and len(body[0].body) == 1 and len(body[0].orelse) == 1 and isinstance(body[0].body[0], ast.Return) \
                and isinstance(body[0].orelse[0], ast.Return) and body[0].body[0].value is not None and body[0].orelse[0].value is not None and _is_pure(body[0].test, reads_ok=True):
            body = [ast.copy_location(ast.Return(value=ast.IfExp(test=body[0].test, body=body[0].body[0].value, orelse=body[0].orelse[0].value)), body[0])]
        # leading pure single assignments are part of the returned expression: `a = E1; return f(a)` is `return f(E1)`
        env, params = {}, {x.arg for x in n.args.args + n.args.kwonlyargs + n.args.posonlyargs}
        while len(body) > 1 and isinstance(body[0], ast.Assign) and len(body[0].targets) == 1 and isinstance(body[0].targets[0], ast.Name) and body[0].targets[0].id not in params \
                and body[0].targets[0].id not in env and _is_pure(body[0].value):
            t_ = _SubstAll(env)
            t_._top = n
            env[body[0].targets[0].id] = t_.visit(copy.deepcopy(body[0].value))
            body = body[1:]
        if env and len(body) == 1 and isinstance(body[0], ast.Return) and body[0].value is not None:
            t_ = _SubstAll(env)
            t_._top = n
            body = [ast.copy_location(ast.Return(value=t_.visit(copy.deepcopy(body[0].value))), body[0])]
        # (only a function that is just called: one that is handed to somebody else keeps its name - a graph node may be named after it)
        top = getattr(self, "_top", None)
        called = {id(c.func) for c in ast.walk(top) if isinstance(c, ast.Call)} if top is not None else set()
        only_called = top is not None and all(id(x) in called for x in ast.walk(top) if isinstance(x, ast.Name) and x.id == n.name and isinstance(x.ctx, ast.Load))
        if len(body) == 1 and isinstance(body[0], ast.Return) and body[0].value is not None and not n.decorator_list and only_called:
            return ast.copy_location(ast.Assign(targets=[ast.Name(id=n.name, ctx=ast.Store())], value=ast.Lambda(args=n.args, body=body[0].value), lineno=n.lineno), n)
        return n


class _AppendLoops(ast.NodeTransformer):
    """`x = []` directly followed by `for T in I: [if c:] x.append(E)`  ->  `x = [E for T in I if c]`"""

    def generic_visit(self, node):
        node = super().generic_visit(node)
        for fld in ("body", "orelse", "finalbody"):
            b = getattr(node, fld, None)
            if isinstance(b, list) and len(b) >= 2:
                setattr(node, fld, self._block(b))
        return node

    @staticmethod
    def _block(b):
        out, i = [], 0
        while i < len(b):
            st = b[i]
            nxt = b[i + 1] if i + 1 < len(b) else None
            # `d = OrderedDict()` / `dict()` / `{}` directly followed by `for k, v in I: d[k] = v`  ->  `d = OrderedDict(I)` / `dict(I)`
            if isinstance(st, ast.Assign) and len(st.targets) == 1 and isinstance(st.targets[0], ast.Name) and isinstance(nxt, ast.For) and not nxt.orelse and len(nxt.body) == 1 \
                    and ((isinstance(st.value, ast.Call) and isinstance(st.value.func, ast.Name) and st.value.func.id in ("OrderedDict", "dict") and not st.value.args and not st.value.keywords)
                         or (isinstance(st.value, ast.Dict) and not st.value.keys)) \
                    and isinstance(nxt.target, ast.Tuple) and len(nxt.target.elts) == 2 and all(isinstance(e, ast.Name) for e in nxt.target.elts):
                name = st.targets[0].id
                inner = nxt.body[0]
                kv = [e.id for e in nxt.target.elts]
                if isinstance(inner, ast.Assign) and len(inner.targets) == 1 and isinstance(inner.targets[0], ast.Subscript) and txt(inner.targets[0].value) == name \
                        and isinstance(inner.targets[0].slice, ast.Name) and inner.targets[0].slice.id == kv[0] and isinstance(inner.value, ast.Name) and inner.value.id == kv[1] \
                        and not any(isinstance(x, ast.Name) and x.id == name for x in ast.walk(nxt.iter)):
                    ctor = st.value.func.id if isinstance(st.value, ast.Call) else "dict"
                    out.append(ast.copy_location(ast.Assign(targets=st.targets, value=ast.Call(func=ast.Name(id=ctor, ctx=ast.Load()), args=[nxt.iter], keywords=[]), lineno=st.lineno), st))
                    i += 2
                    continue
            if isinstance(st, ast.Assign) and len(st.targets) == 1 and isinstance(st.targets[0], ast.Name) and isinstance(st.value, ast.List) and not st.value.elts \
                    and isinstance(nxt, ast.For) and not nxt.orelse and len(nxt.body) == 1:
                name = st.targets[0].id
                inner, cond = nxt.body[0], []
                if isinstance(inner, ast.If) and not inner.orelse and len(inner.body) == 1:
                    cond, inner = [inner.test], inner.body[0]
                if isinstance(inner, ast.Expr) and isinstance(inner.value, ast.Call) and txt(inner.value.func) == name + ".append" and len(inner.value.args) == 1 \
                        and not any(isinstance(x, ast.Name) and x.id == name for x in ast.walk(inner.value.args[0])):
                    comp = ast.ListComp(elt=inner.value.args[0], generators=[ast.comprehension(target=nxt.target, iter=nxt.iter, ifs=cond, is_async=0)])
                    out.append(ast.copy_location(ast.Assign(targets=st.targets, value=comp, lineno=st.lineno), st))
                    i += 2
                    continue
            out.append(st)
            i += 1
        return out


MUTATORS = {"append", "extend", "insert", "pop", "remove", "sort", "reverse", "update", "clear", "fill", "setdefault", "add", "discard", "popitem", "put", "resize", "itemset"}
FRESH = {"zeros", "ones", "empty", "array", "asarray", "zeros_like", "ones_like", "empty_like", "full", "eye", "list", "dict", "set", "copy", "deepcopy", "OrderedDict", "defaultdict",
         "arange", "linspace", "diag", "atleast_1d", "atleast_2d"}


def _is_fresh(v):
    """the value creates a new container each time it is evaluated"""
    return (isinstance(v, (ast.List, ast.Dict, ast.Set)) and not (getattr(v, "elts", None) or getattr(v, "keys", None))) or \
        (isinstance(v, ast.Call) and (v.func.attr if isinstance(v.func, ast.Attribute) else getattr(v.func, "id", "")) in FRESH)


def _root_name(e):
    while isinstance(e, (ast.Attribute, ast.Subscript)):
        e = e.value
    return e.id if isinstance(e, ast.Name) else None


def _trivial_getter(fn):
    """`return self._field` (possibly copied / wrapped by a pure numpy call): reading it has no effect"""
    body = _strip_doc(fn.body)
    if len(body) != 1 or not isinstance(body[0], ast.Return) or body[0].value is None:
        return False
    v = body[0].value
    for x in ast.walk(v):
        if isinstance(x, ast.Attribute) and not (isinstance(x.value, ast.Name) and x.value.id in ("self", "np") and (x.attr.startswith("_") or x.value.id == "np")) \
                and not (isinstance(x.value, ast.Attribute) and x.attr in ("copy", "T", "shape", "size")):
            return False
        if isinstance(x, ast.Call):
            f_ = x.func
            ok = (isinstance(f_, ast.Attribute) and ((isinstance(f_.value, ast.Name) and f_.value.id == "np") or f_.attr == "copy")) or (isinstance(f_, ast.Name) and f_.id in PURE_CALLS)
            if not ok:
                return False
    return True


def _sans_local_mutators(e):
    """the expression with `local.append(x)` style calls replaced by their arguments (they change a local container, not the state of an object)"""
    class T(ast.NodeTransformer):
        def visit_Call(self, n):
            self.generic_visit(n)
            if isinstance(n.func, ast.Attribute) and n.func.attr in MUTATORS and isinstance(n.func.value, ast.Name) and n.func.value.id not in ("self", "cls"):
                return ast.Tuple(elts=list(n.args) + [k.value for k in n.keywords], ctx=ast.Load())
            return n

    return T().visit(copy.deepcopy(e))


def _own_nodes(st):
    """expression nodes that belong to the statement itself (not to statements nested in its blocks); a nested def counts as one statement"""
    if isinstance(st, (ast.FunctionDef, ast.AsyncFunctionDef, ast.ClassDef)):
        yield from ast.walk(st)
        return
    stack = [st]
    while stack:
        n = stack.pop()
        yield n
        for fld, v in ast.iter_fields(n):
            if n is st and fld in ("body", "orelse", "finalbody", "handlers") and isinstance(v, list) and v and isinstance(v[0], (ast.stmt, ast.ExceptHandler)):
                continue
            if isinstance(v, list):
                stack.extend(x for x in v if isinstance(x, ast.AST))
            elif isinstance(v, ast.AST):
                stack.append(v)


def _statements(fn):
    """[(stmt, order, enclosing loops, in try body, block, index)] in source order; `_statements.last[order]` = order of the last statement nested in it"""
    out = []
    last = {}
    _statements.last = last

    def scan(body, loops, in_try):
        for i, st in enumerate(body):
            my = len(out)
            out.append((st, my, loops, in_try, body, i))
            last[my] = my
            if isinstance(st, (ast.FunctionDef, ast.AsyncFunctionDef, ast.ClassDef)):
                continue
            inner = loops + (id(st),) if isinstance(st, (ast.For, ast.AsyncFor, ast.While)) else loops
            for fld in ("body", "orelse", "finalbody"):
                b = getattr(st, fld, None)
                if isinstance(b, list) and b and isinstance(b[0], ast.stmt):
                    scan(b, inner if fld == "body" else loops, in_try or (isinstance(st, ast.Try) and fld == "body"))
            if isinstance(st, ast.Try):
                for h in st.handlers:
                    scan(h.body, loops, in_try)
            last[my] = len(out) - 1

    scan(fn.body, (), False)
    return out


def _is_path(e):
    """a name / attribute chain / constant subscript of one: another way to say where an existing object lives"""
    while True:
        if isinstance(e, ast.Name):
            return True
        if isinstance(e, ast.Attribute):
            e = e.value
        elif isinstance(e, ast.Subscript) and isinstance(e.slice, ast.Constant):
            e = e.value
        else:
            return False


def _aliases(fn):
    """name -> value for the locals that can be written out without changing what the text says:
    assigned once by a plain `name = value` outside any try body; not mutated in place (unless the value is just a path to an existing object); and nothing the value
    reads is rebound or stored to after the assignment (or in a loop around it). A value with calls that may have effects is only moved into the statement that
    directly follows (single use); a freshly created container only if used once."""
    params = {a.arg for a in fn.args.args + fn.args.kwonlyargs + fn.args.posonlyargs}
    if fn.args.vararg:
        params.add(fn.args.vararg.arg)
    if fn.args.kwarg:
        params.add(fn.args.kwarg.arg)
    table = _statements(fn)
    last_nested = dict(_statements.last)
    order_of = {id(st): order for st, order, *_ in table}
    value, site, banned, mutated, loads, last_use = {}, {}, set(), set(), {}, {}
    name_stores = {}   # name -> [(order, loops)]
    text_stores = {}   # text of a stored attribute / subscripted object -> [(order, loops)]
    star_uses = {}
    for c_ in ast.walk(fn):
        if isinstance(c_, ast.Call):
            for k_ in c_.keywords:
                if k_.arg is None and isinstance(k_.value, ast.Name):
                    star_uses[k_.value.id] = star_uses.get(k_.value.id, 0) + 1
    impure_at, loops_at, use_sites, selfcall_at = {}, {}, {}, {}
    for st, order, loops, in_try, body, i in table:
        loops_at[order] = loops
        if not isinstance(st, (ast.FunctionDef, ast.AsyncFunctionDef, ast.ClassDef)):
            selfcall_at[order] = any(isinstance(c, ast.Call) and ((isinstance(c.func, ast.Attribute) and _root_name(c.func) in ("self", "cls")) or
                                                                 (isinstance(c.func, ast.Name) and c.func.id not in PURE_CALLS)) for c in _own_nodes(st))
        if not isinstance(st, (ast.FunctionDef, ast.AsyncFunctionDef, ast.ClassDef)):
            heads = [st] if not any(isinstance(getattr(st, f_, None), list) and getattr(st, f_) and isinstance(getattr(st, f_)[0], ast.stmt) for f_ in ("body", "orelse", "finalbody")) \
                else [x for x in (getattr(st, "test", None), getattr(st, "iter", None)) if x is not None] + [it.context_expr for it in getattr(st, "items", [])]
            impure_at[order] = any(not _is_pure(h.value if isinstance(h, (ast.Assign, ast.Expr, ast.Return, ast.AugAssign)) and h.value is not None else h, True)
                                   for h in heads if not isinstance(h, (ast.Pass, ast.Break, ast.Continue)))
        for n in _own_nodes(st):
            if isinstance(n, ast.Name) and isinstance(n.ctx, ast.Load):
                use_sites.setdefault(n.id, []).append(order)
        if isinstance(st, ast.Assign) and len(st.targets) == 1 and isinstance(st.targets[0], ast.Name):
            n = st.targets[0].id
            value[n] = st.value
            site[n] = (order, loops, body, i)
            if in_try and not isinstance(st.value, (ast.Name, ast.Constant)):   # (a copy of a name / a literal cannot raise: where it is evaluated does not matter)
                banned.add(n)
        nested = isinstance(st, (ast.FunctionDef, ast.AsyncFunctionDef, ast.ClassDef))
        if nested:
            banned.add(st.name)
        for n in _own_nodes(st):
            if isinstance(n, ast.Name):
                if isinstance(n.ctx, ast.Load):
                    loads[n.id] = loads.get(n.id, 0) + 1
                    last_use[n.id] = max(last_use.get(n.id, -1), order if isinstance(st, ast.Assign) else order + 0.5)
                elif not nested:
                    name_stores.setdefault(n.id, []).append((order, loops))
                    if not (isinstance(st, ast.Assign) and len(st.targets) == 1 and st.targets[0] is n):
                        banned.add(n.id)
            elif isinstance(n, (ast.Attribute, ast.Subscript)) and isinstance(n.ctx, (ast.Store, ast.Del)):
                r = _root_name(n)
                if r:
                    mutated.add(r)
                text_stores.setdefault(txt(n.value) if isinstance(n, ast.Subscript) else txt(n), []).append((order, loops))
            elif isinstance(n, ast.AugAssign):
                r = _root_name(n.target)
                if r:
                    (banned if isinstance(n.target, ast.Name) else mutated).add(r)
            elif isinstance(n, ast.Call) and isinstance(n.func, ast.Attribute) and n.func.attr in MUTATORS and isinstance(n.func.value, ast.Name):
                mutated.add(n.func.value.id)
            elif isinstance(n, (ast.Global, ast.Nonlocal)):
                banned.update(n.names)
            elif isinstance(n, ast.ExceptHandler) and n.name:
                banned.add(n.name)
            elif isinstance(n, ast.NamedExpr):
                banned.add(n.target.id)
    for st, order, loops, in_try, body, i in table:
        if isinstance(st, ast.Try):
            for h in st.handlers:
                if h.name:
                    banned.add(h.name)

    def later(stores, order, loops):
        """some store happens after the assignment, or inside a loop that also contains it"""
        return any(o > order or (set(l) & set(loops)) for o, l in stores)

    cands = {k for k in value if len(name_stores.get(k, [])) == 1 and k not in banned and k not in params}
    out = {}
    for k in cands:
        v = value[k]
        order, loops, body, i = site[k]
        if isinstance(v, ast.Name) and v.id != k and v.id not in ("self", "cls") and loads.get(k, 0) and not later(name_stores.get(v.id, []), order, loops):
            # `b = a` with `a` never rebound afterwards: b is a second name of the same object wherever b exists at all (no dominance needed, mutation through either name
            # is mutation of the one object)
            out[k] = v
            continue
        if k in mutated and not _is_path(v):
            continue
        free = {x.id for x in ast.walk(v) if isinstance(x, ast.Name) and isinstance(x.ctx, ast.Load)}
        if k in free:
            continue
        inner_bound = {x.id for x in ast.walk(v) if isinstance(x, ast.Name) and isinstance(x.ctx, ast.Store)} | {a.arg for x in ast.walk(v) if isinstance(x, ast.Lambda) for a in x.args.args}
        if any(n not in inner_bound and later([s for s in name_stores.get(n, []) if s[0] != order or True], order, loops) and not (n in cands and len(name_stores[n]) == 1 and name_stores[n][0][0] < order)
               for n in free):
            # a loop variable of an enclosing loop is stable inside the iteration
            bad = False
            for n in free:
                if n in inner_bound:
                    continue
                ss = name_stores.get(n, [])
                for o, l in ss:
                    if o > order:
                        # rebinding after the last statement that reads the alias (or in that very assignment, whose right-hand side is evaluated first) is harmless
                        if last_use.get(k, -1) > o or (set(l) & set(loops)):
                            bad = True
                    elif set(l) & set(loops):
                        # stored inside a shared loop: fine only if that store *is* the loop header (for-target) binding, i.e. it comes before us in the same iteration
                        # and nothing else stores it
                        if len(ss) != 1:
                            bad = True
            if bad:
                continue
        reads = {txt(x) for x in ast.walk(v) if isinstance(x, (ast.Attribute, ast.Subscript))}
        # getattr(obj, 'name'[, default]) reads obj.name
        reads |= {"%s.%s" % (txt(x.args[0]), x.args[1].value) for x in ast.walk(v) if isinstance(x, ast.Call) and isinstance(x.func, ast.Name) and x.func.id == "getattr"
                  and len(x.args) >= 2 and isinstance(x.args[1], ast.Constant) and isinstance(x.args[1].value, str)}
        hit = False
        for t, ss in text_stores.items():
            if (t in reads or any(r.startswith(t + ".") or r.startswith(t + "[") for r in reads)) and later(ss, order, loops):
                hit = True
        if hit:
            continue
        uses = loads.get(k, 0)
        if uses == 0:
            continue  # `_ = self.data`: evaluated for its effect (a property read), stays as written
        # the assignment must come before every use on every path: all uses lie in the rest of its own block
        block_end = last_nested.get(order_of.get(id(body[-1]), order), order)
        if any(not (order < u <= block_end) for u in use_sites.get(k, [])):
            continue
        field_path = _is_path(v) and isinstance(v, ast.Attribute) and all(x.attr.startswith("_") for x in ast.walk(v) if isinstance(x, ast.Attribute)) \
            and not any(isinstance(x, ast.Subscript) for x in ast.walk(v))
        if field_path:
            # `_m = self._param_model` just names an object: what matters is that the field is not rebound - textually (checked above) or by a method of the object
            # itself that runs in between (any call on self / a bare function call); reads and stores through the alias do not rebind it
            us = use_sites.get(k, [])
            if any(selfcall_at.get(o, False) for o in range(order + 1, int(max(us)) if us else order)):
                continue
            if any(lp not in loops and any(selfcall_at.get(o, False) for o, l in loops_at.items() if lp in l) for u in us for lp in loops_at.get(u, ())):
                continue
        elif any(isinstance(x, ast.Attribute) for x in ast.walk(v)):
            # a value that reads object state does not move across a statement that may change the state (a call with possible effects):
            # neither a statement between the assignment and the last use, nor the body of a loop that is entered after the assignment
            us = use_sites.get(k, [])
            barrier = any(impure_at.get(o, False) for o in range(order + 1, int(max(us)) if us else order))
            for u in us:
                for lp in loops_at.get(u, ()):
                    if lp not in loops and any(impure_at.get(o, False) for o, l in loops_at.items() if lp in l):
                        barrier = True
            if barrier:
                continue
        fresh = _is_fresh(v)
        if _is_pure(v):
            if fresh and uses > 1 and star_uses.get(k, 0) != uses:   # (a dict that is only ever unpacked with ** is not shared: every call gets its own copy of the items)
                continue
            out[k] = v
            continue
        if uses != 1:
            continue
        nxt = body[i + 1] if i + 1 < len(body) else None
        if nxt is None:
            continue
        heads = [nxt] if not hasattr(nxt, "body") else [getattr(nxt, "test", None), getattr(nxt, "iter", None)]
        ok = False
        for h in heads:
            if h is None:
                continue
            for x in _walk_no_defs(h):
                if isinstance(x, ast.Name) and x.id == k and isinstance(x.ctx, ast.Load):
                    ok = True
        if ok and not any(y.id == k for h in heads if h is not None for y in _lazily_evaluated_names(h)):
            out[k] = v
    return out


def _lazily_evaluated_names(node):
    """Name nodes inside comprehensions / generator expressions that are evaluated per element or later - everything except the iterable of the first `for`, which
    is evaluated once, at once, in the enclosing scope (a generator expression evaluates it when it is created)"""
    out = []
    for c in ast.walk(node):
        if isinstance(c, (ast.ListComp, ast.GeneratorExp, ast.SetComp, ast.DictComp)):
            parts = [c.key, c.value] if isinstance(c, ast.DictComp) else [c.elt]
            for j, g in enumerate(c.generators):
                parts += list(g.ifs) + ([g.iter] if j > 0 else [])
            for part in parts:
                out += [y for y in ast.walk(part) if isinstance(y, ast.Name)]
        elif isinstance(c, ast.Lambda):
            out += [y for y in ast.walk(c.body) if isinstance(y, ast.Name)]
    return out


def alpha(node, params_too=False):
    """copy of a canonical function with its locals numbered in order of first binding (for comparing two versions; rules use placeholders instead)"""
    node = copy.deepcopy(node)
    keep = {a.arg for a in node.args.args + node.args.kwonlyargs + node.args.posonlyargs} | ({node.args.vararg.arg} if node.args.vararg else set()) | ({node.args.kwarg.arg} if node.args.kwarg else set())
    ren = {}

    class V(ast.NodeVisitor):
        def visit_Name(self, n):
            if isinstance(n.ctx, (ast.Store, ast.Del)) and n.id not in keep and n.id not in ren:
                ren[n.id] = "_v%d" % (len(ren) + 1)

        def visit_arg(self, n):
            if n.arg not in keep and n.arg not in ren:
                ren[n.arg] = "_v%d" % (len(ren) + 1)

        def visit_FunctionDef(self, n):
            if n is not node and n.name not in ren:
                ren[n.name] = "_v%d" % (len(ren) + 1)
            self.generic_visit(n)

        def visit_ExceptHandler(self, n):
            if n.name and n.name not in ren:
                ren[n.name] = "_v%d" % (len(ren) + 1)
            self.generic_visit(n)

        def visit_ListComp(self, n):
            for g in n.generators:
                self.visit(g)
            self.visit(n.elt) if hasattr(n, "elt") else (self.visit(n.key), self.visit(n.value))

        visit_SetComp = visit_GeneratorExp = visit_DictComp = visit_ListComp

    V().visit(node)
    return _Rename(ren).visit(node)


def _hoist(body):
    """`if c: <exits> else: rest`  ->  `if c: <exits>` followed by rest (the flat way to write the same thing); applied to every block"""
    out = []
    for st in body:
        for fld in ("body", "orelse", "finalbody"):
            b = getattr(st, fld, None)
            if isinstance(b, list) and b and isinstance(b[0], ast.stmt) and not isinstance(st, (ast.FunctionDef, ast.AsyncFunctionDef, ast.ClassDef)):
                setattr(st, fld, _hoist(b))
        if isinstance(st, ast.Try):
            for h in st.handlers:
                h.body = _hoist(h.body)
        if isinstance(st, ast.If) and st.orelse:
            if not _terminator(st.body) and _terminator(st.orelse):
                st.test, st.body, st.orelse = negate(st.test), st.orelse, st.body
            if _terminator(st.body):
                rest, st.orelse = st.orelse, []
                out.append(st)
                out.extend(rest)
                continue
        out.append(st)
    return out


class _Small(ast.NodeTransformer):
    """`a, b = (x, y)` -> two assignments; `if c: t = A else: t = B` -> `t = A if c else B`; `(A.f if c else B.f)` -> `(A if c else B).f`"""

    _root = None

    def visit(self, node):
        if _Small._root is None:
            _Small._root = node
            try:
                return super().visit(node)
            finally:
                _Small._root = None
        return super().visit(node)

    def generic_visit(self, node):
        node = super().generic_visit(node)
        for fld in ("body", "orelse", "finalbody"):
            b = getattr(node, fld, None)
            if isinstance(b, list) and b and isinstance(b[0], ast.stmt):
                setattr(node, fld, self._block(b))
        return node

    @staticmethod
    def _block(b):
        out = []
        for st in b:
            if isinstance(st, ast.For) and isinstance(st.iter, ast.IfExp) and isinstance(st.iter.body, (ast.Tuple, ast.List)) and isinstance(st.iter.orelse, (ast.Tuple, ast.List)) \
                    and _is_pure(st.iter.test, reads_ok=True) and not st.orelse:
                # `for v in (T1 if c else T2): body`  ->  `if c: for v in T1: body else: for v in T2: body`
                a_ = ast.copy_location(ast.For(target=st.target, iter=st.iter.body, body=st.body, orelse=[], lineno=st.lineno), st)
                b_ = ast.copy_location(ast.For(target=copy.deepcopy(st.target), iter=st.iter.orelse, body=copy.deepcopy(st.body), orelse=[], lineno=st.lineno), st)
                out.append(ast.copy_location(ast.If(test=st.iter.test, body=_Small._block([a_]), orelse=_Small._block([b_])), st))
                continue
            if isinstance(st, ast.For):
                u = _Small.unrolled(st)
                if u is not None:
                    out.extend(_Small._block(u))
                    continue
            if isinstance(st, ast.AugAssign) and isinstance(st.op, ast.Add) and isinstance(st.target, ast.Name) and isinstance(st.value, ast.ListComp) and len(st.value.generators) == 1 \
                    and not st.value.generators[0].is_async and not any(isinstance(x, ast.Name) and x.id == st.target.id for x in ast.walk(st.value)):
                # `x += [E for v in I if c]`  ->  `for v in I: if c: x.append(E)`
                g = st.value.generators[0]
                body = [ast.Expr(value=ast.Call(func=ast.Attribute(value=ast.Name(id=st.target.id, ctx=ast.Load()), attr="append", ctx=ast.Load()), args=[st.value.elt], keywords=[]))]
                for c in reversed(g.ifs):
                    body = [ast.If(test=c, body=body, orelse=[])]
                tgt = copy.deepcopy(g.target)
                for t in ast.walk(tgt):
                    if isinstance(t, (ast.Name, ast.Tuple, ast.List)):
                        t.ctx = ast.Store()
                loop = ast.For(target=tgt, iter=g.iter, body=body, orelse=[], lineno=st.lineno)
                ast.copy_location(loop, st)
                ast.fix_missing_locations(loop)
                out.append(loop)
                continue
            if isinstance(st, ast.Assign) and len(st.targets) == 1 and isinstance(st.targets[0], ast.Tuple) and isinstance(st.value, ast.Tuple) \
                    and len(st.targets[0].elts) == len(st.value.elts) and all(isinstance(t, (ast.Name, ast.Attribute)) for t in st.targets[0].elts) \
                    and not any(txt(st.targets[0].elts[i_]) in {txt(x) for x in ast.walk(st.value.elts[j_]) if isinstance(x, (ast.Name, ast.Attribute))}
                                for j_ in range(len(st.value.elts)) for i_ in range(j_)):   # (a later value must not read an earlier target: `a, X = X, []` is `a = X; X = []`)
                for t, v in zip(st.targets[0].elts, st.value.elts):
                    out.append(ast.copy_location(ast.Assign(targets=[t], value=v, lineno=st.lineno), st))
                continue
            if isinstance(st, ast.Assign) and len(st.targets) == 1 and isinstance(st.targets[0], ast.Name) and isinstance(st.value, (ast.List, ast.Tuple)) \
                    and 2 <= len(st.value.elts) <= 4 and not all(isinstance(e, (ast.Name, ast.Constant)) for e in st.value.elts) and _Small._root is not None:
                # `accs = [np.zeros(n), np.zeros(n)]` that is later walked with enumerate / zip / for: the elements get names of their own (`accs = [_accs_0, _accs_1]`),
                # so that a loop over the list can be written once per element
                nm = st.targets[0].id
                root = _Small._root
                walked = any(isinstance(x, (ast.For, ast.comprehension)) and any(isinstance(y, ast.Name) and y.id == nm for y in ast.walk(x.iter)) for x in ast.walk(root))
                probe = ast.Assign(targets=st.targets, value=type(st.value)(elts=[ast.Name(id="_", ctx=ast.Load()) for _e in st.value.elts], ctx=ast.Load()), lineno=st.lineno)
                single = sum(1 for x in ast.walk(root) if isinstance(x, ast.Name) and x.id == nm and isinstance(x.ctx, (ast.Store, ast.Del))) == 1
                untouched = not any((isinstance(x, ast.Subscript) and isinstance(x.ctx, (ast.Store, ast.Del)) and isinstance(x.value, ast.Name) and x.value.id == nm)
                                    or (isinstance(x, ast.Call) and isinstance(x.func, ast.Attribute) and x.func.attr in MUTATORS and isinstance(x.func.value, ast.Name) and x.func.value.id == nm)
                                    or (isinstance(x, ast.AugAssign) and isinstance(x.target, ast.Name) and x.target.id == nm) for x in ast.walk(root))
                if walked and single and untouched and not any(isinstance(e, ast.Starred) for e in st.value.elts):
                    new_elts = []
                    for i_, e in enumerate(st.value.elts):
                        if isinstance(e, (ast.Name, ast.Constant)):
                            new_elts.append(e)
                            continue
                        en = "_%s_%d" % (nm.lstrip("_"), i_)
                        out.append(ast.copy_location(ast.Assign(targets=[ast.Name(id=en, ctx=ast.Store())], value=e, lineno=st.lineno), st))
                        new_elts.append(ast.Name(id=en, ctx=ast.Load()))
                    out.append(ast.copy_location(ast.Assign(targets=st.targets, value=type(st.value)(elts=new_elts, ctx=ast.Load()), lineno=st.lineno), st))
                    continue
            if isinstance(st, ast.Assign) and len(st.targets) == 1 and isinstance(st.targets[0], ast.Tuple) and all(isinstance(t, ast.Name) for t in st.targets[0].elts):
                tg, v = st.targets[0].elts, st.value
                # `a, b = (E(v) for v in (r1, r2))`  ->  `a = E(r1); b = E(r2)`     (a literal table with one row per target)
                if isinstance(v, (ast.GeneratorExp, ast.ListComp)) and len(v.generators) == 1 and not v.generators[0].ifs and isinstance(v.generators[0].iter, (ast.Tuple, ast.List)) \
                        and len(v.generators[0].iter.elts) == len(tg) and isinstance(v.generators[0].target, ast.Name) \
                        and not any(isinstance(x, ast.Name) and x.id in {t.id for t in tg} for x in ast.walk(v)):
                    g = v.generators[0]
                    for t, row in zip(tg, g.iter.elts):
                        c_ = _SubstAll({g.target.id: row})
                        c_._top = st
                        out.append(ast.copy_location(ast.Assign(targets=[t], value=_Small().visit(c_.visit(copy.deepcopy(v.elt))), lineno=st.lineno), st))
                    continue
                # `a, b = (A1, B1) if c else (A2, B2)`  ->  `a = A1 if c else A2; b = B1 if c else B2`   (c pure and not about a or b)
                if isinstance(v, ast.IfExp) and isinstance(v.body, ast.Tuple) and isinstance(v.orelse, ast.Tuple) and len(v.body.elts) == len(v.orelse.elts) == len(tg) \
                        and _is_pure(v.test, reads_ok=True) and not any(isinstance(x, ast.Name) and x.id in {t.id for t in tg} for x in ast.walk(v)):
                    for t, a_, b_ in zip(tg, v.body.elts, v.orelse.elts):
                        out.append(ast.copy_location(ast.Assign(targets=[t], value=ast.IfExp(test=copy.deepcopy(v.test), body=a_, orelse=b_), lineno=st.lineno), st))
                    continue
            if isinstance(st, (ast.Expr, ast.Assign)) and isinstance(st.value, ast.Call):
                # `f(a, **(dict() if c else dict(k=v)))`  ->  `if c: f(a) else: f(a, k=v)`   (optional keyword arguments chosen by a pure test)
                kk = [k for k in st.value.keywords if k.arg is None and isinstance(k.value, ast.IfExp) and _is_pure(k.value.test, reads_ok=True)
                      and _expand_kwargs([ast.keyword(arg=None, value=k.value.body)]) is not None and _expand_kwargs([ast.keyword(arg=None, value=k.value.orelse)]) is not None]
                if len(kk) == 1:
                    k0 = kk[0]
                    variants = []
                    for br in (k0.value.body, k0.value.orelse):
                        c_ = copy.deepcopy(st)
                        c_.value.keywords = [x for k in st.value.keywords for x in (_expand_kwargs([ast.keyword(arg=None, value=copy.deepcopy(br))]) if k is k0 else [copy.deepcopy(k)])]
                        variants.append(c_)
                    out.append(ast.copy_location(ast.If(test=k0.value.test, body=_Small._block([variants[0]]), orelse=_Small._block([variants[1]])), st))
                    continue
            if isinstance(st, ast.Expr) and isinstance(st.value, ast.Call):
                # `f(A if c else B, x + (p if c else q))`  ->  `if c: f(A, x + p) else: f(B, x + q)`   (several arguments chosen together by one pure test: two variants of the call)
                inner = {id(y) for x in _walk_no_defs(st.value) if isinstance(x, (ast.ListComp, ast.SetComp, ast.DictComp, ast.GeneratorExp)) for y in ast.walk(x)}
                ifs = [x for x in _walk_no_defs(st.value) if isinstance(x, ast.IfExp) and id(x) not in inner]
                by_test = {}
                for x in ifs:
                    by_test.setdefault(txt(x.test), []).append(x)
                key = next((k_ for k_, v_ in by_test.items() if len(v_) >= 2 and _is_pure(v_[0].test, reads_ok=True)), None)
                if key is not None:
                    class _Pick(ast.NodeTransformer):
                        def __init__(self, take):
                            self.take = take

                        def visit_IfExp(self, n_):
                            if txt(n_.test) == key:
                                return self.visit(n_.body if self.take else n_.orelse)
                            return self.generic_visit(n_)

                        def visit_Lambda(self, n_):
                            return n_

                        visit_ListComp = visit_SetComp = visit_DictComp = visit_GeneratorExp = visit_Lambda

                    yes = ast.copy_location(ast.Expr(value=_Pick(True).visit(copy.deepcopy(st.value))), st)
                    no = ast.copy_location(ast.Expr(value=_Pick(False).visit(copy.deepcopy(st.value))), st)
                    out.append(ast.copy_location(ast.If(test=by_test[key][0].test, body=_Small._block([yes]), orelse=_Small._block([no])), st))
                    continue
            if isinstance(st, ast.Expr) and isinstance(st.value, ast.Call) and isinstance(st.value.func, ast.Name) and st.value.func.id == "setattr" and len(st.value.args) == 3 \
                    and not st.value.keywords and isinstance(st.value.args[1], ast.Constant) and isinstance(st.value.args[1].value, str) and st.value.args[1].value.isidentifier():
                # setattr(obj, 'name', v)  ->  obj.name = v
                a_ = st.value.args
                out.append(ast.copy_location(ast.Assign(targets=[ast.Attribute(value=a_[0], attr=a_[1].value, ctx=ast.Store())], value=a_[2], lineno=st.lineno), st))
                continue
            if isinstance(st, ast.Assign) and len(st.targets) == 1 and isinstance(st.targets[0], ast.Name) and isinstance(st.value, ast.IfExp):
                t, v = st.targets[0].id, st.value
                if isinstance(v.orelse, ast.Name) and v.orelse.id == t:
                    out.append(ast.copy_location(ast.If(test=v.test, body=[ast.copy_location(ast.Assign(targets=st.targets, value=v.body, lineno=st.lineno), st)], orelse=[]), st))
                    continue
                if isinstance(v.body, ast.Name) and v.body.id == t:
                    out.append(ast.copy_location(ast.If(test=negate(v.test), body=[ast.copy_location(ast.Assign(targets=st.targets, value=v.orelse, lineno=st.lineno), st)], orelse=[]), st))
                    continue
            if isinstance(st, ast.If) and len(st.body) == 1 and len(st.orelse) == 1 and all(isinstance(x, ast.Assign) and len(x.targets) == 1 for x in (st.body[0], st.orelse[0])) \
                    and isinstance(st.body[0].targets[0], (ast.Name, ast.Attribute, ast.Subscript)) and txt(st.body[0].targets[0]) == txt(st.orelse[0].targets[0]) \
                    and not isinstance(st.orelse[0].value, ast.IfExp) and not isinstance(st.body[0].value, ast.IfExp):
                val = ast.IfExp(test=st.test, body=st.body[0].value, orelse=st.orelse[0].value)
                out.append(ast.copy_location(ast.Assign(targets=st.body[0].targets, value=_lift_attr(val), lineno=st.lineno), st))
                continue
            out.append(st)
        return out

    @staticmethod
    def _enumerated(n):
        """inside `for i, x in enumerate(S): body` (S a plain attribute path / name that the body does not store to, i and x not rebound) `S[i]` is `x`"""
        it, tg = n.iter, n.target
        if not (isinstance(it, ast.Call) and isinstance(it.func, ast.Name) and it.func.id == "enumerate" and len(it.args) == 1 and not it.keywords and isinstance(tg, ast.Tuple)
                and len(tg.elts) == 2 and all(isinstance(e, ast.Name) for e in tg.elts) and _is_path(it.args[0])):
            return n
        seq, i_, x_ = txt(it.args[0]), tg.elts[0].id, tg.elts[1].id
        for b in n.body:
            for y in ast.walk(b):
                if isinstance(y, ast.Name) and isinstance(y.ctx, (ast.Store, ast.Del)) and y.id in (i_, x_):
                    return n
                if isinstance(y, (ast.Attribute, ast.Subscript)) and isinstance(y.ctx, (ast.Store, ast.Del)) and (txt(y) == seq or txt(getattr(y, "value", y)) == seq):
                    return n

        class T(ast.NodeTransformer):
            def visit_Subscript(self, s_):
                self.generic_visit(s_)
                if isinstance(s_.ctx, ast.Load) and txt(s_.value) == seq and isinstance(s_.slice, ast.Name) and s_.slice.id == i_:
                    return ast.copy_location(ast.Name(id=x_, ctx=ast.Load()), s_)
                return s_

            def visit_Lambda(self, l_):
                return l_   # (evaluated later: the loop variables may have moved on)

            visit_FunctionDef = visit_Lambda

        n.body = [T().visit(b) for b in n.body]
        return n

    def visit_For(self, n):
        n = self._enumerated(n)
        # `for t in (E for v in I if c): body`  ->  `for v in I: if c: t = E; body`   (a generator is consumed lazily: the same interleaving; a list only when E is pure)
        n = self.generic_visit(n)
        it = n.iter
        if isinstance(it, (ast.GeneratorExp, ast.ListComp)) and len(it.generators) == 1 and not it.generators[0].is_async and isinstance(n.target, ast.Name) and not n.orelse \
                and (isinstance(it, ast.GeneratorExp) or (_is_pure(it.elt) and all(_is_pure(c) for c in it.generators[0].ifs))) \
                and not any(isinstance(x, (ast.Break, ast.Continue)) for b in n.body for x in ast.walk(b)):
            g = it.generators[0]
            bound = {x.id for x in ast.walk(g.target) if isinstance(x, ast.Name)}
            if n.target.id not in bound and not any(isinstance(x, ast.Name) and x.id in bound for b in n.body for x in ast.walk(b)):
                body = [ast.copy_location(ast.Assign(targets=[ast.Name(id=n.target.id, ctx=ast.Store())], value=it.elt, lineno=n.lineno), n)] + list(n.body)
                for c in reversed(g.ifs):
                    body = [ast.copy_location(ast.If(test=c, body=body, orelse=[]), n)]
                tgt = copy.deepcopy(g.target)
                for t in ast.walk(tgt):
                    if isinstance(t, (ast.Name, ast.Tuple, ast.List)):
                        t.ctx = ast.Store()
                return ast.copy_location(ast.For(target=tgt, iter=g.iter, body=body, orelse=[], lineno=n.lineno), n)
        return n

    def visit_IfExp(self, n):
        self.generic_visit(n)
        return _lift_attr(n)

    def _local_literal(e):
        """the list / tuple literal behind `e`: the literal itself, or - for a local bound once in the function to a literal whose elements are names / constants and
        that is never changed structurally (append, item store, ...) - that literal"""
        if isinstance(e, (ast.Tuple, ast.List)):
            return e
        root = _Small._root
        if not isinstance(e, ast.Name) or root is None:
            return None
        defs = [a for a in ast.walk(root) if isinstance(a, ast.Assign) and any(isinstance(t, ast.Name) and t.id == e.id for t in a.targets)]
        stores = sum(1 for x in ast.walk(root) if isinstance(x, ast.Name) and x.id == e.id and isinstance(x.ctx, (ast.Store, ast.Del)))
        params = {a.arg for a in ast.walk(root) if isinstance(a, ast.arg)}
        # (bound unconditionally: the assignment is a statement of the function body itself, and the name is not a parameter)
        if e.id in params or len(defs) != 1 or not any(defs[0] is st_ for st_ in getattr(root, "body", [])):
            return None
        def plain(x):
            return isinstance(x, (ast.Name, ast.Constant)) or (isinstance(x, ast.Tuple) and all(isinstance(y, (ast.Name, ast.Constant)) for y in x.elts))

        if len(defs) != 1 or stores != 1 or not isinstance(defs[0].value, (ast.Tuple, ast.List)) or not all(plain(x) for x in defs[0].value.elts):
            return None
        for x in ast.walk(root):
            if isinstance(x, ast.Subscript) and isinstance(x.ctx, (ast.Store, ast.Del)) and isinstance(x.value, ast.Name) and x.value.id == e.id:
                return None
            if isinstance(x, ast.Call) and isinstance(x.func, ast.Attribute) and x.func.attr in MUTATORS and isinstance(x.func.value, ast.Name) and x.func.value.id == e.id:
                return None
            if isinstance(x, ast.AugAssign) and isinstance(x.target, ast.Name) and x.target.id == e.id:
                return None
        return defs[0].value

    _local_literal = staticmethod(_local_literal)

    @staticmethod
    def _rows_of(it):
        """rows of a literal table given directly, through `enumerate(<literal>)` or `zip(<literal>, <literal>, ...)`; None if it is not one"""
        lit = _Small._local_literal(it)
        if lit is not None:
            return list(lit.elts)
        if isinstance(it, ast.Call) and isinstance(it.func, ast.Name) and not it.keywords and not any(isinstance(a, ast.Starred) for a in it.args):
            if it.func.id == "enumerate" and len(it.args) == 1:
                lit = _Small._local_literal(it.args[0])
                if lit is not None:
                    return [ast.Tuple(elts=[ast.Constant(value=i), e], ctx=ast.Load()) for i, e in enumerate(lit.elts)]
            if it.func.id == "zip" and len(it.args) >= 2:
                lits = [_Small._local_literal(a) for a in it.args]
                if all(l is not None for l in lits) and len({len(l.elts) for l in lits}) == 1:
                    return [ast.Tuple(elts=[l.elts[i] for l in lits], ctx=ast.Load()) for i in range(len(lits[0].elts))]
        return None

    @staticmethod
    def unrolled(n):
        """`for a, b in ((A1, B1), (A2, B2)): body` -> body[a:=A1, b:=B1]; body[a:=A2, b:=B2]  (a literal sequence of at most four rows of constants / plain names / call-free
        pure expressions - given directly, through a local list of names, `enumerate(..)` or `zip(..)` of such; the loop variables and the names put in their place are not
        rebound in the body, no continue): a loop that only parameterises its body by side / axis is the body written once per row. A loop variable that stands for a
        *name* in every row may be the target of `+=` (an accumulator picked from a list); a body of the form `if c: ...; break` is the if / elif chain over the rows."""
        it, tg = n.iter, n.target
        elts = _Small._rows_of(it)
        if elts is None or not (1 <= len(elts) <= 8) or n.orelse or (len(elts) > 4 and sum(1 for b in n.body for x in ast.walk(b) if isinstance(x, ast.stmt)) > 3):
            return None   # (long tables only with a short body)
        names = [tg.id] if isinstance(tg, ast.Name) else ([x.id for x in tg.elts] if isinstance(tg, ast.Tuple) and all(isinstance(x, ast.Name) for x in tg.elts) else None)
        if names is None:
            return None
        rows = []
        for e in elts:
            vals = [e] if isinstance(tg, ast.Name) else (list(e.elts) if isinstance(e, ast.Tuple) and len(e.elts) == len(names) else None)
            simple_ = vals is not None and all(isinstance(v, (ast.Constant, ast.Name)) or (_is_pure(v) and not any(isinstance(x, (ast.Call, ast.Lambda)) for x in ast.walk(v))) for v in vals)
            if vals is None:
                return None
            if not simple_:
                # values with calls are allowed in the *first* row only (they are evaluated first either way), each loop variable holding one being used once in the body
                if rows or any(isinstance(x, (ast.Lambda, ast.Starred, ast.Yield, ast.Await)) for v in vals for x in ast.walk(v)):
                    return None
                for nm_, v in zip(names, vals):
                    if not isinstance(v, (ast.Constant, ast.Name)) and sum(1 for b in n.body for x in ast.walk(b) if isinstance(x, ast.Name) and x.id == nm_ and isinstance(x.ctx, ast.Load)) > 1:
                        return None
            rows.append(vals)
        body = list(n.body)
        chain = False
        if len(body) == 1 and isinstance(body[0], ast.If) and not body[0].orelse and body[0].body and isinstance(body[0].body[-1], ast.Break) \
                and not any(isinstance(x, (ast.Break, ast.Continue)) for b in body[0].body[:-1] for x in ast.walk(b)) and _is_pure(body[0].test, reads_ok=True):
            chain = True   # `if c(row): S(row); break`  ->  if c(r1): S(r1) elif c(r2): S(r2) ...
            body = [ast.copy_location(ast.If(test=body[0].test, body=list(body[0].body[:-1]) or [ast.Pass()], orelse=[]), body[0])]
        aug = {x.target.id for b in body for x in ast.walk(b) if isinstance(x, ast.AugAssign) and isinstance(x.target, ast.Name)}
        stored = {x.id for b in body for x in ast.walk(b) if isinstance(x, ast.Name) and isinstance(x.ctx, (ast.Store, ast.Del))}
        plain_stored = {x.id for b in body for x in ast.walk(b) if isinstance(x, ast.Name) and isinstance(x.ctx, (ast.Store, ast.Del))
                        and not any(isinstance(y, ast.AugAssign) and y.target is x for b2 in body for y in ast.walk(b2))}
        acc = {nm for i, nm in enumerate(names) if nm in aug and nm not in plain_stored and all(isinstance(r[i], ast.Name) for r in rows)}   # accumulators picked from the rows
        used = {x.id for r in rows for i, v in enumerate(r) for x in ast.walk(v) if isinstance(x, ast.Name) and names[i] not in acc}
        if ((stored - acc) & (set(names) | used)) or any(isinstance(x, (ast.Break, ast.Continue, ast.FunctionDef, ast.Lambda)) for b in body for x in ast.walk(b)):
            return None
        # locals that live only inside the loop body belong to one copy of it
        loop_local = set()
        if _Small._root is not None:
            def count(tree, name):
                return sum(1 for x in ast.walk(tree) if isinstance(x, ast.Name) and x.id == name)
            loop_local = {x for x in stored - acc if count(_Small._root, x) == count(n, x)}
        copies = []
        for k, r in enumerate(rows):
            env = dict(zip(names, r))
            # (locals of written-out helpers belong to one copy of the body)
            ren = {x: "%s_u%d" % (x, k + 1) for x in stored - acc if "__" in x or x in loop_local} if k else {}
            ren.update({nm: env[nm].id for nm in acc})   # (`acc += v` on the row's accumulator)
            out = []
            for b in body:
                c = _SubstAll({k_: v_ for k_, v_ in env.items() if k_ not in acc})
                c._top = n
                b2 = c.visit(copy.deepcopy(b))
                if ren:
                    b2 = _Rename(ren).visit(b2)
                b2 = _FoldConst().visit(b2)
                out.extend(b2 if isinstance(b2, list) else [b2])
            copies.append(out)
        if chain:
            # each copy is one `if`: nest them as else-branches
            tail = []
            for out in reversed(copies):
                if len(out) == 1 and isinstance(out[0], ast.If):
                    out[0].orelse = tail
                    tail = [out[0]]
                elif len(out) == 1 and isinstance(out[0], ast.Pass):
                    continue          # (the test folded to False)
                else:
                    tail = out        # (the test folded to True: this row always matches, later rows are dead)
            return tail or [ast.copy_location(ast.Pass(), n)]
        return [st for out in copies for st in out]

    def visit_Call(self, n):
        self.generic_visit(n)
        # (lambda p, q: E)(a, b) -> E[p:=a, q:=b]   (plain positional parameters; an argument with an effect may be used at most once)
        if isinstance(n.func, ast.Lambda) and not n.keywords and not any(isinstance(a, ast.Starred) for a in n.args):
            la = n.func.args
            # (a nested lambda / generator in the body captures the parameter per call - `(lambda f: lambda: g(f))(x)` is not `lambda: g(x)`)
            if len(la.args) == len(n.args) and not (la.defaults or la.kwonlyargs or la.vararg or la.kwarg or la.posonlyargs) \
                    and not any(isinstance(x, (ast.Lambda, ast.GeneratorExp)) for x in ast.walk(n.func.body)):
                uses = {p_.arg: sum(1 for x in ast.walk(n.func.body) if isinstance(x, ast.Name) and x.id == p_.arg) for p_ in la.args}
                if all(_is_pure(a, reads_ok=True) or uses[p_.arg] <= 1 for p_, a in zip(la.args, n.args)):
                    t_ = _SubstAll({p_.arg: a for p_, a in zip(la.args, n.args)})
                    t_._top = n
                    return self.visit(t_.visit(copy.deepcopy(n.func.body)))
        # next((E(r) for r in <literal rows> if C(r)), D)  ->  E(r1) if C(r1) else (E(r2) if C(r2) else ... D)     (the first matching row of a literal table)
        if isinstance(n.func, ast.Name) and n.func.id == "next" and len(n.args) == 2 and not n.keywords and isinstance(n.args[0], ast.GeneratorExp) and len(n.args[0].generators) == 1:
            g = n.args[0].generators[0]
            rows = self._rows_of(g.iter)
            names = [g.target.id] if isinstance(g.target, ast.Name) else ([x.id for x in g.target.elts] if isinstance(g.target, ast.Tuple) and all(isinstance(x, ast.Name) for x in g.target.elts) else None)
            if rows is not None and 1 <= len(rows) <= 8 and names is not None and len(g.ifs) == 1 and not g.is_async and _is_pure(g.ifs[0], reads_ok=True) and _is_pure(n.args[0].elt, reads_ok=True):
                chain, ok_ = n.args[1], True
                for e in reversed(rows):
                    vals = [e] if isinstance(g.target, ast.Name) else (list(e.elts) if isinstance(e, ast.Tuple) and len(e.elts) == len(names) else None)
                    if vals is None or not all(isinstance(v, (ast.Constant, ast.Name)) for v in vals):
                        ok_ = False
                        break
                    t_ = _SubstAll(dict(zip(names, vals)))
                    t_._top = n
                    test = _FoldConst().visit(t_.visit(copy.deepcopy(g.ifs[0])))
                    t2 = _SubstAll(dict(zip(names, vals)))
                    t2._top = n
                    chain = ast.IfExp(test=test, body=t2.visit(copy.deepcopy(n.args[0].elt)), orelse=chain)
                if ok_:
                    return ast.copy_location(chain, n)
        # tuple(E(v) for v in (a, b)) -> (E(a), E(b))     list(...) likewise
        if isinstance(n.func, ast.Name) and n.func.id in ("tuple", "list") and len(n.args) == 1 and not n.keywords and isinstance(n.args[0], (ast.GeneratorExp, ast.List)):
            elts = self._expanded(n.args[0]) if isinstance(n.args[0], ast.GeneratorExp) else list(n.args[0].elts)
            if elts is not None:
                return ast.copy_location((ast.Tuple if n.func.id == "tuple" else ast.List)(elts=elts, ctx=ast.Load()), n)
        # f(**dict(a=x)) / f(**{'a': x}) -> f(a=x)
        if any(k.arg is None for k in n.keywords):
            kws = []
            for k in n.keywords:
                one = _expand_kwargs([k]) if k.arg is None else [k]
                kws.extend(one if one is not None else [k])
            if len({k.arg for k in kws if k.arg is not None}) == len([k for k in kws if k.arg is not None]):
                n.keywords = kws
        # f(*(a, b)) -> f(a, b)
        if any(isinstance(a, ast.Starred) and isinstance(a.value, (ast.Tuple, ast.List)) for a in n.args):
            args = []
            for a in n.args:
                if isinstance(a, ast.Starred) and isinstance(a.value, (ast.Tuple, ast.List)):
                    args.extend(a.value.elts)
                else:
                    args.append(a)
            n.args = args
        return n

    @staticmethod
    def _expanded(comp):
        """`E(v) for v in (a, b, c)` (a literal of at most four simple elements, no filter) as the list of E(a), E(b), E(c); None if it is not of that shape"""
        if len(comp.generators) != 1:
            return None
        g = comp.generators[0]
        rows = _Small._rows_of(g.iter)
        if g.ifs or g.is_async or rows is None or not (1 <= len(rows) <= 4):
            return None
        names = [g.target.id] if isinstance(g.target, ast.Name) else ([x.id for x in g.target.elts] if isinstance(g.target, ast.Tuple) and all(isinstance(x, ast.Name) for x in g.target.elts) else None)
        if names is None:
            return None
        out = []
        for e in rows:
            vals = [e] if isinstance(g.target, ast.Name) else (list(e.elts) if isinstance(e, ast.Tuple) and len(e.elts) == len(names) else None)
            if vals is None or not all(isinstance(v, (ast.Constant, ast.Name)) or (_is_pure(v, reads_ok=True) and not any(isinstance(x, (ast.Call, ast.Lambda, ast.Starred)) for x in ast.walk(v))) for v in vals):
                return None
            t_ = _SubstAll(dict(zip(names, vals)))
            t_._top = comp
            out.append(t_.visit(copy.deepcopy(comp.elt)))
        return out

    def visit_ListComp(self, n):
        self.generic_visit(n)
        elts = self._expanded(n)
        return ast.copy_location(ast.List(elts=elts, ctx=ast.Load()), n) if elts is not None else n

    def visit_Subscript(self, n):
        self.generic_visit(n)
        # x[slice(a, b)] -> x[a:b]   (also inside a tuple index)
        def as_slice(e):
            if isinstance(e, ast.Call) and isinstance(e.func, ast.Name) and e.func.id == "slice" and not e.keywords and 1 <= len(e.args) <= 3 and not any(isinstance(a, ast.Starred) for a in e.args):
                a = list(e.args)
                if len(a) == 1:
                    a = [None, a[0]]
                a = [None if isinstance(x, ast.Constant) and x.value is None else x for x in a] + [None]
                return ast.Slice(lower=a[0], upper=a[1], step=a[2])
            return e

        if isinstance(n.slice, ast.Tuple):
            n.slice = ast.Tuple(elts=[as_slice(e) for e in n.slice.elts], ctx=ast.Load())
        else:
            n.slice = as_slice(n.slice)
        return n

    def visit_Lambda(self, n):
        self.generic_visit(n)
        # lambda x: f(x) -> f   (f an attribute / name that does not mention x)
        a = n.args
        if len(a.args) == 1 and not (a.defaults or a.kwonlyargs or a.vararg or a.kwarg or a.posonlyargs) and isinstance(n.body, ast.Call) and not n.body.keywords \
                and len(n.body.args) == 1 and isinstance(n.body.args[0], ast.Name) and n.body.args[0].id == a.args[0].arg and isinstance(n.body.func, (ast.Attribute, ast.Name)) \
                and not any(isinstance(x, ast.Name) and x.id == a.args[0].arg for x in ast.walk(n.body.func)):
            return n.body.func
        return n


class _FoldConst(ast.NodeTransformer):
    """comparisons of two literals decide themselves; a conditional on a literal is its branch (after a loop variable was replaced by the literal it stood for)"""

    def visit_Compare(self, n):
        self.generic_visit(n)
        if len(n.ops) == 1 and isinstance(n.left, ast.Constant) and isinstance(n.comparators[0], ast.Constant) and isinstance(n.ops[0], (ast.Eq, ast.NotEq, ast.Is, ast.IsNot)):
            same = n.left.value == n.comparators[0].value and type(n.left.value) is type(n.comparators[0].value)
            return ast.copy_location(ast.Constant(value=same if isinstance(n.ops[0], (ast.Eq, ast.Is)) else not same), n)
        return n

    def visit_IfExp(self, n):
        self.generic_visit(n)
        if isinstance(n.test, ast.Constant) and isinstance(n.test.value, bool):
            return n.body if n.test.value else n.orelse
        return n

    def visit_Subscript(self, n):
        self.generic_visit(n)
        # (a, b, c)[2] -> c     (a literal tuple of pure elements indexed by a literal)
        if isinstance(n.ctx, ast.Load) and isinstance(n.value, ast.Tuple) and isinstance(n.slice, ast.Constant) and isinstance(n.slice.value, int) and not isinstance(n.slice.value, bool) \
                and -len(n.value.elts) <= n.slice.value < len(n.value.elts) and all(_is_pure(e, reads_ok=True) and not isinstance(e, ast.Starred) for e in n.value.elts):
            return n.value.elts[n.slice.value]
        return n

    def visit_Call(self, n):
        self.generic_visit(n)
        # '_'.join(('a', 'b'))  ->  'a_b'
        if isinstance(n.func, ast.Attribute) and n.func.attr == "join" and isinstance(n.func.value, ast.Constant) and isinstance(n.func.value.value, str) and len(n.args) == 1 and not n.keywords \
                and isinstance(n.args[0], (ast.Tuple, ast.List)) and n.args[0].elts and all(isinstance(e, ast.Constant) and isinstance(e.value, str) for e in n.args[0].elts):
            return ast.copy_location(ast.Constant(value=n.func.value.value.join(e.value for e in n.args[0].elts)), n)
        # getattr(obj, 'name')  ->  obj.name
        if isinstance(n.func, ast.Name) and n.func.id == "getattr" and len(n.args) == 2 and not n.keywords and isinstance(n.args[1], ast.Constant) and isinstance(n.args[1].value, str) \
                and n.args[1].value.isidentifier():
            return ast.copy_location(ast.Attribute(value=n.args[0], attr=n.args[1].value, ctx=ast.Load()), n)
        return n

    def visit_BinOp(self, n):
        # '%s%s' % ('name', i)  ->  'name%s' % i     (only plain %s fields; literal text arguments are written into the format)
        self.generic_visit(n)
        # (a,) + (b, c)  ->  (a, b, c)
        if isinstance(n.op, ast.Add) and isinstance(n.left, ast.Tuple) and isinstance(n.right, ast.Tuple) and not any(isinstance(e, ast.Starred) for e in n.left.elts + n.right.elts):
            return ast.copy_location(ast.Tuple(elts=n.left.elts + n.right.elts, ctx=ast.Load()), n)
        if isinstance(n.op, ast.Mod) and isinstance(n.left, ast.Constant) and isinstance(n.left.value, str) and isinstance(n.right, ast.Tuple) \
                and any(isinstance(e, ast.Constant) and isinstance(e.value, str) for e in n.right.elts):
            import re as _re

            parts = _re.split(r"(%%|%s)", n.left.value)
            fields = [i for i, p_ in enumerate(parts) if p_ == "%s"]
            if len(fields) == len(n.right.elts) and not _re.search(r"%(?![s%])", n.left.value) and not any(isinstance(e, ast.Starred) for e in n.right.elts):
                rest = []
                for i, e in zip(fields, n.right.elts):
                    if isinstance(e, ast.Constant) and isinstance(e.value, str):
                        parts[i] = e.value.replace("%", "%%")
                    else:
                        rest.append(e)
                fmt = ast.copy_location(ast.Constant(value="".join(parts)), n.left)
                if not rest:
                    return ast.copy_location(ast.Constant(value="".join(parts).replace("%%", "%")), n)
                right = rest[0] if len(rest) == 1 and not isinstance(rest[0], ast.Tuple) else ast.Tuple(elts=rest, ctx=ast.Load())
                return ast.copy_location(ast.BinOp(left=fmt, op=ast.Mod(), right=right), n)
        return n

    def visit_If(self, n):
        self.generic_visit(n)
        if isinstance(n.test, ast.Constant) and isinstance(n.test.value, bool):
            return (n.body if n.test.value else n.orelse) or [ast.copy_location(ast.Pass(), n)]
        return n


def _lift_attr(n):
    if isinstance(n, ast.IfExp) and isinstance(n.body, ast.Attribute) and isinstance(n.orelse, ast.Attribute) and n.body.attr == n.orelse.attr:
        return ast.copy_location(ast.Attribute(value=ast.IfExp(test=n.test, body=n.body.value, orelse=n.orelse.value), attr=n.body.attr, ctx=ast.Load()), n)
    return n


def _adjacent_def_use(fn):
    """a local every assignment of which is directly followed by the one statement that reads it (and that is read nowhere else) is written out there"""
    table = _statements(fn)
    defs, loads, other = {}, {}, set()
    for st, order, loops, in_try, body, i in table:
        nested = isinstance(st, (ast.FunctionDef, ast.AsyncFunctionDef, ast.ClassDef))
        for n in _own_nodes(st):
            if isinstance(n, ast.Name):
                if isinstance(n.ctx, ast.Load):
                    loads[n.id] = loads.get(n.id, 0) + 1
                elif isinstance(st, ast.Assign) and len(st.targets) == 1 and st.targets[0] is n and not in_try and not nested:
                    defs.setdefault(n.id, []).append((body, i, st))
                else:
                    other.add(n.id)
            elif isinstance(n, ast.arg):
                other.add(n.arg)
    moves = []
    for k, ds in defs.items():
        if k in other or loads.get(k, 0) != len(ds) or len(ds) < 2:
            continue
        ok = True
        for body, i, st in ds:
            nxt = body[i + 1] if i + 1 < len(body) else None
            if nxt is None or any(isinstance(x, ast.Name) and x.id == k for x in ast.walk(st.value)):
                ok = False
                break
            heads = [nxt] if not hasattr(nxt, "body") else [h for h in (getattr(nxt, "test", None), getattr(nxt, "iter", None)) if h is not None]
            cnt = sum(1 for h in heads for x in _walk_no_defs(h) if isinstance(x, ast.Name) and x.id == k and isinstance(x.ctx, ast.Load))
            inner = any(isinstance(x, (ast.ListComp, ast.GeneratorExp, ast.SetComp, ast.DictComp)) and any(isinstance(y, ast.Name) and y.id == k for y in ast.walk(x)) for h in heads for x in ast.walk(h))
            if cnt != 1 or inner:
                ok = False
                break
        if ok:
            moves.extend((k, body, st) for body, i, st in ds)
    for k, body, st in moves:
        i = next(j for j, x in enumerate(body) if x is st)
        nxt = body[i + 1]
        t = _SubstAll({k: st.value})
        t._top = fn
        if hasattr(nxt, "body"):
            for fld in ("test", "iter"):
                if getattr(nxt, fld, None) is not None:
                    setattr(nxt, fld, t.visit(getattr(nxt, fld)))
        else:
            body[i + 1] = t.visit(nxt)
        del body[i]
    ast.fix_missing_locations(fn)
    return fn


def close_paths(fn):
    """canonical function with every local that is assigned once to a plain attribute path (`_counts = self._data`) written out as that path, even if the
    object behind it is stored to later. For *finding* what a function does to which attribute; not a statement about values."""
    fn = copy.deepcopy(fn)
    for _ in range(4):
        table = _statements(fn)
        stores, value, loads = {}, {}, {}
        for st, order, loops, in_try, body, i in table:
            nested = isinstance(st, (ast.FunctionDef, ast.AsyncFunctionDef, ast.ClassDef))
            for n in _own_nodes(st):
                if isinstance(n, ast.Name) and isinstance(n.ctx, ast.Load):
                    loads[n.id] = loads.get(n.id, 0) + 1
                elif isinstance(n, ast.Name) and not nested:
                    stores[n.id] = stores.get(n.id, 0) + 1
                    if isinstance(st, ast.Assign) and len(st.targets) == 1 and st.targets[0] is n:
                        value[n.id] = st.value
                elif isinstance(n, ast.arg):
                    stores[n.arg] = stores.get(n.arg, 0) + 2
        sel = {}
        # (a path that is *rebound* in the function - `self._x = []` - is not written out: the local keeps the object the path named before)
        rebound, last_use = {}, {}
        for st, order, loops, in_try, body, i in table:
            if isinstance(st, (ast.Assign, ast.AugAssign)):
                for t in (st.targets if isinstance(st, ast.Assign) else [st.target]):
                    for t2 in (t.elts if isinstance(t, ast.Tuple) else [t]):
                        if isinstance(t2, ast.Attribute):
                            rebound.setdefault(txt(t2), []).append((order, loops))
            for n in _own_nodes(st):
                if isinstance(n, ast.Name) and isinstance(n.ctx, ast.Load):
                    last_use[n.id] = (max(last_use.get(n.id, (-1, ()))[0], order), tuple(set(last_use.get(n.id, (-1, ()))[1]) | set(loops)))
        for k, v in value.items():
            e = v
            while isinstance(e, ast.Attribute):
                e = e.value
            if stores.get(k) == 1 and loads.get(k, 0) > 0 and isinstance(v, ast.Attribute) and isinstance(e, ast.Name) and e.id in ("self", "cls"):
                lu, lloops = last_use.get(k, (-1, ()))
                # every use of the local comes before the first rebinding of the path (and does not share a loop with it)
                if all(lu < o and not (set(l) & set(lloops)) for o, l in rebound.get(txt(v), [])):
                    sel[k] = v
        if not sel:
            break
        fn = _Drop(sel).visit(fn)
        fn = _SubstAll(sel).visit(fn)
        ast.fix_missing_locations(fn)
    fn._canonical = True
    return fn


def _merge_copy_chains(fn):
    """`b = a; <only b is worked on>; a = b`  ->  work on `a` directly (also `b = <init>; ...; a = b` when `a` does not occur in between and `b` not afterwards).
    This is what a by-value accumulator looks like after the helper that takes and returns it has been written out at its call site."""
    changed = True
    rounds = 0
    while changed and rounds < 12:
        changed = False
        rounds += 1
        params = {a.arg for a in fn.args.args + fn.args.kwonlyargs + fn.args.posonlyargs}
        occ = {}
        for n in ast.walk(fn):
            if isinstance(n, ast.Name):
                occ[n.id] = occ.get(n.id, 0) + 1
        for blk in _blocks_of(fn):
            for j, st in enumerate(blk):
                if not (isinstance(st, ast.Assign) and len(st.targets) == 1 and isinstance(st.targets[0], ast.Name) and isinstance(st.value, ast.Name)):
                    continue
                a, b = st.targets[0].id, st.value.id
                if a == b or b in params or b in ("self", "cls"):
                    continue
                # every occurrence of b lies in blk[i0:j] (plus this copy)
                inside = [sum(1 for x in ast.walk(s_) if isinstance(x, ast.Name) and x.id == b) for s_ in blk[:j]]
                if sum(inside) + 1 != occ.get(b, 0) or not any(inside):
                    continue
                i0 = next(i for i, c in enumerate(inside) if c)
                first = blk[i0]
                if not (isinstance(first, ast.Assign) and len(first.targets) == 1 and isinstance(first.targets[0], ast.Name) and first.targets[0].id == b):
                    continue
                if any(isinstance(x, (ast.FunctionDef, ast.Lambda)) for s_ in blk[i0:j] for x in ast.walk(s_)):
                    continue
                # a does not occur in between, except as the value b starts from
                a_occ = sum(1 for s_ in blk[i0:j] for x in ast.walk(s_) if isinstance(x, ast.Name) and x.id == a)
                starts_from_a = isinstance(first.value, ast.Name) and first.value.id == a
                if a_occ != (1 if starts_from_a else 0):
                    continue
                ren = _Rename({b: a})
                new = [ren.visit(s_) for s_ in blk[i0:j]]
                if starts_from_a:
                    new = new[1:]
                blk[i0:j + 1] = new or [ast.Pass()]
                changed = True
                break
            if changed:
                break
    ast.fix_missing_locations(fn)
    return fn


def _blocks_of(fn):
    out = []

    def scan(body):
        out.append(body)
        for st in body:
            if isinstance(st, (ast.FunctionDef, ast.AsyncFunctionDef, ast.ClassDef)):
                continue
            for fld in ("body", "orelse", "finalbody"):
                b = getattr(st, fld, None)
                if isinstance(b, list) and b and isinstance(b[0], ast.stmt):
                    scan(b)
            if isinstance(st, ast.Try):
                for h in st.handlers:
                    scan(h.body)

    scan(fn.body)
    return out
