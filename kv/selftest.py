"""Mutant / twin self-test of the checkers (thorough tier). Still static: a mutant is a *source text* variant of one
file, analysed in memory (Program(overrides=...)); nothing is executed and nothing is written to disk.

Each mutant is (property, name, file, old text, new text, expectation). The old text is located in the current tree;
a mutant whose anchor text is gone is skipped (counted), and at least `MIN_APPLIED` fraction must apply.
expectation: substring of a violation key that must be reported, or None for a behaviour-preserving twin that must be silent.
"""
import os
from concurrent.futures import ProcessPoolExecutor

from .srcmodel import AnalysisError

MIN_APPLIED = 0.6


class M:
    def __init__(self, prop, name, file, old, new, expect, extra=None):
        # extra: further (file, old, new) edits applied together with the first one
        self.prop, self.name, self.file, self.old, self.new, self.expect, self.extra = prop, name, file, old, new, expect, list(extra or [])


def catalogue(prop):
    import importlib

    out = []
    try:
        mod = importlib.import_module("kv.mutants.%s" % prop.lower())
    except ModuleNotFoundError:
        return out
    for t in mod.MUTANTS:
        out.append(M(prop, *t))
    return out


def _run_one(args):
    prop, root, m_name, file, old, new, expect, baseline_keys, extra = args
    from .driver import run_property

    overrides = {}
    for fl, o, nw in [(file, old, new)] + list(extra):
        if fl not in overrides:
            with open(os.path.join(root, fl), encoding="utf8") as f:
                overrides[fl] = f.read()
        if overrides[fl].count(o) < 1:
            return (m_name, "skip", "anchor text not found")
        overrides[fl] = overrides[fl].replace(o, nw, 1)
    try:
        R, _ = run_property(prop, "quick", root, quiet=True, overrides=overrides)
        keys = {o.key for o in R.violations()}
        for a_ in getattr(R, "analysis_errors", []):
            keys.add("ANALYSIS-ERROR:%s" % a_)
        try:
            R.check_floors()
        except AnalysisError as e:
            keys.add("ANALYSIS-ERROR:%s" % e)
    except AnalysisError as e:
        keys = {"ANALYSIS-ERROR:%s" % e}
    except SyntaxError as e:
        return (m_name, "skip", "mutant does not parse: %s" % e)
    new_keys = sorted(k for k in keys if k not in baseline_keys)
    if expect is None:
        return (m_name, "ok" if not new_keys else "noise", new_keys[:3])
    alts = expect if isinstance(expect, (tuple, list)) else (expect,)
    hit = [k for k in new_keys if any(a in k for a in alts)]
    return (m_name, "ok" if hit else "miss", new_keys[:3])


def run_selftest(prop, root, jobs=None):
    from .driver import run_property

    cat = catalogue(prop)
    if not cat:
        return {"selftest": "no mutant catalogue for %s" % prop}
    R, _ = run_property(prop, "quick", root, quiet=True)
    baseline = {o.key for o in R.violations()}
    jobs = jobs or min(16, os.cpu_count() or 4)
    args = [(prop, root, m.name, m.file, m.old, m.new, m.expect, baseline, m.extra) for m in cat]
    with ProcessPoolExecutor(max_workers=jobs) as ex:
        results = list(ex.map(_run_one, args, chunksize=1))
    res = {"ok": 0, "miss": 0, "noise": 0, "skip": 0}
    problems = []
    for name, status, detail in results:
        res[status] += 1
        if status in ("miss", "noise"):
            problems.append("SELFTEST-%s %s %s: %s" % (status.upper(), prop, name, detail))
        elif status == "skip":
            print("  selftest skip %s: %s" % (name, detail))
    print("  selftest %s: %d mutants/twins: %s" % (prop, len(cat), res))
    for p in problems:
        print(p)
    if problems:
        raise AnalysisError("self-test of the %s checker failed (%d problems): the checker is broken, nothing is claimed" % (prop, len(problems)))
    if res["ok"] < MIN_APPLIED * len(cat):
        raise AnalysisError("self-test: only %d of %d mutants applied to the current tree" % (res["ok"], len(cat)))
    return {"selftest": {"mutants_and_twins": len(cat), **res, "names": [m.name for m in cat]}}
