"""Bundles the parsed program, effect summaries, CFG cache and the path predicates shared by the rules."""
import ast

from .cfg import CFG
from .config import make_effects
from .effects import is_self, walk_no_nested
from .srcmodel import AnalysisError, FuncInfo, Program, norm_stmt

__all__ = ["Engine", "AnalysisError", "norm_stmt"]


class Engine:
    def __init__(self, root, overrides=None, canonical=None):
        import os

        self.root = root
        self.p = Program(root, overrides=overrides)
        self._canon = None
        self.canonical = bool(int(os.environ.get("KV_CANONICAL", "1"))) if canonical is None else canonical
        if self.canonical:
            # analyse the canonical program: every function body is replaced by its canonical form before effects / CFGs / rules look at it
            from .canon import Canon

            self._canon = Canon(self.p)
            fs = list(self.p.all_functions())
            new = [(f, self._canon.fn(f)) for f in fs]
            self.source_nodes = {id(f): f.node for f in fs}
            for f, n in new:
                f.node = n
            self._canon_sanity(fs)
        self.eff = make_effects(self.p)
        from .rules import cache as _cache

        _cache.ABSORBED[0] = self.absorbed if self.canonical else None
        self._cfgs = {}
        self._must = {}
        self._ccfgs = {}

    @staticmethod
    def _canon_sanity(fs):
        """fail closed on a canonicaliser defect: a local that comes from a written-out helper (its name carries the helper's) and is read must be bound in the function"""
        for f in fs:
            bound, loaded = set(), set()
            for n in ast.walk(f.node):
                if isinstance(n, ast.Name):
                    (loaded if isinstance(n.ctx, ast.Load) else bound).add(n.id)
                elif isinstance(n, ast.arg):
                    bound.add(n.arg)
                elif isinstance(n, (ast.FunctionDef, ast.ClassDef)):
                    bound.add(n.name)
                elif isinstance(n, ast.ExceptHandler) and n.name:
                    bound.add(n.name)
            dangling = sorted(k for k in loaded - bound if "__" in k and not k.startswith("__"))
            if dangling:
                raise AnalysisError("canonical form of %s reads %s, which it never binds (defect of the canonicaliser - nothing is claimed)" % (f.qualname, dangling))

    def cfg(self, func, extra_raises=None):
        if extra_raises is not None:
            return CFG(func.node, extra_raises)
        k = id(func)
        c = self._cfgs.get(k)
        if c is None:
            c = CFG(func.node)
            self._cfgs[k] = c
        return c

    # ---------------------------------------------------------------- canonical form (kv/canon.py)
    @property
    def canon(self):
        if self._canon is None:
            from .canon import Canon

            self._canon = Canon(self.p)
        return self._canon

    def cnode(self, func, paths=False, inline=True):
        """canonical tree of the function: single-use private helpers written out, aliases resolved, exits / negations / keyword arguments in one form.
        paths=True: locals that only name an attribute path (`_counts = self._data`) are written out as well (see canon.close_paths)"""
        if self.canonical and inline:
            if not paths:
                return func.node
        elif not inline:
            return self.canon.fn(self._source_func(func), inline=False)
        elif not paths:
            return self.canon.fn(func)
        k = ("paths", id(func))
        n = self._ccfgs.get(k)
        if n is None:
            from .canon import close_paths

            n = close_paths(func.node if self.canonical else self.canon.fn(func))
            self._ccfgs[k] = n
        return n

    def _source_func(self, func):
        """FuncInfo with the source tree as written (the canonical program keeps it in source_nodes)"""
        if not self.canonical or id(func) not in getattr(self, "source_nodes", {}):
            return func
        k = ("src", id(func))
        c = self._ccfgs.get(k)
        if c is None:
            c = FuncInfo(func.name, func.cls, func.module, self.source_nodes[id(func)], func.kind, func.prop)
            self._ccfgs[k] = c
        return c

    def cfunc(self, func, paths=True):
        """the function with its canonical tree as `.node` (same name / class / module): rules written against FuncInfo work on it unchanged"""
        from .srcmodel import FuncInfo

        if getattr(func, "_is_canonical", False) if hasattr(func, "_is_canonical") else False:
            return func
        if self.canonical and not paths:
            return func
        k = ("cfunc", id(func), paths)
        c = self._ccfgs.get(k)
        if c is None:
            c = FuncInfo(func.name, func.cls, func.module, self.cnode(func, paths), func.kind, func.prop)
            self._ccfgs[k] = c
            self._keep = getattr(self, "_keep", [])
            self._keep.append(func)
        return c

    def absorbed(self, func):
        """True if the function is a private helper whose every reference is a call that the canonical form of the caller has written out (it is then analysed
        as part of its callers and not on its own)"""
        return self.canon.absorbed(func)

    def csrc(self, func):
        if self.canonical:
            from .rules.common import Src

            return Src(" ".join(ast.unparse(func.node).split()))
        return self.canon.src(func)

    def ccfg(self, func, paths=False):
        k = (id(func), paths)
        c = self._ccfgs.get(k)
        if c is None:
            c = CFG(self.cnode(func, paths))
            self._ccfgs[k] = c
        return c

    # ---------------------------------------------------------------- call matching on CFG nodes
    @staticmethod
    def calls_in_parts(parts):
        for part in parts:
            for n in walk_no_nested(part):
                if isinstance(n, ast.Call):
                    yield n

    @staticmethod
    def call_attr(call):
        return call.func.attr if isinstance(call.func, ast.Attribute) else (call.func.id if isinstance(call.func, ast.Name) else None)

    def node_calls_self_method(self, node, names, selfname="self"):
        """CFG node contains self.<name>(...) / super().<name>(...) / K.<name>(self, ...) for name in names"""
        for c in self.calls_in_parts(node.ast_parts()):
            f = c.func
            if isinstance(f, ast.Attribute) and f.attr in names:
                v = f.value
                if is_self(v, selfname):
                    return True
                if isinstance(v, ast.Call) and isinstance(v.func, ast.Name) and v.func.id == "super":
                    return True
                if c.args and is_self(c.args[0], selfname):
                    return True
        return False

    def must_call(self, ctx, func, direct_pred, same_object=True, _stack=()):
        """Every normal path ENTRY->EXIT of func passes a CFG node for which direct_pred(node) holds, or which
        contains a resolved call (on the same object if same_object) to a function that itself must_call.
        Functions without a normal exit (always raise) vacuously satisfy this."""
        key = (id(ctx), id(func), direct_pred)  # holds the predicate: ids of dead closures get reused
        if key in self._must:
            return self._must[key]
        if key in _stack:
            return False
        g = self.cfg(func)
        sat = self.satisfying_nodes(ctx, func, direct_pred, same_object, _stack + (key,))
        ok, _ = g.all_paths_pass(g.entry.id, lambda n: n.id in sat)
        self._must[key] = ok
        return ok

    def satisfying_nodes(self, ctx, func, direct_pred, same_object=True, _stack=()):
        g = self.cfg(func)
        sat = set()
        summ = self.eff.summary(ctx, func)
        by_node = {}
        for cs in summ.calls:
            by_node.setdefault(id(cs.node), []).append(cs)
        for n in g.stmt_nodes():
            if direct_pred(n):
                sat.add(n.id)
                continue
            found = False
            for part in n.ast_parts():
                for sub in walk_no_nested(part):
                    for cs in by_node.get(id(sub), ()):
                        if same_object and cs.prefix != "":
                            continue
                        if cs.targets and all(self.must_call(c2, f2, direct_pred, same_object, _stack) for c2, f2 in cs.targets):
                            found = True
                            break
                    if found:
                        break
                if found:
                    break
            if found:
                sat.add(n.id)
        return sat

    # ---------------------------------------------------------------- misc
    def where(self, func, node=None):
        return (func.file, getattr(node, "lineno", None) or func.lineno)

    def functions_of_family(self, base_cls, own_only=True):
        """(cls, FuncInfo) for every function defined in base_cls or any subclass."""
        out = []
        for c in base_cls.concrete_leafs():
            for f in c.methods.values():
                out.append((c, f))
            for pr in c.props.values():
                for f in (pr.fget, pr.fset, pr.fdel):
                    if f is not None and f.cls is c:
                        out.append((c, f))
        return out


def path_text(func, path):
    return ["%s:%s %s" % (func.file, n.lineno, (norm_stmt(n.expr if n.expr is not None and n.kind != "stmt" else n.stmt)[:90] if n.stmt is not None else n.kind)) for n in path if n.kind not in ("join",)]
