"""Per-property manifest texts (level, note, technique). Source of /verif/MANIFEST.json via tools/gen_manifest.py."""

TOL_NOTE = (" Every check also runs the tolerance census T-tol over the property's anchor modules: a tolerance comparison (allclose / isclose / array_equiv) in a decision position must be in "
            "the reviewed table. All rules are decided on the canonical program (kv/canon.py, DESIGN.md section 11): private helpers used once (or small ones used a few times) are written out "
            "at their call sites, single-assignment temporaries are resolved where that cannot change the order of effects, early exits / negated tests / keyword arguments are brought "
            "into one form, and the remaining locals are matched by placeholders - so that a rule decides what a function does, not how it is written down.")
NOT_YET = "no check registered yet in this revision of /verif (static rules for it are designed in DESIGN.md but not armed)"

NOT_APPLICABLE = {
    "C05": "equality of a numerical minimiser's output with the closed-form GLS estimate quantifies over runtime floating-point values; "
           "no sound static argument in reach bounds it, and its structural clauses (wiring, covariance formula, index bookkeeping) are owned by C01/C07/C06",
    "C15": "permutation/unit covariance of numerical fit results is a statement about runtime values; the only code-shape clauses "
           "(index bookkeeping between full and free parameter vectors) are decided under C06/C07",
}

CLAIMED = {
    "C04": {
        "text": "Static per-method proof obligations of the Nexus invalidation protocol, decided on the CFG of every method of every node class found in "
                "kafe2/core/fitters/nexus.py: structural edits register the parent link and mark the node (B1), raw staleness writes notify parents (B2), "
                "value setters notify and update() overrides produce the value through .value reads and clear the flag, evaluating the function once (B3), "
                "value getter updates exactly under (stale and not frozen) (B6), mark_for_update/notify_parents have the stop condition that carries the "
                "invariant 'stale => ancestors stale or frozen' (B4), every Nexus edit ends in a cycle check (B5), Function keeps parameters in sync (B7). "
                "These are necessary conditions of 'reads equal a from-scratch evaluation': each broken obligation yields a concrete stale read. Added: (B10) replace_child substitutes the node at every position; (B11) a rejected cyclic dependency takes back exactly the edges it added; (B4a, second half) a node that is already stale still forwards a notification when an ancestor may be fresh - the whole chain left stale by a failed update under a Fallback, not only its top (flag protocol: Fallback handler -> recursive flagging -> forwarding branch).",
        "note": "Decides the per-method obligations, not the global state-machine correctness over arbitrary graphs (a model-checking statement outside this "
                "technique family). Trusted: Python semantics of attribute stores; weakref parent sets behave as sets.",
        "technique": "custom AST/CFG must-pass-through and guard-condition rules over the resolved node class hierarchy",
    },
    "C11": {
        "category": "other",
        "text": "Structural clauses of 'sum of its parts / joint fit': without shared errors every member contributes exactly one cost alias and MultiCostFunction.cost_sum "
                "is the plain sum of its arguments (no determinant of its own; the combined log-determinant is the sum of the members'); with shared errors one loop "
                "partitions the members by is_chi2 - chi2 members take consecutive data slots and contribute y data / y model / y covariance / x covariance / derivative "
                "nodes exactly once and no own cost, the others keep cost<i>, the shared cost enters once and the constraint cost of the sharing members is kept; every "
                "combined parameter node replaces the same-named node in every member graph; concatenation and diagonal blocks use consecutive edges for rows and "
                "columns; shared sources are accumulated (+=) into both transposed off-diagonal blocks, guarded by enabled and axis, with edges looked up through the "
                "fit-index -> data-slot map; the joint covariance is y + x o outer(d, d); _update_singular_fits post-dominates result production in do_fit and "
                "asymmetric_parameter_errors and hands each member the sub-blocks at the positions of its own parameter names; fix / release are mirrored into members. Added: chi2-capable member classes provide the nodes the partition aliases (P-nodes, one known finding: HistFit); the smallest x uncertainty is read from the live joint x covariance and the slopes depend on it.",
        "note": "Numerical equivalence with a joint fit of the concatenated data is not decided. Several wiring clauses are shape rules over the whitespace-normalised "
                "statements of MultiFit._init_nexus / _init_shared_error_nodes; the accumulation, symmetry, guard and index-map clauses are structural (they accept the "
                "refactoring of the block loop into slices).",
        "technique": "structural AST rules + CFG post-dominance + canonical-form comparison of the covariance formulas",
    },
    "C12": {
        "text": "Typestate and path rules on kafe2/fit/histogram/container.py, decided on the CFG of each function: every reader of the count array is "
                "dominated by a flush of pending entries (or adds the pending count itself); underflow/bins/overflow use the filler's index convention; "
                "in the single-pass filler the entry/edge comparison is `>=` (half-open bins, checked as an ordering over def-use roles, not as text), "
                "every enumerated loop path that consumes an entry increments exactly one count by one and records the entry as processed, leftovers are "
                "added to the overflow with their number, the pending list is cleared; rebin zeroes the counts and re-queues all processed entries "
                "before clearing them. Each is a necessary condition of 'every entry counted exactly once, independent of batching and reads'. Added: a vectorised filler is accepted iff every bin index comes from a look-up over the stored edges (searchsorted side='right' / digitize), never from arithmetic on (x - low) / width (G5).",
        "note": "Independence of batching as a dynamic statement follows from these plus sorting and is not re-proved. A rewrite of the filler into a "
                "different algorithm (e.g. np.searchsorted) is reported as ANALYSIS-ERROR (idiom not recognised), never as a violation.",
        "technique": "typestate (flush-before-read) dominance check + path enumeration over the filler loop with def-use role inference",
    },
    "C02": {
        "text": "Cache coherence of the container layer decided for all 8 container / parametric-model classes over every function visible on them: "
                "inputs of the cached total error are derived from the transitive read set of _calculate_total_error and of the error-reference callable; "
                "every direct write site of an input must reach `self._total_error = None` on all normal paths (Ctot); writers of the value store must "
                "reset the source references of the written axis (Csrc); raw reads of lazily recomputed model values must be dominated by the stale check, "
                "directly or in all callers (Cpm); the total is summed after the lazy values were refreshed (Cfirst); accumulation loops skip disabled "
                "sources (D7); CovMat writers clear each derived cache (Ccov); lazy getters test the field they return (Clazy); the reference setter "
                "clears the opposite representation (Cref). Each obligation is a necessary condition of 'total = sum of enabled sources at the current "
                "reference after any history'. Added: canonical forms of the per-source covariance, of the matrix conversions (read through helpers of the same class) and of the total; err / cor_mat / inverse read from the same total.",
        "note": "Numerical clauses (symmetry/PSD, floating-point exactness of disable->enable, the covariance formula itself) are not decided here. "
                "Direct mutation of error objects obtained through get_error() is outside the statement (documented as requiring a manual cache clear). "
                "Reasoned exemptions are listed in kv/rules/c02.py (EXEMPT_*).",
        "technique": "interprocedural read/write effect summaries + CFG must-pass-through (writer -> invalidator), dominance (reader <- stale check)",
    },
    "C17": {
        "category": "other",
        "text": "Structural clauses of 'displayed numbers are faithful': every print of a fit's stored parameter values / uncertainties (textual report, plot info box; "
                "model-function strings with parameter values) is dominated - in the same function or in all callers, and in the same loop iteration - by the refresh of "
                "that fit's formatters from the live results; the refresh copies parameter_values / parameter_errors / asymmetric errors position by position; do_fit "
                "refreshes before returning; fix / release set the formatter's fixed flag at the parameter's own index and get_formatted tests it before any rounding; "
                "result dictionary, report and preface comment read the live properties under the documented keys (key -> property table); the decimal-place formulas of "
                "ScalarFormatter have the canonical forms decimals = n - 1 - floor(log10 sigma) (recomputed after rounding sigma) and value digits = decimals + "
                "floor(log10|x|) + 1, uncertainties are printed with exactly n significant digits; the regular expression that rewrites scientific notation for LaTeX "
                "can consume every exponent a double can have (language membership on the parsed regex literal) and both number-printing formatters apply it. Added: zero guards of every log10 in the compact table; positional mappings keep their order in the file.",
        "note": "The rounding arithmetic itself (carry cases, half-unit bounds over the float range, behaviour of %g) is numerical and is not decided; the formula rule fixes "
                "the decimal-place expression, whose n-dependence was a genuine defect (fixed). The regex rule decides language membership only - not match priorities or "
                "capture contents.",
        "technique": "CFG dominance with loop-scope condition + key/property tables + canonical-form comparison + regex language membership on re._parser trees",
    },
    "C18": {
        "category": "other",
        "text": "Structural clauses of 'a plot draws the fit's numbers': for the four plot adapters, each of the eight role properties (data/model x, y, xerr, yerr) reads "
                "what its name says - three independent agreements read off the attribute names: axis (x vs y), kind (value vs uncertainty / half width), side (data vs "
                "model); error bars read the *total* uncertainties, histogram markers sit at the bin centres with half the bin width as horizontal bar; draw calls "
                "receive the role properties in the documented slots; the plotted uncertainty is sqrt(sum yerr^2 + Poisson term^2); ratio / residual / pull and the "
                "three band formulas have the documented canonical forms; the curve and the band are evaluated at the same support points; the info box refreshes "
                "the described fit's formatters in the same iteration before printing them and prints cost, ndf, goodness of fit and probability read from the same "
                "fit (multi-fit numbers from the multi-fit). Added: the histogram density curve is scaled with n_entries (transitive reads, through helpers of the adapter and of the fit), never with an in-range count.",
        "note": "Coordinates of matplotlib artists, log axes, figure layout and the numerical value of the error band are not decided. The role agreements rely on the "
                "naming convention of FitBase's public attributes (x_/y_ prefixes, *_error, data/model).",
        "technique": "name-derived role tables + call-slot tables + canonical-form comparison + CFG dominance with loop-scope condition",
    },
    "C19": {
        "text": "Validate-then-commit path rule (R-A) on the CFG of every function executable after construction on 31 anchor classes (fits, containers, "
                "parametric models, Nexus and node classes, NexusFitter, both minimizer adapters, CovMat, error and constraint classes): no rejection point "
                "- explicit escaping raise, same-object call that may reject (depth 2), or call into a validator table confirmed by reading - is reachable "
                "after a node with a state write (interprocedural effects; refreshes inside getters and listed cache/scratch fields do not count) unless a "
                "handler rolls the write back (rollback idioms recognised structurally). Plus a guard-presence table of 44 (entry point, exception, tested "
                "quantity) instances for every invalid-input class named in the statement, matched on the guarding condition with local temporaries expanded. Added: closure-style decorators are modelled (statements the wrapper runs before calling the method count as writes before validation).",
        "note": "Decides: rejected calls cannot have committed state earlier on the same path; the named guards exist. Does not decide that a guard's "
                "predicate is complete for the long tail of malformed values. Library calls (list.index, numpy) are rejection points only where the guard "
                "table says so. Two genuine defects (Nexus.add, Nexus.add_function) are recorded as known findings; reasoned exemptions are in kv/rules/c19.py.",
        "technique": "CFG reachability write ~> rejection with interprocedural effect summaries and rollback-idiom recognition; guard-presence table over guard conditions",
    },
    "C01": {
        "text": "Wiring between cost functions and the Nexus graph, decided on tables reconstructed from the source by constant propagation (no repo object "
                "is created): for each of the 4 fit classes the registry (identifier -> class, kwargs) and for each entry the abstract execution of the "
                "constructor chain yields (handle, formals, wired node names, flags, pointwise twin); the abstract execution of _init_nexus yields the static "
                "node/edge table. Rules: formals = wired names and all wired names are nodes (D1); the determinant node matches the quadratic form and the node "
                "chi2_probability subtracts (D2); the pointwise twin keeps the effective flags (D3); implicit arguments are appended and stripped symmetrically "
                "(D4); y-only XY variants wire y_ nodes only (D5); invalidation callbacks are stored in fields that are read and both containers are hooked (D6); "
                "normalised axis used (D8); the node bound to `model` depends on the parameters (D9); implicit chi2_no_errors switch, tolerance-free diagonality "
                "test and cost selection in do_fit (Dsw; the predicate that lets the pointwise cost stand in for the covariance cost must not read a graph node that depends on the parameter values - it looks at the correlation matrices of the sources of both containers). Each rule is a necessary condition of 'cost = documented -2 log L of exactly the declared inputs'. Added: canonical forms of the projection of x uncertainties onto y (V_y + V_x o outer(f', f') with signed slopes; pointwise in quadrature), of total = data + model, and the wiring of the projected nodes.",
        "note": "Numerical equality of the QR/Cholesky chi2 with r^T V^-1 r, the formulas inside the handles and the numerical derivative of the x-projection "
                "are not decided here. Known, not checked: histogram model-relative uncertainties are relative to the unscaled density integral (FIXME in "
                "kafe2/fit/histogram/fit.py). MultiFit / CustomFit graphs are built from runtime objects and are outside the constant evaluator.",
        "technique": "constant-propagating abstract interpretation of table-building code (registry, constructors, _init_nexus) + name/edge agreement rules",
    },
    "C03": {
        "text": "History independence of fit observables as cache-coherence obligations over the static Nexus graph of each fit class (XY, Indexed, Hist, "
                "Unbinned): for every public entry point E and every observable-reachable property node N, if E writes a hidden input of N's getter (fields of "
                "the data container / parametric model / constraint list, derived from interprocedural read/write effects, getter-internal refreshes and the "
                "lazy parameter push excluded) then N must lie in the dependents-closure of the nodes E marks on every normal path - including marks reached "
                "through the container -> fit callback (Cnx); required graph edges (Cedge); reset of the minimizer clears the did-fit flag (Cfit); mutators drop "
                "loaded results (Cload); the cost node is re-selected when the covariance shape can change (Cmin); the freeze protocol of do_fit is well "
                "bracketed and nothing else freezes nodes (F5); getters write no configuration state (Cget). Added: every fit getter that returns a parameter-dependent quantity of the parametric model pushes the current parameter values first (Cpush).",
        "note": "Equality with a freshly built fit as a numerical statement is not decided; exception paths through the backend between freeze and unfreeze "
                "are out of scope (the property speaks of fits that have run). MultiFit members keep multi-fit results after member-level setters (not checked). "
                "Reasoned exemptions in kv/rules/c03.py (READ_EXEMPT, WRITE_EXEMPT, ENTRY_EXEMPT).",
        "technique": "static Nexus graph by constant propagation + interprocedural effects + must-pass-through marks (callback-aware) per entry point",
    },
    "C10": {
        "text": "Formula-shape rules decided by comparing canonical forms (polynomials with Fraction coefficients over attribute/call atoms; local temporaries "
                "inlined along def-use chains, accumulate-in-loop idiom summarised as SUM, bound variables alpha-normalised): ndf of FitBase, the parametric "
                "model, both constraint classes and MultiFit equals data points - parameters + fixed + constraint measurements; chi2 probability is "
                "1 - chi2.cdf(cost - determinant, ndf) and every determinant subtraction in FitBase/MultiFit.chi2_probability is guarded by the flag saying "
                "the cost contains that term; goodness of fit = full cost with zeroed determinant minus the handle at model := data (argument positions "
                "looked up by the cost function's own names), the Gaussian-approximation override restores its flag; MultiFit overrides keep the base terms. Added: is_diagonal is exact (no tolerance); MultiFit.goodness_of_fit contains the constraint cost of the MultiFit and of members covered by the shared cost; (H-det) the determinant term taken off the cost is the last argument of the cost function of the same fit, for a single fit and for every MultiFit member; (H-pw) the pointwise twin of a cost function is constructed with every constructor argument that selects the nodes the cost reads (axes_to_use); the goodness of fit selects the pointwise twin by a predicate that does not depend on the parameter values (shared with C01 Dsw).",
        "note": "Numerical values are not decided. A formula rewritten with symbols the specification does not mention is reported as ANALYSIS-ERROR "
                "(cannot be judged), never as a violation; a dropped/changed term, coefficient, sign or argument order is a violation.",
        "technique": "expression normalisation to canonical polynomial forms + structural guard rules (no paths, no solver)",
    },
    "C14": {
        "category": "other",
        "text": "Structural clauses of 'equivalent specifications give identical results': every absolute <-> relative and covariance <-> correlation conversion of the "
                "parameter constraints and of the matrix / simple Gaussian error sources is normalised to a canonical polynomial form and compared with the documented "
                "formula per guarded branch; each conversion pair composes to the identity in exact rational arithmetic; all relative <-> absolute conversions of simple "
                "errors use the magnitude of the reference while the covariance uses the signed product (so that it equals the explicit (sigma sigma^T) o rho matrix); "
                "every add_error implementation broadcasts a scalar to the constant vector of the data size; every wrapper keyword *_error[_cor][_rel] is forwarded with "
                "exactly the axis / correlated / relative flags its name states; the percent shorthand becomes percent/100 relative, plain entries absolute. Added: the generic wrapper writes start values before fixing parameters and fits last (S-order); when the branching of a conversion getter was rewritten every assignment must still be one of the documented forms.",
        "note": "Decides the conversion formulas and the keyword/flag wiring, not the floating-point identity of the resulting fits (rounding differences between e.g. "
                "x*r/r and x are outside the rule). Unknown vocabulary in a changed formula is reported as analysis error, never as a violation.",
        "technique": "expression normalisation to canonical forms per guarded branch + call-site keyword tables",
    },
    "C16": {
        "category": "proof",
        "text": "Closed set of rewriting identities decided on expressions extracted from kafe2/core/confidence.py: the canonical forms of the two conversions "
                "equal cl = 1 - Q(n/2, s^2/2) (the chi2_n CDF at s^2) and s = sqrt(2 Q^-1(n/2, 1 - cl)); composing the *extracted* expressions in both orders "
                "rewrites to the identity using only polynomial arithmetic with rational coefficients, sqrt(x)^2 = x on positives and the inverse pair "
                "Q^-1(a, Q(a, x)) = x (so 'exact inverses' holds for every n, s, cl in the domain, given scipy's special functions); delta_nll = s^2; "
                "instantiating n = 2 and Q(1, x) = exp(-x) yields exactly the contour level used for iminuit; setters clear the other representation; every "
                "ConfidenceLevel call site has the dimension of its context; in each of the four branches of the arrow computation the displayed tail "
                "probability and the level converted to sigma agree (central vs one-sided) and the cost target is min + sigma^2; argument-slot rule (F1) on "
                "the 265 resolved call sites of the profile/contour call chain. Added: the conversions are compared per `ndim == k` branch using the identities of the chi2 / normal special functions (chdtr, chdtri, erf, erfinv, expm1, log1p are expressed through Q = gammaincc); the arrow rule evaluates _get_arrow_specs path-sensitively over the None-ness of (low, high, cl) with helper inlining.",
        "note": "Trusted base: the extraction step (ast + temporaries inlining) and scipy.special.gammaincc/gammainccinv being the regularised upper incomplete "
                "gamma function and its inverse in the second argument. Monotonicity and the tabulated 68.27/95.45/99.73 % follow from the CDF identity and "
                "are not re-derived numerically. A branch structure of the arrow computation that the rule cannot read is ANALYSIS-ERROR, not a violation.",
        "technique": "expression normalisation + rewriting with declared inverse pairs (term rewriting proof), call-site dimension table, argument-slot rule",
    },
    "C08": {
        "text": "Pairing rule decided on the CFG of every post-fit query of MinimizerIMinuit and MinimizerScipyOptimize (contour, profile, asymmetric errors, "
                "Hessian / covariance getters, grid and beacon contours; generic code analysed in each adapter's context): every excursion primitive "
                "(set/fix/_find_cost_cut/_get_cost_value/_get_profile_bound/_calc_fun_with_constraints, backend mncontour/mnprofile/minos/hesse, numerical "
                "derivatives) is post-dominated on all normal paths by a restore (self.minimize() back to the minimum, _load_state(), write-back of the "
                "stored optimum); _save_state() precedes every mover and dominates every _load_state(); a temporary fix(p) is released on all paths (also in "
                "the nested profile closure); all problem-changing operations invalidate the adapter caches; _invalidate_cache covers every lazily computed "
                "field; the did-fit flag is written only by reset/minimize/_load_state; save/load key symmetry; NexusFitter re-evaluates the graph at the "
                "final parameters after minimizing. Added: snapshot completeness (every _save_state store is executed on all paths, also inside a table loop).",
        "note": "'Up to the minimizer tolerance' as a number is not decided; iminuit's minimize() lacks scipy's explicit graph write-back - triaged against "
                "the running code as a ~1e-13 difference and deliberately not armed. Exception paths (RuntimeError from the backend) are not bracketed.",
        "technique": "CFG post-dominance / dominance pairing rules (excursion -> restore, save -> load, fix -> release) + cache-invalidation must-call rules",
    },
    "C13": {
        "category": "proof",
        "text": "The quadrature rules of HistParametricModel are read off the canonical form of their return expressions as rational weights (left edge, centre, "
                "right edge) per unit bin width, and the exactness identities on [0,1] are discharged with exact rational arithmetic: sum w = 1, sum w x = 1/2 for "
                "all three rules, additionally sum w x^2 = 1/3 and sum w x^3 = 1/4 for Simpson - which is precisely 'exact for polynomials of degree <= 1 / 3' "
                "for every bin and every density by linearity and affine change of variable. Bin centres and widths are (a+b)/2 and b-a over the same edge "
                "slices; the antiderivative path is F(b) - F(a) at the current parameters; numerical integration runs over the same (a, b) pairs; the string "
                "-> rule selection table; recalculation stores the rule's result in the bin slice and clears the stale flag; HistFit.model scales by the number "
                "of entries iff the model is a density; the model is rebuilt from the current container on every path. Added: every iteration of the numerical bin loop integrates its bin (no guard / continue before the store); the density scale may live in a helper of the fit.",
        "note": "Trusted base: extraction/normalisation (kv.termform) and numpy slicing semantics of [:-1] / [1:]. Accuracy of scipy.integrate.quad and "
                "convergence orders for non-polynomial densities are not decided.",
        "technique": "canonical-form weight extraction + exact rational moment identities; structural selection/rebuild rules",
    },
    "C06": {
        "category": "other",
        "text": "The protocol around the minimiser, not the optimum: on every path of FitBase.do_fit each minimiser run is preceded by a fresh _pre_fit_iteration and "
                "followed by _post_fit_iteration with the same first_fit flag (True exactly for the first pass), the data reference is installed before the first pass, "
                "every later pass resets the minimiser between freeze and fit, and a refit happens iff the dynamic-uncertainty predicate holds (iterative: loop with "
                "|cost - previous cost| < limit against the previous pass; nonlinear: exactly one refit); pre/post walk the same node list (update, freeze / unfreeze, "
                "update, notify); the freeze lists have the documented conditions; the two refit predicates agree up to the algorithm name per class; MultiFit forwards "
                "each step to all members. Fixed / limited parameters: the fitter forwards fix / release / limit / unlimit to the backend and records them on every "
                "path, sets a given value before fixing, and re-evaluates the graph at the backend's final values; the iminuit adapter rebuilds the Minuit object from "
                "the stored specification with value, fixed flag and limits of every parameter (a guarded application is accepted only if release rebuilds or re-applies), "
                "every mutator updates the specification; the scipy adapter packs free parameters and unpacks the result through one index map, passes the bounds of the "
                "free parameters, writes the result back, and stores parameter values as floats. Added: a re-created fitter inherits fixed and limited parameters; class-level node lists are never mutated through list-returning helpers; the scipy bounds store stays a list of tuples.",
        "note": "Local minimality of the reported optimum, agreement of the backends, and the fixed-point property of the iterative treatment are numerical statements "
                "about MIGRAD / scipy.optimize and are not decided. The index-map rule is a shape rule on MinimizerScipyOptimize.minimize (the expressions are compared "
                "as written after whitespace normalisation).",
        "technique": "CFG path rules (bracketing, dominance) + sibling agreement + per-backend structural tables",
    },
    "C07": {
        "text": "Definitions behind the reported parameter uncertainties as formula-shape and bookkeeping rules on the source: covariance = 2 x errordef x inverse "
                "Hessian in the generic adapter and the two inverse relations in the iminuit adapter (canonical-form equality, factors cancel to the identity); "
                "fixed parameters are removed and re-inserted with one and the same index expression, the Hessian is inverted on the free sub-block and "
                "symmetrised, the scipy adapter unpacks with the index arrays it packed with; correlation = cov / outer(sigma, sigma) on the free sub-block, "
                "symmetric errors = sqrt(diag(cov)); asymmetric errors are cost cuts at minimum + 1 measured from the optimum, the cut function is cost - "
                "target with the parameter pinned and the rest re-minimised, contour levels are minimum + sigma^2; error band = sqrt(p^T C p) with one mask "
                "for derivatives and covariance; argument-slot rule (F1) on 594 resolved call sites of the minimizer / fitter / profiler / xy classes. Added: every state snapshot overwrites every cached result entry (S-snap); the error band is allocated as float. Added: (H-minos) the MINOS interval of a free parameter lands in the row of that parameter, rows of fixed parameters stay (0, 0), the result is filled in place.",
        "note": "That the Hessian is the Hessian of the actual cost, that the backend's profile/contour points are converged, and all numerical values are "
                "not decided. Several bookkeeping rules match normalised statement text of the anchor functions; a rewrite of those functions shows up as a "
                "failed obligation and needs re-triage.",
        "technique": "canonical-form formula comparison + index-expression agreement + argument-slot rule over resolved call sites",
    },
    "C09": {
        "text": "Writer/reader table agreement read off the representer sources: (E1) every class offering to_file/from_file answers, as classmethods, an object "
                "type name for which a reader and a writer are registered at module level, and the per-family type tables are mutually inverse; (E2) for each of "
                "the 7 representer pairs (plus the shared error-source helpers) every key the writer writes is consumed by the reader and every required key is "
                "written - 103 key obligations; (E3) no two keys written from the same expression; (E4) values stored flag-dependently are written through the "
                "accessor selected by the serialised flag; (E5) per-source state used by the total (object, axis, enabled) is written, restored and applied, both "
                "'load results' sites apply the stored parameter values; (E6) truncate(0) dominates every write on the append-mode handle and every writer uses "
                "that write; (E7) the three shorthand expanders accept the same scalar types; (E8) reader-side installs are followed by the fit's own invalidation. Added: flags / numbers are never dropped by a truthiness test in a reader (E11); stored parameter values are applied after re-fixing (E12); mappings the reader turns into a list are written in source order (E13); every constructor setting stored on a fit is written and restored, the implicit no-errors state is written as the default identifier (E14, E5). Added: (E15) the result dictionary (what a second save writes) takes the asymmetric uncertainties from the re-injected results before asking the fit's own minimiser.",
        "note": "Value-level round-trip equality, second-cycle idempotence and refit equality are dynamic and not decided. Two genuine defects are recorded as "
                "known findings (CostFunction / FunctionFormatter offer to_file without any representer).",
        "technique": "table extraction from ast (registrations, type tables, written/consumed key sets) + set agreement; CFG dominance for truncation",
    },
}
