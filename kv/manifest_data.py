"""Per-property manifest texts (level, note, technique). Source of /verif/MANIFEST.json via tools/gen_manifest.py."""

NOT_YET = "no check registered yet in this revision of /verif (static rules for it are designed in DESIGN.md but not armed)"

NOT_APPLICABLE = {
    "C05": "equality of a numerical minimiser's output with the closed-form GLS estimate quantifies over runtime floating-point values; "
           "no sound static argument in reach bounds it, and its structural clauses (wiring, covariance formula, index bookkeeping) are owned by C01/C07/C06",
    "C15": "permutation/unit covariance of numerical fit results is a statement about runtime values; the only code-shape clauses "
           "(index bookkeeping between full and free parameter vectors) are decided under C06/C07",
}

CLAIMED = {
    "C04": {
        "text": "Static per-method proof obligations of the Nexus invalidation protocol, decided on the CFG of every method of every node class found in "
                "kafe2/core/fitters/nexus.py: structural edits register the parent link and mark the node (B1), raw staleness writes notify parents (B2), "
                "value setters notify and update() overrides produce the value through .value reads and clear the flag, evaluating the function once (B3), "
                "value getter updates exactly under (stale and not frozen) (B6), mark_for_update/notify_parents have the stop condition that carries the "
                "invariant 'stale => ancestors stale or frozen' (B4), every Nexus edit ends in a cycle check (B5), Function keeps parameters in sync (B7). "
                "These are necessary conditions of 'reads equal a from-scratch evaluation': each broken obligation yields a concrete stale read.",
        "note": "Decides the per-method obligations, not the global state-machine correctness over arbitrary graphs (a model-checking statement outside this "
                "technique family). Trusted: Python semantics of attribute stores; weakref parent sets behave as sets.",
        "technique": "custom AST/CFG must-pass-through and guard-condition rules over the resolved node class hierarchy",
    },
    "C12": {
        "text": "Typestate and path rules on kafe2/fit/histogram/container.py, decided on the CFG of each function: every reader of the count array is "
                "dominated by a flush of pending entries (or adds the pending count itself); underflow/bins/overflow use the filler's index convention; "
                "in the single-pass filler the entry/edge comparison is `>=` (half-open bins, checked as an ordering over def-use roles, not as text), "
                "every enumerated loop path that consumes an entry increments exactly one count by one and records the entry as processed, leftovers are "
                "added to the overflow with their number, the pending list is cleared; rebin zeroes the counts and re-queues all processed entries "
                "before clearing them. Each is a necessary condition of 'every entry counted exactly once, independent of batching and reads'.",
        "note": "Independence of batching as a dynamic statement follows from these plus sorting and is not re-proved. A rewrite of the filler into a "
                "different algorithm (e.g. np.searchsorted) is reported as ANALYSIS-ERROR (idiom not recognised), never as a violation.",
        "technique": "typestate (flush-before-read) dominance check + path enumeration over the filler loop with def-use role inference",
    },
    "C02": {
        "text": "Cache coherence of the container layer decided for all 8 container / parametric-model classes over every function visible on them: "
                "inputs of the cached total error are derived from the transitive read set of _calculate_total_error and of the error-reference callable; "
                "every direct write site of an input must reach `self._total_error = None` on all normal paths (Ctot); writers of the value store must "
                "reset the source references of the written axis (Csrc); raw reads of lazily recomputed model values must be dominated by the stale check, "
                "directly or in all callers (Cpm); the total is summed after the lazy values were refreshed (Cfirst); accumulation loops skip disabled "
                "sources (D7); CovMat writers clear each derived cache (Ccov); lazy getters test the field they return (Clazy); the reference setter "
                "clears the opposite representation (Cref). Each obligation is a necessary condition of 'total = sum of enabled sources at the current "
                "reference after any history'.",
        "note": "Numerical clauses (symmetry/PSD, floating-point exactness of disable->enable, the covariance formula itself) are not decided here. "
                "Direct mutation of error objects obtained through get_error() is outside the statement (documented as requiring a manual cache clear). "
                "Reasoned exemptions are listed in kv/rules/c02.py (EXEMPT_*).",
        "technique": "interprocedural read/write effect summaries + CFG must-pass-through (writer -> invalidator), dominance (reader <- stale check)",
    },
    "C19": {
        "text": "Validate-then-commit path rule (R-A) on the CFG of every function executable after construction on 31 anchor classes (fits, containers, "
                "parametric models, Nexus and node classes, NexusFitter, both minimizer adapters, CovMat, error and constraint classes): no rejection point "
                "- explicit escaping raise, same-object call that may reject (depth 2), or call into a validator table confirmed by reading - is reachable "
                "after a node with a state write (interprocedural effects; refreshes inside getters and listed cache/scratch fields do not count) unless a "
                "handler rolls the write back (rollback idioms recognised structurally). Plus a guard-presence table of 44 (entry point, exception, tested "
                "quantity) instances for every invalid-input class named in the statement, matched on the guarding condition with local temporaries expanded.",
        "note": "Decides: rejected calls cannot have committed state earlier on the same path; the named guards exist. Does not decide that a guard's "
                "predicate is complete for the long tail of malformed values. Library calls (list.index, numpy) are rejection points only where the guard "
                "table says so. Two genuine defects (Nexus.add, Nexus.add_function) are recorded as known findings; reasoned exemptions are in kv/rules/c19.py.",
        "technique": "CFG reachability write ~> rejection with interprocedural effect summaries and rollback-idiom recognition; guard-presence table over guard conditions",
    },
}
