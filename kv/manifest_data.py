"""Per-property manifest texts (level, note, technique). Source of /verif/MANIFEST.json via tools/gen_manifest.py."""

NOT_YET = "no check registered yet in this revision of /verif (static rules for it are designed in DESIGN.md but not armed)"

NOT_APPLICABLE = {
    "C05": "equality of a numerical minimiser's output with the closed-form GLS estimate quantifies over runtime floating-point values; "
           "no sound static argument in reach bounds it, and its structural clauses (wiring, covariance formula, index bookkeeping) are owned by C01/C07/C06",
    "C15": "permutation/unit covariance of numerical fit results is a statement about runtime values; the only code-shape clauses "
           "(index bookkeeping between full and free parameter vectors) are decided under C06/C07",
}

CLAIMED = {
    "C04": {
        "text": "Static per-method proof obligations of the Nexus invalidation protocol, decided on the CFG of every method of every node class found in "
                "kafe2/core/fitters/nexus.py: structural edits register the parent link and mark the node (B1), raw staleness writes notify parents (B2), "
                "value setters notify and update() overrides produce the value through .value reads and clear the flag, evaluating the function once (B3), "
                "value getter updates exactly under (stale and not frozen) (B6), mark_for_update/notify_parents have the stop condition that carries the "
                "invariant 'stale => ancestors stale or frozen' (B4), every Nexus edit ends in a cycle check (B5), Function keeps parameters in sync (B7). "
                "These are necessary conditions of 'reads equal a from-scratch evaluation': each broken obligation yields a concrete stale read.",
        "note": "Decides the per-method obligations, not the global state-machine correctness over arbitrary graphs (a model-checking statement outside this "
                "technique family). Trusted: Python semantics of attribute stores; weakref parent sets behave as sets.",
        "technique": "custom AST/CFG must-pass-through and guard-condition rules over the resolved node class hierarchy",
    },
}
