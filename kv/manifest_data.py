"""Per-property manifest texts (level, note, technique). Source of /verif/MANIFEST.json via tools/gen_manifest.py."""

NOT_YET = "no check registered yet in this revision of /verif (static rules for it are designed in DESIGN.md but not armed)"

NOT_APPLICABLE = {
    "C05": "equality of a numerical minimiser's output with the closed-form GLS estimate quantifies over runtime floating-point values; "
           "no sound static argument in reach bounds it, and its structural clauses (wiring, covariance formula, index bookkeeping) are owned by C01/C07/C06",
    "C15": "permutation/unit covariance of numerical fit results is a statement about runtime values; the only code-shape clauses "
           "(index bookkeeping between full and free parameter vectors) are decided under C06/C07",
}

CLAIMED = {
    "C04": {
        "text": "Static per-method proof obligations of the Nexus invalidation protocol, decided on the CFG of every method of every node class found in "
                "kafe2/core/fitters/nexus.py: structural edits register the parent link and mark the node (B1), raw staleness writes notify parents (B2), "
                "value setters notify and update() overrides produce the value through .value reads and clear the flag, evaluating the function once (B3), "
                "value getter updates exactly under (stale and not frozen) (B6), mark_for_update/notify_parents have the stop condition that carries the "
                "invariant 'stale => ancestors stale or frozen' (B4), every Nexus edit ends in a cycle check (B5), Function keeps parameters in sync (B7). "
                "These are necessary conditions of 'reads equal a from-scratch evaluation': each broken obligation yields a concrete stale read.",
        "note": "Decides the per-method obligations, not the global state-machine correctness over arbitrary graphs (a model-checking statement outside this "
                "technique family). Trusted: Python semantics of attribute stores; weakref parent sets behave as sets.",
        "technique": "custom AST/CFG must-pass-through and guard-condition rules over the resolved node class hierarchy",
    },
    "C12": {
        "text": "Typestate and path rules on kafe2/fit/histogram/container.py, decided on the CFG of each function: every reader of the count array is "
                "dominated by a flush of pending entries (or adds the pending count itself); underflow/bins/overflow use the filler's index convention; "
                "in the single-pass filler the entry/edge comparison is `>=` (half-open bins, checked as an ordering over def-use roles, not as text), "
                "every enumerated loop path that consumes an entry increments exactly one count by one and records the entry as processed, leftovers are "
                "added to the overflow with their number, the pending list is cleared; rebin zeroes the counts and re-queues all processed entries "
                "before clearing them. Each is a necessary condition of 'every entry counted exactly once, independent of batching and reads'.",
        "note": "Independence of batching as a dynamic statement follows from these plus sorting and is not re-proved. A rewrite of the filler into a "
                "different algorithm (e.g. np.searchsorted) is reported as ANALYSIS-ERROR (idiom not recognised), never as a violation.",
        "technique": "typestate (flush-before-read) dominance check + path enumeration over the filler loop with def-use role inference",
    },
}
