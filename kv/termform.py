"""Expression normaliser for formula-shape rules (R-H).

An expression (Python AST) is brought to a canonical polynomial form with Fraction coefficients over *atoms*
(attribute reads, calls of unknown functions, subscripts, ...); known numpy spellings are mapped to operators
(np.sqrt -> ^1/2, np.square -> ^2, np.hypot, np.multiply ...). Local temporaries are inlined along def-use chains of
straight-line code, the accumulate-in-loop idiom becomes a SUM atom. Two forms are compared for syntactic equality of
the canonical form - no paths are explored, no solver is involved.

Comparison policy (`compare`): equal -> 'equal'; the code uses an atom the specification does not know -> 'unknown'
(the rule reports ANALYSIS-ERROR: rewritten in a vocabulary this rule cannot read); otherwise -> 'different' (a term,
coefficient, sign or exponent differs: VIOLATION).
"""
import ast
from fractions import Fraction

from .srcmodel import AnalysisError

COMMUTATIVE_CALLS = {"hypot", "add", "multiply", "maximum", "minimum"}
_PAREN = {}  # "(canon)" -> Poly : parenthesised sums raised to a fractional power, re-expanded when the exponent becomes integral
_FUNCS = {}  # atom text -> (function name, [arg Polys])
# inverse pairs in the given argument position: f_inv(a, f(a, x)) -> x
INVERSE_PAIRS = {("gammainccinv", "gammaincc"), ("gammaincc", "gammainccinv"), ("gammaincinv", "gammainc"), ("gammainc", "gammaincinv")}
NP_PREFIXES = ("np.", "numpy.", "math.", "scipy.special.", "special.")
MODULE_NAMES = {"np", "numpy", "scipy", "math", "linalg", "special", "integrate", "opt", "nd", "stats"}


def _prime_powers(c):
    """[(prime, exponent)] of a positive rational"""
    out = {}
    for n, sign in ((c.numerator, 1), (c.denominator, -1)):
        d = 2
        while n > 1 and d * d <= n:
            while n % d == 0:
                out[d] = out.get(d, 0) + sign
                n //= d
            d += 1
        if n > 1:
            out[n] = out.get(n, 0) + sign
    return sorted((p_, k) for p_, k in out.items() if k != 0)


class Poly:
    """sum of coeff * prod(atom^exp); monomial = tuple(sorted((atom, exp)))"""

    def __init__(self, terms=None):
        self.t = {}
        for m, c in (terms or {}).items():
            if c != 0:
                self.t[m] = c

    @staticmethod
    def const(c):
        return Poly({(): Fraction(c)}) if c != 0 else Poly()

    @staticmethod
    def atom(a, exp=1):
        return Poly({((a, Fraction(exp)),): Fraction(1)})

    def __add__(self, o):
        t = dict(self.t)
        for m, c in o.t.items():
            t[m] = t.get(m, 0) + c
        return Poly(t)

    def neg(self):
        return Poly({m: -c for m, c in self.t.items()})

    def __mul__(self, o):
        t = {}
        for m1, c1 in self.t.items():
            for m2, c2 in o.t.items():
                d = dict(m1)
                for a, e in m2:
                    d[a] = d.get(a, 0) + e
                m = tuple(sorted((a, e) for a, e in d.items() if e != 0))
                t[m] = t.get(m, 0) + c1 * c2
        return Poly(t)

    def is_const(self):
        return all(m == () for m in self.t)

    def const_value(self):
        return self.t.get((), Fraction(0))

    def single_monomial(self):
        return len(self.t) == 1

    def power(self, e):
        e = Fraction(e)
        if e.denominator == 1 and e >= 0 and (not self.single_monomial() or e == 0):
            r = Poly.const(1)
            for _ in range(int(e)):
                r = r * self
            return r
        if self.single_monomial():
            (m, c), = self.t.items()
            # coefficient power only if exact
            cp = _frac_pow(c, e)
            if cp is not None:
                return Poly({tuple(sorted((a, x * e) for a, x in m)): cp})
            if c > 0:
                # (c * atoms)^e = c^e * atoms^e for a positive coefficient, with c split into prime powers: keeps sqrt(2) * sqrt(g), sqrt(2 g) and
                # 1 / sqrt(1/2) in one form
                r = Poly({tuple(sorted((a, x * e) for a, x in m)): Fraction(1)}) if m else Poly.const(1)
                for prime, k in _prime_powers(c):
                    ck = "(%d)" % prime
                    _PAREN[ck] = Poly.const(prime)
                    r = r * Poly.atom(ck, e * k)
                return r
        key = "(" + self.canon() + ")"
        _PAREN[key] = self
        return Poly.atom(key, e)

    def simplify(self):
        """re-expand parenthesised sums whose exponent has become a positive integer"""
        changed = True
        cur = self
        guard = 0
        while changed and guard < 10:
            changed = False
            guard += 1
            out = Poly()
            for m, c in cur.t.items():
                term = Poly({(): c})
                for a, e in m:
                    if a in _PAREN and e.denominator == 1 and e >= 1:
                        term = term * _PAREN[a].power(e)
                        changed = True
                    elif a in _PAREN and e.denominator == 1 and _PAREN[a].is_const() and _PAREN[a].const_value() != 0:
                        term = term * Poly.const(_PAREN[a].const_value() ** int(e))
                        changed = True
                    else:
                        term = term * Poly.atom(a, e)
                out = out + term
            cur = out
        return cur

    def canon(self):
        if not self.t:
            return "0"
        parts = []
        for m in sorted(self.t):
            c = self.t[m]
            mon = "*".join(a if e == 1 else "%s^%s" % (a, e) for a, e in m)
            if not mon:
                parts.append(str(c))
            elif c == 1:
                parts.append(mon)
            else:
                parts.append("%s*%s" % (c, mon))
        return " + ".join(parts)

    def atoms(self):
        out = set()
        for m in self.t:
            for a, _ in m:
                out.add(a)
        return out

    def __eq__(self, o):
        return isinstance(o, Poly) and self.t == o.t

    def __hash__(self):
        return hash(self.canon())

    def __repr__(self):
        return "Poly<%s>" % self.canon()


def _frac_pow(c, e):
    if c < 0 and e.denominator != 1:
        return None
    try:
        if e.denominator == 1:
            return Fraction(c) ** int(e)
        n = _iroot(c.numerator, e.denominator)
        d = _iroot(c.denominator, e.denominator)
        if n is None or d is None:
            return None
        return Fraction(n, d) ** e.numerator
    except Exception:
        return None


def _iroot(n, k):
    if n < 0:
        return None
    r = round(n ** (1.0 / k))
    for x in (r - 1, r, r + 1):
        if x >= 0 and x ** k == n:
            return x
    return None


class Normalizer:
    def __init__(self, env=None, rename=None, func_atoms=None):
        """env: local name -> ast expr (single-assignment temporaries to inline); rename: canonical atom text -> symbol"""
        self.env = env or {}
        self.rename = rename or {}
        self.depth = 0

    def norm(self, e):
        return self._n(e).simplify()

    def _atom(self, text):
        return Poly.atom(self.rename.get(text, text))

    def _fname(self, f):
        s = ast.unparse(f)
        for pre in NP_PREFIXES:
            if s.startswith(pre):
                return s[len(pre):]
        return s

    def _n(self, e):
        if isinstance(e, ast.Constant):
            if isinstance(e.value, bool):
                return self._atom(str(e.value))
            if isinstance(e.value, (int, float)):
                return Poly.const(Fraction(str(e.value)))
            return self._atom(repr(e.value))
        if isinstance(e, ast.Name):
            if e.id in self.env:
                # environment values are closed over earlier values (eager substitution): no further inlining inside them
                return Normalizer({}, self.rename)._n(self.env[e.id])
            return self._atom(e.id)
        if isinstance(e, ast.UnaryOp):
            if isinstance(e.op, ast.USub):
                return self._n(e.operand).neg()
            if isinstance(e.op, ast.UAdd):
                return self._n(e.operand)
            return self._atom("not(" + self._n(e.operand).canon() + ")")
        if isinstance(e, ast.BinOp):
            a, b = self._n(e.left), self._n(e.right)
            if isinstance(e.op, ast.Add):
                return a + b
            if isinstance(e.op, ast.Sub):
                return a + b.neg()
            if isinstance(e.op, ast.Mult):
                return a * b
            if isinstance(e.op, ast.Div):
                return a * b.power(-1)
            if isinstance(e.op, ast.Pow):
                if b.is_const():
                    return a.power(b.const_value())
                return self._atom("pow(%s,%s)" % (a.canon(), b.canon()))
            if isinstance(e.op, ast.MatMult):
                return self._atom("dot(%s,%s)" % (a.canon(), b.canon()))
            return self._atom("%s(%s,%s)" % (type(e.op).__name__, a.canon(), b.canon()))
        if isinstance(e, ast.Call):
            return self._call(e)
        if isinstance(e, ast.Attribute):
            base = e.value
            if isinstance(base, ast.Name) and base.id in self.env:
                inner = self._n(base)
                return self._atom("(%s).%s" % (inner.canon(), e.attr))
            if isinstance(base, ast.Call):
                return self._atom("(%s).%s" % (self._n(base).canon(), e.attr))
            return self._atom(ast.unparse(e))
        if isinstance(e, ast.Subscript):
            v = self._n(e.value).canon()
            return self._atom("%s[%s]" % (v, self._slice(e.slice)))
        if isinstance(e, ast.IfExp):
            return self._atom("ifelse(%s,%s,%s)" % (self._cond(e.test), self._n(e.body).canon(), self._n(e.orelse).canon()))
        if isinstance(e, (ast.Tuple, ast.List)):
            return self._atom("[" + ",".join(self._n(x).canon() for x in e.elts) + "]")
        if isinstance(e, ast.Compare):
            return self._atom(self._cond(e))
        if isinstance(e, (ast.ListComp, ast.GeneratorExp)):
            g = e.generators[0]
            sub = Normalizer(dict(self.env), self.rename)
            if isinstance(g.target, ast.Name):
                sub.env[g.target.id] = ast.Name(id="_BOUND_", ctx=ast.Load())
            return self._atom("FOR(_BOUND_ in %s: %s)" % (self._n(g.iter).canon(), sub._n(e.elt).canon()))
        return self._atom(ast.unparse(e))

    def _slice(self, s):
        if isinstance(s, ast.Slice):
            return "%s:%s%s" % (self._n(s.lower).canon() if s.lower else "", self._n(s.upper).canon() if s.upper else "", (":" + self._n(s.step).canon()) if s.step else "")
        if isinstance(s, ast.Tuple):
            return ",".join(self._slice(x) for x in s.elts)
        return self._n(s).canon()

    def _cond(self, e):
        if isinstance(e, ast.Compare):
            parts = [self._n(e.left).canon()]
            for op, c in zip(e.ops, e.comparators):
                parts.append(type(op).__name__)
                parts.append(self._n(c).canon())
            return "cmp(" + " ".join(parts) + ")"
        return "cond(" + self._n(e).canon() + ")"

    def _call(self, e):
        fn = self._fname(e.func)
        if fn == "sum" and len(e.args) == 1 and not e.keywords and isinstance(e.args[0], (ast.GeneratorExp, ast.ListComp)) and not any(g.ifs for g in e.args[0].generators):
            # sum(f(v) for a in A for v in a)  ==  the accumulate-in-loop idiom  SUM(SUM(f(v) for v in a) for a in A)
            inner = e.args[0].elt
            for g in reversed(e.args[0].generators):
                inner = ast.Call(func=ast.Name(id="SUM", ctx=ast.Load()), args=[ast.GeneratorExp(elt=inner, generators=[ast.comprehension(target=g.target, iter=g.iter, ifs=[], is_async=0)])], keywords=[])
            return self._n(inner)
        if fn == "len" and len(e.args) == 1 and isinstance(e.args[0], ast.Call) and isinstance(e.args[0].func, ast.Attribute) and e.args[0].func.attr == "keys" and not e.args[0].args:
            return self._n(ast.Call(func=e.func, args=[e.args[0].func.value], keywords=[]))   # len(d.keys()) == len(d)
        args = [self._n(a) for a in e.args]
        kw = sorted((k.arg or "**", self._n(k.value).canon()) for k in e.keywords)
        if fn == "sqrt" and len(args) == 1:
            return args[0].power(Fraction(1, 2))
        if fn == "square" and len(args) == 1:
            return args[0].power(2)
        if fn == "power" and len(args) == 2 and args[1].is_const():
            return args[0].power(args[1].const_value())
        if fn == "hypot" and len(args) == 2:
            return (args[0].power(2) + args[1].power(2)).power(Fraction(1, 2))
        if fn in ("multiply",) and len(args) == 2:
            return args[0] * args[1]
        if fn in ("add",) and len(args) == 2:
            return args[0] + args[1]
        if fn in ("subtract",) and len(args) == 2:
            return args[0] + args[1].neg()
        if fn in ("divide", "true_divide") and len(args) == 2:
            return args[0] * args[1].power(-1)
        if fn in ("asarray", "array", "float", "asanyarray") and len(args) == 1:
            return args[0]
        if fn in ("abs", "absolute", "fabs") and len(args) == 1:
            return self._atom("abs(%s)" % args[0].canon())
        # method-style: x.dot(y), x.sum()
        if isinstance(e.func, ast.Attribute) and not ast.unparse(e.func).startswith(NP_PREFIXES):
            recv = self._n(e.func.value)
            m = e.func.attr
            if m == "dot" and len(args) == 1:
                return self._atom("dot(%s,%s)" % (recv.canon(), args[0].canon()))
            if m in ("copy",) and not args:
                return recv
            if m in ("sum", "T", "transpose") and not args:
                return self._atom("%s(%s)" % (m, recv.canon()))
            return self._atom("%s.%s(%s)" % ("(" + recv.canon() + ")", m, ",".join([a.canon() for a in args] + ["%s=%s" % k for k in kw])))
        return self._mk(fn, args, kw)

    def _mk(self, fn, args, kw=()):
        """function application with the identities of the special functions used for chi2 / normal distributions (everything is expressed through the
        regularised upper incomplete gamma function Q = gammaincc and its inverse)"""
        args = [a.simplify() for a in args]
        half, one, two = Poly.const(Fraction(1, 2)), Poly.const(1), Poly.const(2)
        if not kw:
            if fn == "chdtr" and len(args) == 2:  # chi2 CDF with v degrees of freedom at x
                return one + self._mk("gammaincc", [args[0] * half, args[1] * half]).neg()
            if fn == "chdtrc" and len(args) == 2:
                return self._mk("gammaincc", [args[0] * half, args[1] * half])
            if fn == "chdtri" and len(args) == 2:  # x with chdtrc(v, x) = p
                return two * self._mk("gammainccinv", [args[0] * half, args[1]])
            if fn == "gammainc" and len(args) == 2:
                return one + self._mk("gammaincc", args).neg()
            if fn == "gammaincinv" and len(args) == 2:
                return self._mk("gammainccinv", [args[0], one + args[1].neg()])
            if fn == "erf" and len(args) == 1:
                return one + self._mk("gammaincc", [half, args[0].power(2)]).neg()
            if fn == "erfc" and len(args) == 1:
                return self._mk("gammaincc", [half, args[0].power(2)])
            if fn == "erfinv" and len(args) == 1:
                return self._mk("gammainccinv", [half, one + args[0].neg()]).power(Fraction(1, 2))
            if fn == "erfcinv" and len(args) == 1:
                return self._mk("gammainccinv", [half, args[0]]).power(Fraction(1, 2))
            if fn == "expm1" and len(args) == 1:
                return self._mk("exp", [args[0]]) + one.neg()
            if fn == "log1p" and len(args) == 1:
                return self._mk("log", [one + args[0]])
        acan = [a.canon() for a in args]
        # inverse pairs: f_inv(a, f(a, x)) -> x
        if len(args) == 2 and not kw and args[1].single_monomial():
            (m, c), = args[1].t.items()
            if c == 1 and len(m) == 1 and m[0][1] == 1 and m[0][0] in _FUNCS:
                ifn, iargs = _FUNCS[m[0][0]]
                if (fn, ifn) in INVERSE_PAIRS and len(iargs) == 2 and iargs[0].canon() == acan[0]:
                    return iargs[1]
        # Q(1, x) = exp(-x) and its inverse
        if fn == "gammaincc" and len(args) == 2 and acan[0] == "1":
            return self._mk("exp", [args[1].neg()])
        if fn == "gammainccinv" and len(args) == 2 and acan[0] == "1":
            return self._mk("log", [args[1]]).neg()
        # exp / log cancel
        if fn in ("exp", "log") and len(args) == 1 and args[0].single_monomial():
            (m, c), = args[0].t.items()
            if c == 1 and len(m) == 1 and m[0][1] == 1 and m[0][0] in _FUNCS:
                ifn, iargs = _FUNCS[m[0][0]]
                if {fn, ifn} == {"exp", "log"} and len(iargs) == 1:
                    return iargs[0]
        if fn in COMMUTATIVE_CALLS:
            acan = sorted(acan)
        return self._call_text(fn, args, acan, kw)

    def _call_text(self, fn, args, acan=None, kw=()):
        acan = acan if acan is not None else [a.canon() for a in args]
        text = "%s(%s)" % (fn, ",".join(acan + ["%s=%s" % k for k in kw]))
        text = self.rename.get(text, text)
        _FUNCS[text] = (fn, list(args))
        return Poly.atom(text)


# ---------------------------------------------------------------------------------------------------- extraction helpers
class _Subst(ast.NodeTransformer):
    def __init__(self, env):
        self.env = env

    def visit_Name(self, node):
        if isinstance(node.ctx, ast.Load) and node.id in self.env:
            return self.env[node.id]
        return node

    def visit_Lambda(self, node):
        return node

    def visit_ListComp(self, node):
        return node

    def visit_GeneratorExp(self, node):
        return node


def subst(expr, env):
    import copy

    if not env:
        return expr
    return _Subst(env).visit(copy.deepcopy(expr))


def _sum_loop(st, env):
    """`for v in xs: acc += f(v)` (possibly nested) -> (acc, SUM(f(v) for v in xs)) with acc a name already in env"""
    if not (isinstance(st, ast.For) and isinstance(st.target, ast.Name) and len(st.body) == 1):
        return None
    inner = st.body[0]
    it = subst(st.iter, {k: v for k, v in env.items() if k != st.target.id})
    if isinstance(inner, ast.AugAssign) and isinstance(inner.target, ast.Name) and isinstance(inner.op, ast.Add) and inner.target.id in env:
        gen = ast.GeneratorExp(elt=inner.value, generators=[ast.comprehension(target=st.target, iter=it, ifs=[], is_async=0)])
        return inner.target.id, ast.Call(func=ast.Name(id="SUM", ctx=ast.Load()), args=[gen], keywords=[])
    if isinstance(inner, ast.For):
        r = _sum_loop(inner, env)
        if r is not None:
            acc, summ = r
            gen = ast.GeneratorExp(elt=summ, generators=[ast.comprehension(target=st.target, iter=it, ifs=[], is_async=0)])
            return acc, ast.Call(func=ast.Name(id="SUM", ctx=ast.Load()), args=[gen], keywords=[])
    return None


def straight_line_env(body, stop_at=None, init_env=None):
    """single-assignment temporaries of a statement list (recursing into with-bodies, not into branches/loops) -> name -> expr.
    Also summarises `acc = 0; for v in xs: acc += f(v)` as SUM(v in xs: f(v))."""
    env = dict(init_env or {})
    counts = {}
    stmts = list(body)
    for i, st in enumerate(stmts):
        if st is stop_at:
            break
        if isinstance(st, ast.Assign) and len(st.targets) == 1 and isinstance(st.targets[0], ast.Name):
            n = st.targets[0].id
            counts[n] = counts.get(n, 0) + 1
            env[n] = subst(st.value, env)  # closed over the earlier values (x = f(x) is fine)
        elif isinstance(st, ast.Assign) and len(st.targets) == 1 and isinstance(st.targets[0], (ast.Tuple, ast.List)) and isinstance(st.value, (ast.Tuple, ast.List)) \
                and len(st.targets[0].elts) == len(st.value.elts):
            vals = [subst(v, env) for v in st.value.elts]
            for t, v in zip(st.targets[0].elts, vals):
                if isinstance(t, ast.Name):
                    env[t.id] = v
        elif isinstance(st, ast.AugAssign) and isinstance(st.target, ast.Name):
            n = st.target.id
            if n in env:
                op = {ast.Add: ast.Add, ast.Sub: ast.Sub, ast.Mult: ast.Mult, ast.Div: ast.Div}.get(type(st.op))
                if op is None:
                    env.pop(n, None)
                else:
                    env[n] = ast.BinOp(left=env[n], op=op(), right=subst(st.value, env))
            counts[n] = counts.get(n, 0) + 1
        elif isinstance(st, ast.For) and _sum_loop(st, env) is not None:
            acc, summ = _sum_loop(st, env)
            env[acc] = ast.BinOp(left=env[acc], op=ast.Add(), right=summ)
        elif isinstance(st, ast.With):
            env = straight_line_env(st.body, stop_at, env)
    return env


def return_exprs(func_node):
    """[(guard conditions [(test, polarity)], return expr, env at that point)] for every return of a function whose
    control flow consists of straight-line code, if/else and the accumulate-in-loop idiom."""
    out = []

    def walk(body, conds, env):
        for st in body:
            if isinstance(st, ast.Return):
                out.append((list(conds), st.value, dict(env)))
                return True, env
            if isinstance(st, ast.If):
                r1, e1 = walk(st.body, conds + [(st.test, True)], dict(env))
                r2, e2 = walk(st.orelse, conds + [(st.test, False)], dict(env)) if st.orelse else (False, dict(env))
                if r1 and r2:
                    return True, env
                if r1:
                    env = e2
                    conds = conds + [(st.test, False)]
                elif r2:
                    env = e1
                    conds = conds + [(st.test, True)]
                else:
                    # both branches fall through: keep only names on which they agree
                    env = {k: v for k, v in e1.items() if k in e2 and ast.dump(v) == ast.dump(e2[k])}
                continue
            env = straight_line_env([st], None, env)
        return False, env

    walk(func_node.body, [], {})
    return out


def _const_test(test):
    """True / False for a test made of literals only (`1.0 > 0`), or `E is [not] None` for an E that is never None (a display, a formatted string), else None"""
    if isinstance(test, ast.Compare) and len(test.ops) == 1 and isinstance(test.ops[0], (ast.Is, ast.IsNot)) and isinstance(test.comparators[0], ast.Constant) \
            and test.comparators[0].value is None:
        e = test.left
        never_none = isinstance(e, (ast.List, ast.Tuple, ast.Dict, ast.Set, ast.JoinedStr, ast.ListComp, ast.DictComp, ast.SetComp, ast.Lambda)) \
            or (isinstance(e, ast.Constant) and e.value is not None) or (isinstance(e, ast.BinOp) and isinstance(e.op, ast.Mod) and isinstance(e.left, ast.Constant) and isinstance(e.left.value, str))
        if never_none:
            return isinstance(test.ops[0], ast.IsNot)
        if isinstance(e, ast.Constant) and e.value is None:
            return isinstance(test.ops[0], ast.Is)
    if any(not isinstance(x, (ast.Constant, ast.Compare, ast.BoolOp, ast.UnaryOp, ast.cmpop, ast.boolop, ast.unaryop, ast.Load, ast.BinOp, ast.operator)) for x in ast.walk(test)):
        return None
    try:
        return bool(eval(compile(ast.Expression(body=test), "<const>", "eval"), {"__builtins__": {}}, {}))  # literals and operators only (checked above)
    except Exception:  # noqa: BLE001
        return None


def path_exprs(func_node, pick, max_paths=256):
    """Path-sensitive version of return_exprs / assigned_exprs: every path through the if/else structure of the function is followed separately (loops and try
    bodies are treated as straight-line code), so temporaries assigned differently in the two branches of an `if` are resolved per path.
    pick(stmt) -> list of expressions of interest evaluated by that statement. Result: [(conds [(closed test, polarity)], expr, env)]."""
    out = []
    n_paths = [0]

    def run(stmts, conds, env):
        for i, st in enumerate(stmts):
            for e in pick(st) or []:
                out.append((list(conds), e, dict(env)))
            if isinstance(st, ast.Return) or isinstance(st, ast.Raise):
                return
            if isinstance(st, ast.If):
                rest = list(stmts[i + 1:])
                n_paths[0] += 1
                if n_paths[0] > max_paths:
                    raise ValueError("too many paths")
                test = subst(st.test, env)
                const = _const_test(test)
                if const is not None:
                    # a test on literals decides itself: only the feasible branch is a path
                    run(list(st.body if const else st.orelse) + rest, conds, dict(env))
                    return
                run(list(st.body) + rest, conds + [(test, True)], dict(env))
                run(list(st.orelse) + rest, conds + [(test, False)], dict(env))
                return
            if isinstance(st, ast.Try):
                run(list(st.body) + list(st.orelse) + list(st.finalbody) + list(stmts[i + 1:]), conds, env)
                return
            if isinstance(st, (ast.For, ast.While)) and _sum_loop(st, env) is None and any(isinstance(x, (ast.If, ast.Return)) or pick(x) for b in st.body for x in ast.walk(b) if isinstance(x, ast.stmt)):
                # a loop body is read as if it ran once, after the statements before it (its loop variables stay symbolic)
                for t in ast.walk(st.target) if isinstance(st, ast.For) else []:
                    if isinstance(t, ast.Name):
                        env.pop(t.id, None)
                run(list(st.body) + list(stmts[i + 1:]), conds, env)
                return
            env = straight_line_env([st], None, env)

    run(list(func_node.body), [], {})
    # a conditional expression is two paths (the canonical form writes `if c: t = A else: t = B` as `t = A if c else B`)
    flat = []

    import copy as _copy

    class _Choose(ast.NodeTransformer):
        """every conditional sub-expression on the given test is replaced by the chosen branch (nested defs / lambdas / comprehensions are left alone: evaluated later)"""

        def __init__(self, key, take):
            self.key, self.take = key, take

        def visit_IfExp(self, n):
            if ast.unparse(n.test) == self.key:
                return self.visit(n.body if self.take else n.orelse)
            return self.generic_visit(n)

        def visit_Lambda(self, n):
            return n

        visit_ListComp = visit_SetComp = visit_DictComp = visit_GeneratorExp = visit_Lambda

    def first_ifexp(e):
        todo = [e]
        while todo:
            x = todo.pop(0)
            if isinstance(x, ast.IfExp):
                return x
            if isinstance(x, (ast.Lambda, ast.ListComp, ast.SetComp, ast.DictComp, ast.GeneratorExp)):
                continue
            todo.extend(ast.iter_child_nodes(x))
        return None

    def split(conds, e, env, depth=0):
        # (a conditional expression anywhere in the picked expression - `(A if c else B) * f(u if c else v)` - is two paths; all of them on one test go together)
        if depth == 0:
            e2 = subst(e, env)
            if first_ifexp(e2) is None:
                flat.append((conds, e, env))   # (nothing to split: the expression as picked, with the environment of its path)
                return
            e, env = e2, {}                      # (written out: the environment is used up)
        x = first_ifexp(e) if depth < 6 else None
        if x is None:
            flat.append((conds, e, env))
            return
        t = x.test
        key = ast.unparse(t)
        c = _const_test(t)
        known = [pol for tt, pol in conds if ast.unparse(tt) == key]
        if c is None and known:
            c = known[0]
        if c is None:
            split(conds + [(t, True)], _Choose(key, True).visit(_copy.deepcopy(e)), env, depth + 1)
            split(conds + [(t, False)], _Choose(key, False).visit(_copy.deepcopy(e)), env, depth + 1)
        else:
            split(conds, _Choose(key, bool(c)).visit(_copy.deepcopy(e)), env, depth + 1)

    for conds, e, env in out:
        split(conds, e, env)
    return flat


def assigned_exprs(func_node, target):
    """[(guard conditions, rhs expr, env)] for every assignment to `target` ('self.attr' or local name) in a function made of
    straight-line code and if/else"""
    out = []

    def is_target(t):
        return ast.unparse(t) == target

    def walk(body, conds, env):
        for st in body:
            if isinstance(st, ast.Assign) and any(is_target(t) for t in st.targets):
                out.append((list(conds), st.value, dict(env)))
            if isinstance(st, ast.If):
                e1 = walk(st.body, conds + [(st.test, True)], dict(env))
                e2 = walk(st.orelse, conds + [(st.test, False)], dict(env)) if st.orelse else dict(env)
                env = {k: v for k, v in e1.items() if k in e2 and ast.dump(v) == ast.dump(e2[k])}
                continue
            if isinstance(st, (ast.With, ast.Try)):
                env = walk(st.body, conds, env)
                continue
            if isinstance(st, ast.For):
                env = straight_line_env([st], None, env)
                walk(st.body, conds + [(st.iter, True)], dict(env))
                continue
            env = straight_line_env([st], None, env)
        return env

    walk(func_node.body, [], {})
    return out


def norm_return(func, rename=None):
    """Normal form of the single return expression of a straight-line function."""
    rs = return_exprs(func.node)
    if len(rs) != 1:
        raise AnalysisError("%s: expected a single return, found %d" % (func.qualname, len(rs)))
    conds, e, env = rs[0]
    return Normalizer(env, rename).norm(e)


def norm_spec(text, rename=None):
    return Normalizer({}, rename).norm(ast.parse(text, mode="eval").body)


def leaves(expr, env=None, _depth=0):
    """leaf vocabulary of an expression after inlining temporaries: attribute chains, free names and function names"""
    env = env or {}
    out = set()

    def walk(e, bound):
        if isinstance(e, ast.Attribute):
            txt = ast.unparse(e)
            base = e
            while isinstance(base, ast.Attribute):
                base = base.value
            if isinstance(base, ast.Name) and base.id not in env and base.id not in bound:
                out.add(txt)
                return
            out.add("." + e.attr)
            walk(e.value, bound)
            return
        if isinstance(e, ast.Name):
            if e.id in bound:
                return
            if e.id in env and _depth < 12:
                out.update(leaves(env[e.id], {}, _depth + 1))
            else:
                out.add(e.id)
            return
        if isinstance(e, ast.Call):
            if isinstance(e.func, ast.Attribute):
                out.add("()" + e.func.attr)
                base = e.func.value
                while isinstance(base, ast.Attribute):
                    base = base.value
                if not (isinstance(base, ast.Name) and base.id in MODULE_NAMES):
                    walk(e.func.value, bound)
            elif isinstance(e.func, ast.Name):
                out.add("()" + e.func.id)
            for a in e.args:
                walk(a, bound)
            for k in e.keywords:
                walk(k.value, bound)
            return
        if isinstance(e, (ast.GeneratorExp, ast.ListComp)):
            b = set(bound)
            for g in e.generators:
                walk(g.iter, b)
                for n in ast.walk(g.target):
                    if isinstance(n, ast.Name):
                        b.add(n.id)
            walk(e.elt, b)
            return
        for c in ast.iter_child_nodes(e):
            if isinstance(c, ast.expr):
                walk(c, bound)
            elif isinstance(c, ast.Slice):
                for cc in (c.lower, c.upper, c.step):
                    if cc is not None:
                        walk(cc, bound)

    walk(expr, set())
    norm = set()
    for x in out:
        for pre in NP_PREFIXES:
            if x.startswith(pre):
                x = "()" + x[len(pre):]
        norm.add(x.replace("()np.", "()"))
    return {x for x in norm if x not in ("np", "numpy")}


def compare(code, spec, code_leaves=None, spec_leaves=None, known=()):
    """-> ('equal'|'different'|'unknown', detail). With leaf vocabularies given, 'unknown' means: the code mentions an identifier /
    function the specification does not (rewritten in a vocabulary this rule cannot read)."""
    if code == spec:
        return "equal", ""
    if code_leaves is not None and spec_leaves is not None:
        extra = {x for x in code_leaves - spec_leaves if not x.startswith("()SUM")}
        equiv = {"()square", "()sqrt", "()power", "()hypot", "()asarray", "()array", "()float", "()multiply", "()add", "()subtract", "()divide", "()sum", "()len"}
        extra -= equiv
        extra -= {"float", "int"}  # dtype arguments
        # identifiers the rule declares as documented, distinct quantities of the same object: using one of them in place of another is a different formula
        extra -= set(known)
    else:
        extra = code.atoms() - spec.atoms()
    if extra:
        return "unknown", "the code uses %s, which the specification of this formula does not mention" % sorted(extra)
    return "different", "code: %s   expected: %s" % (code.canon(), spec.canon())


def inline_calls(expr, resolve, depth=0):
    """Replace calls to small helpers (resolve(call) -> FunctionDef or None) whose body is straight-line code ending in one unconditional
    return by that return expression with the arguments substituted. Used so that a formula moved into a helper is still read."""
    import copy

    if depth > 3:
        return expr

    class T(ast.NodeTransformer):
        def visit_Call(self, n):
            n = self.generic_visit(n)
            fn = resolve(n)
            if fn is None:
                return n
            rs = return_exprs(fn)
            if len(rs) != 1 or rs[0][0] or rs[0][1] is None:
                return n
            params = [a.arg for a in fn.args.args]
            if params and params[0] in ("self", "cls"):
                params = params[1:]
            if fn.args.vararg or fn.args.kwarg or any(k.arg is None for k in n.keywords):
                return n
            bound = dict(zip(params, n.args))
            for k in n.keywords:
                bound[k.arg] = k.value
            defaults = fn.args.defaults
            for p_, d in zip(params[len(params) - len(defaults):], defaults):
                bound.setdefault(p_, d)
            if set(params) - set(bound):
                return n
            body = subst(rs[0][1], rs[0][2])
            body = inline_calls(body, resolve, depth + 1)
            return subst(body, bound)

    return T().visit(copy.deepcopy(expr))
