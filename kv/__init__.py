"""kv: static verification machinery for kafe2 (stdlib `ast` only; never imports or runs repo code)."""
