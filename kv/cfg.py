"""Statement-level control-flow graph for one function, with the queries the rules need.

Nodes are simple statements and the header expressions of compound statements. Two kinds of
edges: normal and exceptional (from explicit `raise` statements, plus - on request of a rule -
from statements that call a function marked may-raise). Exceptional edges go to the innermost
matching `except` handler or to RAISE_EXIT.
"""
import ast

_EXC_PARENTS = {
    "KeyError": "LookupError",
    "IndexError": "LookupError",
    "LookupError": "Exception",
    "ValueError": "Exception",
    "TypeError": "Exception",
    "AttributeError": "Exception",
    "RuntimeError": "Exception",
    "NotImplementedError": "RuntimeError",
    "RecursionError": "RuntimeError",
    "AssertionError": "Exception",
    "ZeroDivisionError": "ArithmeticError",
    "ArithmeticError": "Exception",
    "OSError": "Exception",
    "IOError": "Exception",
    "ImportError": "Exception",
    "ModuleNotFoundError": "ImportError",
    "StopIteration": "Exception",
    "UnicodeDecodeError": "ValueError",
    "LinAlgError": "ValueError",
    "Exception": "BaseException",
}


def exc_is_a(name, handler_name):
    if handler_name in (None, "BaseException"):
        return True
    seen = set()
    while name is not None and name not in seen:
        if name == handler_name:
            return True
        seen.add(name)
        name = _EXC_PARENTS.get(name, "Exception" if name != "BaseException" and name != "Exception" else None)
    return False


class Node:
    __slots__ = ("id", "kind", "stmt", "expr", "try_stack", "loop_depth", "in_handler")

    def __init__(self, id_, kind, stmt=None, expr=None, try_stack=(), in_handler=()):
        self.id = id_
        self.kind = kind  # entry | exit | raise_exit | stmt | test | for | with | except | join
        self.stmt = stmt
        self.expr = expr  # the part of the statement evaluated at this node (header expression) or None
        self.try_stack = try_stack  # tuple of ast.Try nodes whose *body* encloses this node (innermost last)
        self.in_handler = in_handler  # tuple of ast.ExceptHandler enclosing this node

    @property
    def lineno(self):
        return getattr(self.stmt, "lineno", 0)

    def ast_parts(self):
        """AST sub-trees evaluated *at this node* (not nested statement bodies)."""
        if self.kind in ("test", "for", "with"):
            return [self.expr] if self.expr is not None else []
        if self.kind == "except":
            return []
        if self.kind == "stmt":
            return [self.stmt]
        return []

    def __repr__(self):
        return "<N%d %s L%s>" % (self.id, self.kind, self.lineno)


def _handler_names(h):
    if h.type is None:
        return [None]
    if isinstance(h.type, ast.Tuple):
        elts = h.type.elts
    else:
        elts = [h.type]
    out = []
    for e in elts:
        if isinstance(e, ast.Name):
            out.append(e.id)
        elif isinstance(e, ast.Attribute):
            out.append(e.attr)
        else:
            out.append(None)  # computed handler type (e.g. self._exception_type): assume catches all
    return out


def raised_name(stmt):
    """Exception class name of an explicit `raise`, or '?' (re-raise / unknown)."""
    e = stmt.exc
    if e is None:
        return "?reraise"
    if isinstance(e, ast.Call):
        e = e.func
        # six.raise_from(Exc(...), None) is a call statement, handled by callers
    if isinstance(e, ast.Name):
        return e.id
    if isinstance(e, ast.Attribute):
        return e.attr
    return "?"


class CFG:
    def __init__(self, func_node, extra_raises=None):
        """extra_raises: callable(ast stmt/expr list) -> list of exception names the node may raise (besides `raise`)."""
        self.func = func_node
        self.nodes = []
        self.succ = {}
        self.exc_succ = {}  # node id -> set of (target id, exc name)
        self.extra_raises = extra_raises
        self.entry = self._new("entry")
        self.exit = self._new("exit")
        self.raise_exit = self._new("raise_exit")
        self._handler_entry = {}  # id(ExceptHandler) -> node id
        self._try_after_handlers = {}
        self._loop_stack = []
        self._return_nodes = []
        last = self._block(func_node.body, [self.entry.id], (), ())
        for p in last:
            self._edge(p, self.exit.id)
        self._add_exceptional_edges()
        self._pred = None

    # ------------------------------------------------------------ construction
    def _new(self, kind, stmt=None, expr=None, try_stack=(), in_handler=()):
        n = Node(len(self.nodes), kind, stmt, expr, try_stack, in_handler)
        self.nodes.append(n)
        self.succ[n.id] = set()
        self.exc_succ[n.id] = set()
        return n

    def _edge(self, a, b):
        self.succ[a].add(b)

    def _block(self, body, preds, ts, ih):
        for st in body:
            preds = self._stmt(st, preds, ts, ih)
        return preds

    def _stmt(self, st, preds, ts, ih):
        if isinstance(st, ast.If):
            t = self._new("test", st, st.test, ts, ih)
            for p in preds:
                self._edge(p, t.id)
            a = self._block(st.body, [t.id], ts, ih)
            b = self._block(st.orelse, [t.id], ts, ih) if st.orelse else [t.id]
            return a + b
        if isinstance(st, (ast.For, ast.AsyncFor)):
            h = self._new("for", st, st.iter, ts, ih)
            for p in preds:
                self._edge(p, h.id)
            self._loop_stack.append({"head": h.id, "breaks": []})
            body_end = self._block(st.body, [h.id], ts, ih)
            for p in body_end:
                self._edge(p, h.id)
            info = self._loop_stack.pop()
            out = self._block(st.orelse, [h.id], ts, ih) if st.orelse else [h.id]
            return out + info["breaks"]
        if isinstance(st, ast.While):
            h = self._new("test", st, st.test, ts, ih)
            for p in preds:
                self._edge(p, h.id)
            self._loop_stack.append({"head": h.id, "breaks": []})
            body_end = self._block(st.body, [h.id], ts, ih)
            for p in body_end:
                self._edge(p, h.id)
            info = self._loop_stack.pop()
            infinite = isinstance(st.test, ast.Constant) and bool(st.test.value)
            out = [] if infinite else (self._block(st.orelse, [h.id], ts, ih) if st.orelse else [h.id])
            return out + info["breaks"]
        if isinstance(st, (ast.With, ast.AsyncWith)):
            w = self._new("with", st, ast.Tuple(elts=[i.context_expr for i in st.items], ctx=ast.Load()), ts, ih)
            for p in preds:
                self._edge(p, w.id)
            return self._block(st.body, [w.id], ts, ih)
        if isinstance(st, ast.Try) or (hasattr(ast, "TryStar") and isinstance(st, getattr(ast, "TryStar"))):
            j = self._new("join", st, None, ts, ih)
            for p in preds:
                self._edge(p, j.id)
            # handler entry nodes first so that raise edges can find them
            for h in st.handlers:
                hn = self._new("except", h, None, ts, ih)
                self._handler_entry[id(h)] = hn.id
            body_end = self._block(st.body, [j.id], ts + (st,), ih)
            else_end = self._block(st.orelse, body_end, ts, ih) if st.orelse else body_end
            ends = list(else_end)
            for h in st.handlers:
                hid = self._handler_entry[id(h)]
                ends += self._block(h.body, [hid], ts, ih + (h,))
            if st.finalbody:
                f = self._new("join", st, None, ts, ih)
                for p in ends:
                    self._edge(p, f.id)
                self._try_after_handlers[id(st)] = f.id
                return self._block(st.finalbody, [f.id], ts, ih)
            return ends
        if isinstance(st, ast.Return):
            n = self._new("stmt", st, None, ts, ih)
            for p in preds:
                self._edge(p, n.id)
            self._edge(n.id, self.exit.id)
            self._return_nodes.append(n.id)
            return []
        if isinstance(st, ast.Raise):
            n = self._new("stmt", st, None, ts, ih)
            for p in preds:
                self._edge(p, n.id)
            return []
        if isinstance(st, ast.Break):
            n = self._new("stmt", st, None, ts, ih)
            for p in preds:
                self._edge(p, n.id)
            if self._loop_stack:
                self._loop_stack[-1]["breaks"].append(n.id)
            return []
        if isinstance(st, ast.Continue):
            n = self._new("stmt", st, None, ts, ih)
            for p in preds:
                self._edge(p, n.id)
            if self._loop_stack:
                self._edge(n.id, self._loop_stack[-1]["head"])
            return []
        if isinstance(st, (ast.FunctionDef, ast.AsyncFunctionDef, ast.ClassDef)):
            n = self._new("stmt", st, None, ts, ih)  # definition only; body not entered
            for p in preds:
                self._edge(p, n.id)
            return [n.id]
        if hasattr(ast, "Match") and isinstance(st, ast.Match):
            t = self._new("test", st, st.subject, ts, ih)
            for p in preds:
                self._edge(p, t.id)
            outs = [t.id]
            for case in st.cases:
                outs += self._block(case.body, [t.id], ts, ih)
            return outs
        # simple statement
        n = self._new("stmt", st, None, ts, ih)
        for p in preds:
            self._edge(p, n.id)
        if _is_assert_false(st) or _is_noreturn_call(st):
            return []
        return [n.id]

    def exception_target(self, node, exc_name):
        """Where does an exception `exc_name` raised at `node` go? -> node id (handler entry or raise_exit)."""
        for t in reversed(node.try_stack):
            for h in t.handlers:
                for hn in _handler_names(h):
                    if exc_name.startswith("?") or exc_is_a(exc_name, hn):
                        return self._handler_entry[id(h)]
        return self.raise_exit.id

    def _add_exceptional_edges(self):
        for n in list(self.nodes):
            if n.kind == "stmt" and isinstance(n.stmt, ast.Raise):
                name = raised_name(n.stmt)
                if name == "?reraise" and n.in_handler:
                    # re-raise inside a handler: propagates out of the try statement owning the handler
                    self.exc_succ[n.id].add((self._outer_target(n), name))
                else:
                    self.exc_succ[n.id].add((self.exception_target(n, name), name))
            elif n.kind == "stmt" and _raise_from_call(n.stmt) is not None:
                name = _raise_from_call(n.stmt)
                self.exc_succ[n.id].add((self.exception_target(n, name), name))
            elif self.extra_raises is not None and n.kind in ("stmt", "test", "for", "with"):
                for name in self.extra_raises(n) or ():
                    self.exc_succ[n.id].add((self.exception_target(n, name), name))

    def _outer_target(self, n):
        # exception leaving a handler body: search the try stack of the node itself (handler bodies carry the
        # try stack of the enclosing context, not of their own try)
        for t in reversed(n.try_stack):
            for h in t.handlers:
                return self._handler_entry[id(h)]
        return self.raise_exit.id

    # ------------------------------------------------------------ queries
    def stmt_nodes(self):
        return [n for n in self.nodes if n.kind in ("stmt", "test", "for", "with")]

    def successors(self, nid, exceptional=True):
        out = set(self.succ[nid])
        if exceptional:
            out |= {t for t, _ in self.exc_succ[nid]}
        return out

    def reachable_from(self, start_ids, exceptional=True, avoid=None):
        avoid = avoid or (lambda n: False)
        seen = set()
        stack = list(start_ids)
        while stack:
            x = stack.pop()
            if x in seen:
                continue
            seen.add(x)
            for y in self.successors(x, exceptional):
                if y not in seen and not avoid(self.nodes[y]):
                    stack.append(y)
        return seen

    def find_path(self, src, dst_pred, exceptional=True, avoid=None, strict=True):
        """Shortest path (list of nodes) from node id `src` to a node satisfying dst_pred; avoid(n) nodes are not entered.
        strict: path must have at least one edge."""
        from collections import deque

        avoid = avoid or (lambda n: False)
        prev = {src: None}
        dq = deque([src])
        first = True
        while dq:
            x = dq.popleft()
            if (not first or not strict) and dst_pred(self.nodes[x]):
                path = []
                while x is not None:
                    path.append(self.nodes[x])
                    x = prev[x]
                return path[::-1]
            first = False
            for y in sorted(self.successors(x, exceptional)):
                if y == src and strict and dst_pred(self.nodes[y]) and y not in prev:
                    pass
                if y not in prev and not avoid(self.nodes[y]):
                    prev[y] = x
                    dq.append(y)
                elif y == src and strict and dst_pred(self.nodes[y]):
                    # cycle back to the source
                    path = [self.nodes[y]]
                    z = x
                    while z is not None:
                        path.append(self.nodes[z])
                        z = prev[z]
                    return path[::-1]
        return None

    def all_paths_pass(self, src, through_pred, to=None, exceptional=False):
        """True iff every path from `src` (exclusive) to `to` (default: normal EXIT) passes a node satisfying through_pred.
        Returns (ok, witness_path)."""
        to = self.exit.id if to is None else to
        path = self.find_path(src, lambda n: n.id == to, exceptional=exceptional, avoid=through_pred)
        return (path is None), path

    def dominated_by(self, target, pred):
        """True iff every path from ENTRY to node id `target` passes a node (before target) satisfying pred."""
        path = self.find_path(self.entry.id, lambda n: n.id == target, exceptional=True, avoid=lambda n: n.id != target and pred(n), strict=False)
        return (path is None), path


def _is_assert_false(st):
    return isinstance(st, ast.Assert) and isinstance(st.test, ast.Constant) and st.test.value is False


def _raise_from_call(st):
    """six.raise_from(Exc(...), cause) used as a raise statement -> exception name."""
    if isinstance(st, ast.Expr) and isinstance(st.value, ast.Call):
        f = st.value.func
        if isinstance(f, ast.Attribute) and f.attr == "raise_from" and st.value.args:
            e = st.value.args[0]
            if isinstance(e, ast.Call):
                e = e.func
            if isinstance(e, ast.Name):
                return e.id
            return "?"
    return None


def _is_noreturn_call(st):
    return _raise_from_call(st) is not None
