"""C19 - invalid specifications are rejected loudly and leave the object unchanged: R-A path rule + guard presence table."""
import ast

from ..engine import AnalysisError, norm_stmt, path_text
from ..effects import self_attr
from . import cache, common
from .ra import RA

CLASSES = [
    "XYFit", "IndexedFit", "HistFit", "UnbinnedFit", "CustomFit", "MultiFit",
    "IndexedContainer", "XYContainer", "HistContainer", "UnbinnedContainer",
    "IndexedParametricModel", "XYParametricModel", "HistParametricModel", "UnbinnedParametricModel",
    "Nexus", "NexusFitter", "MinimizerIMinuit", "MinimizerScipyOptimize",
    "CovMat", "SimpleGaussianError", "MatrixGaussianError",
    "GaussianSimpleParameterConstraint", "GaussianMatrixParameterConstraint", "ConfidenceLevel",
    "Function", "Tuple", "Array", "Alias", "Fallback", "Parameter", "RootNode",
]

# caches / scratch space: refreshing or clearing them in a rejected call changes no later result (each confirmed by reading)
NONSTATE = [
    "_total_error", "_pm_calculation_stale", "_model_parameters",  # lazily re-pushed / recomputed on every read (C02, C03)
    "__iminuit", "_fmin_struct", "_par_val", "_par_err", "_fval", "_hessian", "_hessian_inv", "_par_cov_mat", "_par_cor_mat", "_par_asymm_err",  # adapter caches (C08)
    "_save_state_dict", "_x0", "_opt_result",  # adapter scratch space
    "_dynamic_error_warning_printed", "_slow_chi2_warning_printed", "_printed_inf_cost_warning",  # warn-once flags
    "_cov_mat", "_cov_mat_rel", "_err", "_err_rel", "_chol", "_inverse", "_cor_mat", "_cond",  # lazily recomputed matrices (C02)
    "_value", "_stale", "_par_cache",  # node caches (C04)
]

# candidates confirmed infeasible / harmless by reading, keyed by (function qualname, rejection description prefix)
EXEMPT = {
    ("MinimizerBase.set_several", "call self.set"): "internal bulk setter; every in-repo caller passes the adapter's own parameter names, for which set() cannot reject",
    ("MinimizerBase.fix_several", "call self.fix"): "internal bulk operation; in-repo callers pass the adapter's own parameter names",
    ("MinimizerBase.release_several", "call self.release"): "internal bulk operation; in-repo callers pass the adapter's own parameter names",
    ("MinimizerBase._get_cost_value", "call self.set"): "parameter_name comes from the adapter's own name list (validated by the public entry points)",
    ("MinimizerBase._get_arrow_specs", "call self._get_cost_value"): "same as _get_cost_value",
    ("MinimizerBase._get_profile_bound", "call self._get_cost_value"): "same as _get_cost_value (the canonical program writes _get_arrow_specs out in its only caller)",
    ("MultiFit._init_shared_error_nodes", "call self._nexus.add"): "node names are generated from unique fit indices and cannot clash",
}

# (class, function, exception, tokens that must occur in the guarding condition, what is rejected)
GUARDS = [
    ("DataContainerBase", "_add_error_object", "ValueError", ["shape", "size"], "uncertainty array whose size does not match the data"),
    ("DataContainerBase", "_add_error_object", "ValueError", ["_error_dicts", "name"], "duplicate source name"),
    ("DataContainerBase", "_get_error_by_name_raise", "ValueError", ["None"], "unknown uncertainty-source name"),
    ("SimpleGaussianError", "error.fset", "ValueError", ["err_val", "0"], "negative uncertainties"),
    ("SimpleGaussianError", "error_rel.fset", "ValueError", ["err_val", "0"], "negative relative uncertainties"),
    ("SimpleGaussianError", "__init__", "ValueError", ["corr_coeff", "0.0", "1.0"], "correlation coefficient outside [0, 1]"),
    ("SimpleGaussianError", "__init__", "ValueError", ["ndim", "1"], "uncertainty array of wrong dimension"),
    ("MatrixGaussianError", "_calculate_cov_mat_from_cor_mat_and_error_array", "ValueError", ["diag", "1.0"], "correlation matrix without unit diagonal"),
    ("MatrixGaussianError", "_calculate_cov_mat_from_cor_mat_and_error_array", "ValueError", ["shape", "error_array", "corr_mat"], "error array / correlation matrix size mismatch"),
    ("MatrixGaussianError", "__init__", "ValueError", ["ndim", "2"], "error matrix that is not two-dimensional"),
    ("CovMat", "mat.fset", "ValueError", ["ndim", "shape"], "non-square covariance matrix"),
    ("GaussianMatrixParameterConstraint", "__init__", "ValueError", ["array_equal", "T"], "non-symmetric constraint matrix"),
    ("GaussianMatrixParameterConstraint", "__init__", "ValueError", ["shape", "_values"], "wrongly shaped constraint matrix"),
    ("GaussianMatrixParameterConstraint", "__init__", "ValueError", ["diag", "1.0"], "constraint correlation matrix without unit diagonal"),
    ("FitBase", "__init__", "ValueError", ["RESERVED_NODE_NAMES"], "model parameters with reserved names"),
    ("FitBase", "data.fset", "ValueError", ["_data_and_cost_compatible"], "data incompatible with the cost function (Poisson with negative / non-integer data)"),
    ("FitBase", "add_parameter_constraint", "ValueError", ["<except ValueError>"], "unknown parameter name in a simple constraint"),
    ("FitBase", "add_matrix_parameter_constraint", "ValueError", ["<except ValueError>"], "unknown parameter name in a matrix constraint"),
    ("FitBase", "add_matrix_parameter_constraint", "ValueError", ["len", "names", "values"], "names / values length mismatch"),
    ("FitBase", "limit_parameter", "ValueError", ["lower", "upper", "None"], "limit without any bound"),
    ("FitBase", "add_error", "ValueError", ["<else>"], "unknown reference specification"),
    ("NexusFitter", "set_fit_parameter_values", "ValueError", ["parameters_to_fit|_fit_par_names", "parameter_value_dict"], "unknown parameter names"),
    ("NexusFitter", "set_all_fit_parameter_values", "ValueError", ["len"], "value list of the wrong length"),
    ("NexusFitter", "_get_pars_from_nexus", "ValueError", ["_nx.get", "is None"], "names that are not nodes of the graph"),
    ("MinimizerIMinuit", "set", "ValueError", ["parameter_name", "not in"], "unknown parameter name"),
    ("MinimizerIMinuit", "fix", "ValueError", ["parameter_name", "not in"], "unknown parameter name"),
    ("MinimizerIMinuit", "release", "ValueError", ["parameter_name", "not in"], "unknown parameter name"),
    ("MinimizerIMinuit", "limit", "ValueError", ["parameter_name", "not in"], "unknown parameter name"),
    ("MinimizerIMinuit", "unlimit", "ValueError", ["parameter_name", "not in"], "unknown parameter name"),
    ("MinimizerScipyOptimize", "set", "ValueError", ["parameter_name", "not in"], "unknown parameter name"),
    ("MinimizerScipyOptimize", "fix", "ValueError", ["<list.index first>"], "unknown parameter name"),
    ("MinimizerScipyOptimize", "release", "ValueError", ["<list.index first>"], "unknown parameter name"),
    ("MinimizerScipyOptimize", "limit", "ValueError", ["<list.index first>"], "unknown parameter name"),
    ("MinimizerScipyOptimize", "unlimit", "ValueError", ["<list.index first>"], "unknown parameter name"),
    ("CostFunction_NegLogLikelihood", "is_data_compatible", "<return False>", ["data", "% 1", "< 0"], "Poisson likelihood with negative or non-integer data"),
    ("HistContainer", "rebin", "ValueError", ["diff", ">= 0"], "unsorted bin edges"),
    ("HistContainer", "set_bins", "ValueError", ["len", "bin_heights", "self._data"], "bin heights that do not match the binning"),
    ("XYContainer", "__init__", "ValueError", ["shape", "x_data", "y_data"], "x and y of different shape"),
    ("XYContainer", "_find_axis_raise", "ValueError", ["None"], "unknown axis"),
    ("Nexus", "add", "ValueError", ["name", "_nodes"], "duplicate node name (behaviour 'fail')"),
    ("Nexus", "add_dependency", "ValueError", ["None"], "dependency on / of an unknown node"),
    ("NodeCycleChecker", "visit", "ValueError", ["in", "seen"], "cyclic dependency"),
    ("ConfidenceLevel", "cl.fset", "ValueError", ["new_cl", "0", "1"], "confidence level outside (0, 1)"),
    ("ConfidenceLevel", "sigma.fset", "ValueError", ["new_sigma", "0"], "non-positive sigma"),
]


def _get_func(p, cname, fname):
    c = p.find_class(cname)
    if "." in fname:
        pn, acc = fname.split(".")
        pr = c.find_prop(pn)
        f = getattr(pr, acc) if pr else None
    else:
        f = c.find_method(fname)
    if f is None:
        raise AnalysisError("anchor %s.%s not found" % (cname, fname))
    return c, f


def _guard_found(eng, c, f, exc, tokens):
    f = eng.cfunc(f, paths=False)  # canonical form: a guard moved into a private helper, a renamed or split temporary, a negated test are the same guard
    node = f.node
    if tokens == ["<except ValueError>"]:
        # try: X.index(name) except ValueError: raise ValueError  - in the function itself or in a private helper of the same class that it calls
        nodes = [node]
        for c_ in ast.walk(node):
            if isinstance(c_, ast.Call) and isinstance(c_.func, ast.Attribute) and isinstance(c_.func.value, ast.Name) and c_.func.value.id == "self" and c_.func.attr.startswith("_") and f.cls is not None:
                h_ = f.cls.find_method(c_.func.attr)
                if h_ is not None and hasattr(h_, "node"):
                    nodes.append(h_.node)
        for t in (x for nd in nodes for x in ast.walk(nd)):
            if isinstance(t, ast.Try):
                has_index = any(isinstance(x, ast.Call) and isinstance(x.func, ast.Attribute) and x.func.attr == "index" for b in t.body for x in ast.walk(b))
                for h in t.handlers:
                    if has_index and any(isinstance(r, ast.Raise) for b in h.body for r in ast.walk(b)):
                        return True
        return False
    if tokens == ["<list.index first>"]:
        # the name is looked up with list.index (raises ValueError) before the first store
        g = eng.cfg(f)
        for n in g.stmt_nodes():
            has_index = any(isinstance(x, ast.Call) and isinstance(x.func, ast.Attribute) and x.func.attr == "index" and "parameter_name" in ast.unparse(x)
                            for part in n.ast_parts() for x in ast.walk(part))
            if has_index:
                return True
            if eng.eff.node_effects(c, f, n.ast_parts(), "w"):
                return False
            if n.kind == "stmt" and isinstance(n.stmt, ast.Assert):
                continue
        return False
    if exc == "<return False>":
        for r in ast.walk(node):
            if isinstance(r, ast.Return) and isinstance(r.value, ast.Tuple) and r.value.elts and isinstance(r.value.elts[0], ast.Constant) and r.value.elts[0].value is False:
                conds = common.guard_conditions(node, r)
                txt = " ".join(ast.unparse(cd) for cd, _ in conds)
                if all(t in txt for t in tokens):
                    return True
        return False
    for r in ast.walk(node):
        name = None
        if isinstance(r, ast.Raise):
            e = r.exc.func if isinstance(r.exc, ast.Call) else r.exc
            name = getattr(e, "id", getattr(e, "attr", None))
        elif isinstance(r, ast.Call) and isinstance(r.func, ast.Attribute) and r.func.attr == "raise_from" and r.args:
            e = r.args[0].func if isinstance(r.args[0], ast.Call) else r.args[0]
            name = getattr(e, "id", getattr(e, "attr", None))
        if name != exc:
            continue
        conds = common.guard_conditions(node, r)
        if tokens == ["<else>"]:
            # reached only when none of the recognised alternatives matched: the innermost guard is an else branch, or (flat form) a `!=` / `not in` test
            if conds and (not conds[-1][1] or (isinstance(conds[-1][0], ast.Compare) and len(conds[-1][0].ops) == 1 and isinstance(conds[-1][0].ops[0], (ast.NotEq, ast.NotIn)))):
                return True
            continue
        txt = " ".join(("not (%s)" % ast.unparse(cd)) if not pol else ast.unparse(cd) for cd, pol in conds)
        # local temporaries used in the condition: add their defining expression
        todo = {x.id for cd, _ in conds for x in ast.walk(cd) if isinstance(x, ast.Name)}
        done = set()
        for _ in range(3):
            nxt = set()
            for nm in todo - done:
                done.add(nm)
                for a in ast.walk(node):
                    if isinstance(a, ast.Assign) and any(isinstance(t, ast.Name) and t.id == nm for t in a.targets):
                        txt += " " + ast.unparse(a.value)
                        nxt |= {x.id for x in ast.walk(a.value) if isinstance(x, ast.Name)}
                    # a list that collects offenders: what is appended, and under which condition
                    if isinstance(a, ast.Call) and isinstance(a.func, ast.Attribute) and a.func.attr in ("append", "add") and isinstance(a.func.value, ast.Name) and a.func.value.id == nm:
                        for cd, pol in common.guard_conditions(node, a):
                            txt += " " + (("not (%s)" % ast.unparse(cd)) if not pol else ast.unparse(cd))
                            nxt |= {x.id for x in ast.walk(cd) if isinstance(x, ast.Name)}
            todo = nxt
        if all(any(alt in txt for alt in t.split("|")) for t in tokens):
            return True
    return False


def run(eng, R):
    p = eng.p
    ra = RA(eng, NONSTATE)
    R.rule("RA", "no rejection point (escaping raise / validator call) is reachable after a state write unless the write is rolled back; all functions "
                 "executable after construction on the anchor classes", 280)
    R.rule("GUARD", "each class of invalid specification named in the property has its guard (entry point, exception type, tested quantity)", len(GUARDS))
    n_funcs = 0
    used_exempt = set()
    seen_keys = set()
    for cn in CLASSES:
        ctx = p.find_class(cn)
        live = _post_construction_functions(eng, ctx)
        for f in cache.visible_functions(ctx):
            if f.name.startswith("__") or f.kind == "getter":
                continue
            if id(f) not in live:
                continue
            n_funcs += 1
            cands = ra.candidates(ctx, f)
            key = "%s:%s" % (ctx.name if f.cls is None else f.cls.name, f.qualname)
            if key in seen_keys:
                continue  # same function body already judged in another class context with the same outcome key
            if not cands:
                seen_keys.add(key)
                R.ob("RA", f.qualname, True, eng.where(f), "", nontrivial=False)
                continue
            seen_keys.add(key)
            for w, r, path, desc, ws in cands[:1]:
                ex = None
                for (fq, dp), why in EXEMPT.items():
                    if fq == f.qualname and desc.startswith(dp):
                        ex = why
                        used_exempt.add((fq, dp))
                # the same exemptions hold wherever the canonical program has written the exempted helper out: a private function of the adapter base class that
                # rejects only through the adapter's own set / fix / release (parameter names from the adapter's own list)
                if ex is None and f.qualname.startswith("MinimizerBase._") and desc.startswith(("call self.set", "call self.fix", "call self.release", "call self._get_cost_value")):
                    ex = "private helper of the adapter base class: parameter names come from the adapter's own name list (see the exemptions of _get_cost_value / set_several)"
                if ex:
                    R.ob("RA", f.qualname, True, eng.where(f, w.stmt), "exempt: %s" % ex)
                    continue
                # keyed by function and rejection point (not by the text of the write statement, which changes with the way arguments are passed)
                R.ob("RA", "%s~>%s" % (f.qualname, desc.split(":")[0][:60]), False, eng.where(f, w.stmt),
                     "%s (as %s) writes %s and can afterwards still reject the call (%s) without undoing the write: %s" % (f.qualname, ctx.name, ws[:3], desc[:140], path_text(f, path)[:6]))
    # ---- results injected from a file / by a MultiFit are dropped only after the forwarded call has accepted the request
    R.rule("RA-fwd", "a fit mutator that forwards to its fitter (which rejects unknown parameter names / bad values) drops the loaded results only after that call returned", 6)
    FORWARDED = {"set_fit_parameter_values", "set_all_fit_parameter_values", "fix_parameter", "release_parameter", "limit_parameter", "unlimit_parameter"}
    fb = p.find_class("FitBase")
    for f in sorted(fb.methods.values(), key=lambda m: m.name):
        g = eng.cfg(f)
        drops = [n for n in g.nodes if n.kind == "stmt" and isinstance(n.stmt, ast.Assign) and any(self_attr(t) == "_loaded_result_dict" for t in n.stmt.targets)
                 and isinstance(n.stmt.value, ast.Constant) and n.stmt.value.value is None]
        fwd = [n for n in g.nodes if any(isinstance(c, ast.Call) and isinstance(c.func, ast.Attribute) and c.func.attr in FORWARDED and self_attr(c.func.value) == "_fitter"
                                         for part in n.ast_parts() for c in ast.walk(part))]
        if not drops or not fwd:
            continue
        bad = [(a, b) for a in drops for b in fwd if g.find_path(a.id, lambda m, b=b: m.id == b.id, exceptional=False)]
        R.ob("RA-fwd", f.qualname, not bad, eng.where(f, bad[0][0].stmt) if bad else eng.where(f),
             "%s drops the results loaded from a file / injected by a MultiFit before it forwards to the fitter, which can still reject the call (unknown parameter name): after "
             "the rejected call did_fit is False and uncertainties / covariance are gone although nothing was changed" % f.qualname)
    R.info["functions analysed for R-A"] = n_funcs
    for k, why in EXEMPT.items():
        R.note("R-A exemption %s: %s%s" % (k, why, "" if k in used_exempt else " (not matched on this tree)"))
    for cname, fname, exc, tokens, what in GUARDS:
        c, f = _get_func(p, cname, fname)
        ok = _guard_found(eng, c, f, exc, tokens)
        R.ob("GUARD", "%s.%s:%s" % (cname, fname, what), ok, eng.where(f),
             "%s.%s no longer rejects %s (expected a %s guarded by a test on %s)" % (cname, fname, what, exc, tokens))


def _post_construction_functions(eng, ctx):
    """ids of functions reachable (same-object calls) from any non-constructor entry point: public methods, setters, and
    private functions that are called from those. Functions only reachable from __init__ are construction-time."""
    live = set()
    stack = []
    for f in cache.visible_functions(ctx):
        if f.name == "__init__":
            continue
        public = not f.name.startswith("_") or f.kind in ("setter",) or (f.name.startswith("__") and f.name.endswith("__"))
        if f.kind in ("getter", "setter", "deleter"):
            public = not f.prop.startswith("_")
        if public:
            stack.append(f)
    # callbacks registered on other objects are entry points too
    for f in cache.visible_functions(ctx):
        if f.name in ("_on_error_change",):
            stack.append(f)
    while stack:
        f = stack.pop()
        if id(f) in live:
            continue
        live.add(id(f))
        for cs in eng.eff.summary(ctx, f).calls:
            if cs.prefix == "":
                for c2, f2 in cs.targets:
                    if f2.name != "__init__":
                        stack.append(f2)
    return live
