"""Generic cache-coherence rule (R-C): writers of an input of a cache must reach the cache's invalidator.

cache inputs are *derived* from the compute function's transitive read set, so writers of fields that merely sit
next to a cache create no obligation.
"""
import ast

from ..effects import is_self, self_attr, walk_no_nested
from ..engine import norm_stmt, path_text
from ..srcmodel import FuncInfo, PropInfo
from . import common


# set by the engine: f -> True if f is a private helper that the canonical program has written out at every one of its call sites (dead code there: it is decided
# as part of its callers, never on its own)
ABSORBED = [None]


def visible_functions(ctx, with_shadowed=False):
    fs = _visible_functions(ctx, with_shadowed)
    if ABSORBED[0] is not None:
        fs = [f for f in fs if not (hasattr(f, "node") and ABSORBED[0](f))]
    return fs


def _visible_functions(ctx, with_shadowed=False):
    """Every function an instance of ctx can execute: first definition in the MRO per name, getters and setters included.
    with_shadowed: also the overridden definitions further up the MRO (reachable only through super()/explicit calls)."""
    out = []
    seen = set()
    shadowed = []
    for k in ctx.mro:
        for name, f in k.methods.items():
            if ("m", name) not in seen:
                seen.add(("m", name))
                out.append(f)
            else:
                shadowed.append(f)
    props = {}
    for k in reversed(ctx.mro):
        for name, p in k.props.items():
            props[name] = p
    top = set()
    for name, p in props.items():
        for f in (p.fget, p.fset, p.fdel):
            if f is not None:
                out.append(f)
                top.add(id(f))
    for k in ctx.mro:
        for name, p in k.props.items():
            for f in (p.fget, p.fset, p.fdel):
                if f is not None and id(f) not in top and f.cls is k:
                    shadowed.append(f)
                    top.add(id(f))
    if with_shadowed:
        return out + shadowed
    return out


def is_private_helper(f):
    """private method that cannot be an external entry point (public methods and accessors of public properties can)"""
    if f.kind in ("getter", "setter", "deleter"):
        return f.prop.startswith("_")
    return f.name.startswith("_") and not (f.name.startswith("__") and f.name.endswith("__"))


def direct_invalidation_pred(fields, empty_values=(None,)):
    """CFG node directly assigns an 'empty' constant to self.<field> for all of `fields` ... (any one of them counts per node)"""

    def pred(n):
        st = n.stmt
        if n.kind == "stmt" and isinstance(st, ast.Assign) and isinstance(st.value, ast.Constant) and st.value.value in empty_values:
            return any(self_attr(t) in fields for t in st.targets)
        return False

    return pred


def callers_of(eng, ctx, func):
    """[(caller FuncInfo, CallSite)] among functions visible on ctx that call `func` on the same object."""
    out = []
    for f in visible_functions(ctx, with_shadowed=True):
        if f is func:
            continue
        for cs in eng.eff.summary(ctx, f).calls:
            if cs.prefix == "" and any(f2 is func for _, f2 in cs.targets):
                out.append((f, cs))
    return out


def check_writers_invalidate(eng, R, rule, ctx, inputs, inval_pred, skip_funcs=(), what="cache", site_filter=None, depth=2, cache_fields=()):
    """For every direct write site (in any function visible on ctx) to a field in `inputs`: all normal paths from the site to
    the function exit pass an invalidating node; if not, every same-object caller must invalidate after the call."""
    n_sites = 0
    for f in visible_functions(ctx):
        if f.name == "__init__" or f in skip_funcs or f.name in skip_funcs:
            continue
        summ = eng.eff.summary(ctx, f)
        sites = [s for s in summ.sites if s.kind == "w" and s.path in inputs]
        if site_filter:
            sites = [s for s in sites if site_filter(f, s)]
        if not sites:
            continue
        g = eng.cfg(f)
        sat = eng.satisfying_nodes(ctx, f, inval_pred)
        for s in sites:
            n_sites += 1
            cn = common.cfg_node_of(g, s.node)
            ok, wit = g.all_paths_pass(cn.id, lambda n: n.id in sat)
            if cn.id in sat:
                ok = True
            how = "directly"
            if not ok and cache_fields:
                # invalidate-then-write is equivalent when nothing between the invalidation and the write can recompute the cache
                def recomputes(n):
                    if n.id in sat or n.id == cn.id:
                        return False
                    return bool(set(cache_fields) & eng.eff.node_effects(ctx, f, n.ast_parts(), "w"))
                dom, _ = g.dominated_by(cn.id, lambda n: n.id in sat)
                if dom:
                    # every path from an invalidator to the site must be free of recomputation
                    clean = True
                    for inv_id in sat:
                        reach = g.reachable_from([inv_id], exceptional=False)
                        if cn.id not in reach:
                            continue
                        pth = g.find_path(inv_id, lambda n: recomputes(n) and cn.id in g.reachable_from([n.id], exceptional=False), exceptional=False,
                                          avoid=lambda n: n.id == cn.id)
                        if pth is not None:
                            clean = False
                    if clean:
                        ok = True
                        how = "before the write (nothing recomputes in between)"
            if not ok and depth > 0 and is_private_helper(f):
                cs = callers_of(eng, ctx, f)
                if cs and all(_caller_invalidates(eng, ctx, cf, c, inval_pred, depth - 1) for cf, c in cs):
                    ok = True
                    how = "in all %d callers" % len(cs)
            R.ob(rule, "%s:%s:%s" % (ctx.name, f.qualname, s.path + "<-" + norm_stmt(s.node)[:70]), ok, eng.where(f, s.node),
                 ("%s (as %s) writes %s (%s) and can return without invalidating the %s: %s" % (f.qualname, ctx.name, s.path, norm_stmt(s.node)[:60], what, path_text(f, wit or [])))
                 if not ok else "%s (as %s) writes %s and invalidates the %s %s" % (f.qualname, ctx.name, s.path, what, how))
    return n_sites


def _caller_invalidates(eng, ctx, caller, callsite, inval_pred, depth):
    if caller.name == "__init__":
        return True
    g = eng.cfg(caller)
    sat = eng.satisfying_nodes(ctx, caller, inval_pred)
    cn = common.cfg_node_of(g, callsite.node)
    ok, _ = g.all_paths_pass(cn.id, lambda n: n.id in sat)
    if ok or cn.id in sat:
        return True
    if depth > 0 and is_private_helper(caller):
        cs = callers_of(eng, ctx, caller)
        return bool(cs) and all(_caller_invalidates(eng, ctx, cf, c, inval_pred, depth - 1) for cf, c in cs)
    return False
