"""C10 - degrees of freedom, goodness of fit, chi2 probability follow the documented formulas (R-H, R-F4, R-D2/D4)."""
import ast

from ..effects import is_self, self_attr
from ..engine import AnalysisError, norm_stmt
from ..termform import Normalizer, return_exprs
from . import common
from .formulas import check, get_func

SUM_EXTRA = "SUM(_c.extra_ndf for _c in self._fit_param_constraints)"


def run(eng, R):
    p = eng.p
    R.rule("H-ndf", "ndf = data points - parameters + fixed parameters + constrained-parameter measurements (canonical polynomial form)", 5)
    R.rule("H-prob", "chi2 probability = 1 - chi2.cdf(cost without determinant, ndf) for chi2-type costs; every subtraction of a log-determinant is guarded by the flag saying the cost contains it", 3)
    R.rule("H-gof", "goodness of fit = cost with zeroed determinant - cost handle evaluated at model := data", 5)
    R.rule("F4", "MultiFit overrides keep the terms of the definitions they replace (sum over members, shared cost once)", 3)

    check(eng, R, "H-ndf", "FitBase", "ndf", "return", "self._param_model.ndf + len(self._fitter.fixed_parameters) + " + SUM_EXTRA,
          what="ndf must be model ndf + number of fixed parameters + sum of the constraints' extra_ndf")
    check(eng, R, "H-ndf", "ParametricModelBaseMixin", "ndf", "return", "self.size - self._model_function_object.parcount", what="model ndf must be data points - parameters")
    check(eng, R, "H-ndf", "GaussianSimpleParameterConstraint", "extra_ndf", "return", "1", what="a simple constraint is one additional measurement")
    check(eng, R, "H-ndf", "GaussianMatrixParameterConstraint", "extra_ndf", "return", "len(self.indices)", what="a matrix constraint on n parameters is n additional measurements")
    check(eng, R, "H-ndf", "MultiFit", "ndf", "return",
          "self.data_size - len((self._combined_parameter_node_dict).keys()) + len(self._fitter.fixed_parameters) + " + SUM_EXTRA +
          " + SUM(SUM(_c.extra_ndf for _c in _f.parameter_constraints) for _f in self._fits)",
          when="not", what="multi-fit ndf must be all data points - distinct parameters + fixed + constraints of the multi-fit and of its members")
    # data_size of MultiFit sums the members
    f = get_func(p, "MultiFit", "data_size")
    txt = ast.unparse(f.node)
    R.ob("H-ndf", "MultiFit.data_size", "np.sum(_data_sizes)" in txt and "_fit.data_size for _fit in self._fits" in txt, (f.file, f.lineno), "MultiFit.data_size must sum the data sizes of all members")

    # ---- chi2 probability
    with R.guard("chi2 probability"):
        # path-sensitive: a conditional expression and an early `return None` for non-chi2 cost functions are the same thing
        check(eng, R, "H-prob", "CostFunction", "chi2_probability", "result", "1.0 - chi2.cdf(cost_function_value, ndf)", when="(self.is_chi2)", known=["self.is_chi2", "cost_function_value", "ndf", "()chi2.cdf"],
              what="chi2 probability must be the upper tail 1 - CDF_chi2(ndf)(cost)")
        from .formulas import extract as _extract
        _cp = get_func(p, "CostFunction", "chi2_probability")
        _none_forms = [x.canon() for _, x, _ in _extract(_cp, "result", None, "not (self.is_chi2)", node=eng.cnode(_cp))]   # (no explicit return on that path = None)
        R.ob("H-prob", "CostFunction.chi2_probability:not a chi2", all(x == "None" for x in _none_forms), (_cp.file, _cp.lineno), "no chi2 probability for a cost function that is not a chi2 (found %s)" % _none_forms)
        for cname in ("FitBase", "MultiFit"):
            f = get_func(p, cname, "chi2_probability")
            # every subtraction of a graph node's value (`<cost> -= <x>._nexus.get(...).value`), whatever the accumulator is called
            subs = [n for n in ast.walk(f.node) if isinstance(n, ast.AugAssign) and isinstance(n.op, ast.Sub) and isinstance(n.target, ast.Name)
                    and any(isinstance(c, ast.Call) and isinstance(c.func, ast.Attribute) and c.func.attr == "get" and "_nexus" in ast.unparse(c.func.value) for c in ast.walk(n.value))]
            ok_all = bool(subs)
            bad = None
            for n in subs:
                conds = " ".join(ast.unparse(common.resolve_local(f.node, c)) for c, pol in common.guard_conditions(f.node, n) if pol)   # (a flag held in a local is read through)
                if not ("add_determinant_cost" in conds or "_shared_error_nodes_initialized" in conds):
                    ok_all = False
                    bad = n
            R.ob("H-prob", "%s.chi2_probability:guards" % cname, ok_all, (f.file, bad.lineno if bad else f.lineno),
                 "%s.chi2_probability subtracts a log-determinant (%s) without testing whether the cost contains it (add_determinant_cost / shared cost): "
                 "for members without determinant term the probability is evaluated at the wrong value" % (cname, norm_stmt(bad) if bad else "none found"))
            rets = [r for r in ast.walk(f.node) if isinstance(r, ast.Return) and r.value is not None]
            ok = bool(rets) and all(isinstance(r.value, ast.Call) and isinstance(r.value.func, ast.Attribute) and r.value.func.attr == "chi2_probability"
                                    and len(r.value.args) == 2 and isinstance(r.value.args[0], ast.Name) and r.value.args[0].id in {n.target.id for n in subs}   # (the accumulator the terms were taken off)
                                    and ast.unparse(r.value.args[1]) == "self.ndf" for r in rets) \
                and len({n.target.id for n in subs}) == 1 \
                and any(isinstance(a, ast.Assign) and len(a.targets) == 1 and isinstance(a.targets[0], ast.Name) and a.targets[0].id in {n.target.id for n in subs}
                        and ast.unparse(a.value) == "self.cost_function_value" for a in ast.walk(f.node))
            R.ob("H-prob", "%s.chi2_probability:call" % cname, ok, (f.file, f.lineno), "%s.chi2_probability must evaluate the cost function's chi2_probability at (cost - determinant, self.ndf)" % cname)

    # ---- goodness of fit
    with R.guard("goodness of fit"):
        f = get_func(p, "CostFunction", "goodness_of_fit")
        check(eng, R, "H-gof", "CostFunction", "goodness_of_fit", "return", "self(*args_with_zero_det) - self._cost_function_handle(*args_saturated)",
              rename=None, what="gof = cost - saturated cost") if False else None
        src = eng.csrc(f)
        # placeholders: `_c` the cost, `_a` the argument tuple it is evaluated at, `_b` the argument list of the saturated evaluation (may be the same name as `_a`,
        # rebound), `_id` / `_im` the positions of data and model
        DIFF = [["_c = self(*_a)", "return _c - self._cost_function_handle(*_b)"], ["_c = self(*_a)", "_s = self._cost_function_handle(*_b)", "return _c - _s"],
                ["_c = self(*_a)", "return _c - self._cost_function_handle(*_a)"], ["_c = self(*_a)", "_s = self._cost_function_handle(*_a)", "return _c - _s"]]
        R.ob("H-gof", "CostFunction.goodness_of_fit:difference", common.like_any(src, *DIFF), (f.file, f.lineno), "goodness_of_fit must return cost - saturated cost")
        IDX = ["_id = self._arg_names.index(self._DATA_NAME)", "_im = self._arg_names.index(self._MODEL_NAME)"]
        IDX2 = ["_ix = (self._arg_names.index(self._DATA_NAME), self._arg_names.index(self._MODEL_NAME))", "_id, _im = _ix"]   # (both looked up in one go)
        SAT = [IDX + ["_b[_im] = _b[_id]", "self._cost_function_handle(*_b)"], IDX2 + ["_b[_im] = _b[_id]", "self._cost_function_handle(*_b)"]]
        R.ob("H-gof", "CostFunction.goodness_of_fit:saturated", common.like_any(src, *SAT), (f.file, f.lineno),
             "the saturated cost must be the cost handle evaluated with the model argument replaced by the data")
        R.ob("H-gof", "CostFunction.goodness_of_fit:indices", common.like_any(src, IDX, IDX2), (f.file, f.lineno), "data/model positions must be looked up by the cost function's own data/model names")
        s0 = common.Src(str(src))
        R.ob("H-gof", "CostFunction.goodness_of_fit:cost", s0.like("_c = self(*_a)"), (f.file, f.lineno), "the cost term of the gof must be the full cost (constraints included)")
        ok = common.zeroed_determinant(eng.cnode(f))
        R.ob("H-gof", "CostFunction.goodness_of_fit:zero determinant", ok, (f.file, f.lineno), "the goodness of fit must be independent of the determinant term: the determinant argument is replaced by 0.0 before the cost is evaluated")
        ga = get_func(p, "CostFunction_GaussApproximation", "goodness_of_fit")
        g = eng.cfg(ga)
        sets = [n for n in g.stmt_nodes() if n.kind == "stmt" and isinstance(n.stmt, ast.Assign) and any(self_attr(t) == "_add_determinant_cost_ga" for t in n.stmt.targets)]
        ok = len(sets) == 2 and isinstance(sets[0].stmt.value, ast.Constant) and sets[0].stmt.value.value is False and isinstance(sets[1].stmt.value, ast.Name)
        if ok:
            saved = sets[1].stmt.value.id
            ok = any(isinstance(a, ast.Assign) and isinstance(a.targets[0], ast.Name) and a.targets[0].id == saved and self_attr(a.value) == "_add_determinant_cost_ga" for a in ast.walk(ga.node))
            ok = ok and g.all_paths_pass(sets[0].id, lambda m: m.id == sets[1].id)[0]
        R.ob("H-gof", "CostFunction_GaussApproximation.goodness_of_fit", ok, (ga.file, ga.lineno),
             "the Gaussian-approximation gof must switch its determinant flag off for the evaluation and restore the saved value afterwards")
        fb = get_func(p, "FitBase", "goodness_of_fit")
        src = eng.csrc(fb)
        from . import selection
        _sel = selection.selecting_tests(fb.node)
        _pred = [" ".join(ast.unparse(e).split()) for t, first in _sel for e, pol in selection._predicates(t, first)]
        _ptxt = _pred[0] if len(_pred) == 1 else "is_diagonal(self.total_cov_mat)"
        R.ob("H-gof", "FitBase.goodness_of_fit", src.all_like("_c = self._cost_function_pointwise if self._cost_function_pointwise is not None and %s else self._cost_function" % _ptxt,
                                                              "return _c.goodness_of_fit(*[self._nexus.get(_n).value for _n in _c.arg_names])"),
             (fb.file, fb.lineno), "FitBase.goodness_of_fit must evaluate the selected cost function's gof on the values of its own argument nodes")
        from . import selection
        selection.check(eng, R, "H-gof", fb, "FitBase.goodness_of_fit")

        # the pointwise twin may stand in for the covariance cost only for an exactly diagonal matrix (any tolerance drops small correlations from the gof)
        isd = p.resolve_name(p.module("kafe2.fit.util"), "is_diagonal")
        tol = [common.call_name(c) for c in ast.walk(isd.node) if isinstance(c, ast.Call) and common.call_name(c) in ("allclose", "isclose", "assert_allclose", "array_equiv")]
        cmps = [type(o).__name__ for c in ast.walk(isd.node) if isinstance(c, ast.Compare) for o in c.ops]
        R.ob("H-gof", "is_diagonal:exact", not tol and not any(o in ("Lt", "LtE", "Gt", "GtE") for o in cmps), (isd.file, isd.lineno),
             "is_diagonal uses a tolerance (%s %s): for a covariance with small but non-zero correlations goodness_of_fit evaluates the pointwise chi2 and drops the correlations" % (tol, cmps))

    # ---- MultiFit overrides
    with R.guard("MultiFit overrides"):
        mg = get_func(p, "MultiFit", "goodness_of_fit")
        src = ast.unparse(mg.node)
        ok = "_gof_sum += _gof" in src and "for _fit in self._fits" in src and "_gof_sum += self._shared_cost_function.goodness_of_fit" in src \
            and "if self._shared_error_nodes_initialized and _fit._cost_function.is_chi2:\n        continue" in src.replace("    ", " " * 4).replace("            continue", "        continue")
        msrc = eng.csrc(mg)
        R.ob("F4", "MultiFit.goodness_of_fit", msrc.all_like("for _m in self._fits: if self._shared_error_nodes_initialized and _m._cost_function.is_chi2:", "_g = _m.goodness_of_fit if _g is None: return None _s += _g",
                                                              "if self._shared_error_nodes_initialized: _s += self._shared_cost_function.goodness_of_fit(", "return _s"),
             (mg.file, mg.lineno), "MultiFit.goodness_of_fit must sum the members' gof (chi2 members once through the shared cost when errors are shared)")
        # constraint terms of the multi-fit gof: the multi fit's own constraints, and - for members whose residuals moved into the shared cost - the members' constraints
        def adds_constraints(node, owner):
            for lp in ast.walk(node):
                if isinstance(lp, ast.For) and " ".join(ast.unparse(lp.iter).split()) == "%s.parameter_constraints" % owner and isinstance(lp.target, ast.Name):
                    for a in ast.walk(lp):
                        if isinstance(a, ast.AugAssign) and isinstance(a.op, ast.Add) and " ".join(ast.unparse(a.value).split()) == "%s.cost(%s.parameter_values)" % (lp.target.id, owner):
                            return True
            return False

        R.ob("H-gof", "MultiFit.goodness_of_fit:own constraints", adds_constraints(ast.Module(body=mg.node.body, type_ignores=[]), "self"), (mg.file, mg.lineno),
             "the goodness of fit of a MultiFit must contain the cost of the constraints added to the MultiFit (the cost, ndf and probability count them)")
        # the branch of the member loop taken for chi2 members under shared errors (written as `if shared and chi2: ... continue` or as if/else)
        skips = [i for i in ast.walk(mg.node) if isinstance(i, ast.If) and "_shared_error_nodes_initialized" in ast.unparse(i.test) and "is_chi2" in ast.unparse(i.test)
                 and i.body and (isinstance(i.body[-1], ast.Continue) or i.orelse)]
        okc = len(skips) == 1
        if okc:
            lp = [l for l in ast.walk(mg.node) if isinstance(l, ast.For) and skips[0] in l.body]
            okc = bool(lp) and isinstance(lp[0].target, ast.Name) and adds_constraints(ast.Module(body=skips[0].body, type_ignores=[]), lp[0].target.id) \
                and not any(isinstance(x, ast.Attribute) and x.attr == "goodness_of_fit" for st_ in skips[0].body for x in ast.walk(st_))
        R.ob("H-gof", "MultiFit.goodness_of_fit:member constraints with shared errors", okc, (mg.file, mg.lineno),
             "members whose residuals are covered by the shared cost function must still contribute the cost of their own parameter constraints")
        cs = get_func(p, "MultiCostFunction", "cost_sum")
        R.ob("F4", "MultiCostFunction.cost_sum", ast.unparse(cs.node.body[-1]).replace(" ", "") in ("returnnp.sum(single_costs)", "returnsum(single_costs)"), (cs.file, cs.lineno), "the multi-fit cost must be the plain sum of the member costs")
        mc = get_func(p, "MultiFit", "chi2_probability")
        loops = [lp for lp in ast.walk(mc.node) if isinstance(lp, ast.For) and " ".join(ast.unparse(lp.iter).split()) == "self._fits" and isinstance(lp.target, ast.Name)]
        member_terms = [n for lp in loops for n in ast.walk(lp) if isinstance(n, ast.AugAssign) and isinstance(n.op, ast.Sub) and ("%s._nexus.get(" % lp.target.id) in ast.unparse(n.value)]
        R.ob("F4", "MultiFit.chi2_probability:members", bool(member_terms), (mc.file, mc.lineno), "MultiFit.chi2_probability must subtract each member's own determinant term")

    # ---- sibling cross-checks
    with R.guard("determinant term = last argument of the cost function"):
        from .c10_extra import determinant_terms
        determinant_terms(eng, R, p, get_func)
    with R.guard("pointwise twin shares the node-selecting constructor arguments"):
        from .c10_extra import pointwise_twin
        pointwise_twin(eng, R, p)


def _defs(f, expr):
    out = ""
    for n in ast.walk(expr):
        if isinstance(n, ast.Name):
            for a in ast.walk(f.node):
                if isinstance(a, ast.Assign) and any(isinstance(t, ast.Name) and t.id == n.id for t in a.targets):
                    out += " " + ast.unparse(a.value)
    return out
