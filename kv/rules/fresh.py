"""Refresh-before-print (shared by C17 and C18): every print of the *stored* value / uncertainty of a fit's parameter formatters is preceded, in the same
iteration scope, by the refresh of that fit's formatters from the live results."""
import ast

from ..effects import is_self, self_attr, walk_no_nested
from ..engine import AnalysisError
from . import common

REFRESH = "_update_parameter_formatters"
# expressions that denote "the parameter formatters of a fit"
PF_SOURCES = ("_get_model_function_parameter_formatters", "model_function_parameter_formatters", "par_formatters")


def _txt(n):
    return common.src_of(n)


def _kw(call, name, default=None):
    for k in call.keywords:
        if k.arg == name:
            return k.value
    return default


def _loops_enclosing(func_node, node):
    """for/while statements and comprehensions of func_node that contain node (innermost last)"""
    out = []

    def rec(n, stack):
        if n is node:
            out.extend(stack)
            return True
        for ch in ast.iter_child_nodes(n):
            if isinstance(ch, (ast.FunctionDef, ast.AsyncFunctionDef, ast.Lambda)) and ch is not func_node:
                continue
            ns = stack + [ch] if isinstance(ch, (ast.For, ast.While, ast.ListComp, ast.GeneratorExp, ast.SetComp, ast.DictComp)) else stack
            if rec(ch, ns):
                return True
        return False

    rec(func_node, [])
    return out


def print_sites(p):
    """(func, call, receiver text, reads stored numbers?) for every get_formatted call on a parameter formatter taken from a fit"""
    out = []
    for f in p.all_functions():
        src_has = any(s in ast.unparse(f.node) for s in PF_SOURCES)
        if not src_has:
            continue
        # names bound to parameter formatters: loop / comprehension targets over a PF source
        bound = {}
        for n in ast.walk(f.node):
            it, tg = None, None
            if isinstance(n, ast.For):
                it, tg = n.iter, n.target
            elif isinstance(n, ast.comprehension):
                it, tg = n.iter, n.target
            if it is not None and isinstance(tg, ast.Name) and any(s in _txt(it) for s in PF_SOURCES) and "zip(" not in _txt(it):
                bound[tg.id] = it
        for c in walk_no_nested(f.node):
            if isinstance(c, ast.Call) and isinstance(c.func, ast.Attribute) and c.func.attr == "get_formatted" and isinstance(c.func.value, ast.Name) and c.func.value.id in bound:
                we = _kw(c, "with_errors")
                val = _kw(c, "value")
                stored = not (val is not None and isinstance(we, ast.Constant) and we.value is False)
                out.append((f, c, bound[c.func.value.id], stored))
    return out


def refresh_calls(func_node):
    return [c for c in walk_no_nested(func_node) if isinstance(c, ast.Call) and isinstance(c.func, ast.Attribute) and c.func.attr == REFRESH]


def check_site(eng, f, call, depth=2):
    """-> (ok, explanation). The print site must be dominated by a refresh whose enclosing loops all enclose the site (same iteration)."""
    g = eng.cfg(f)
    try:
        cn = common.cfg_node_of(g, call)
    except AnalysisError:
        return False, "print site not found in the control-flow graph"
    rs = refresh_calls(f.node)
    good = []
    bulk = []
    fitbase = eng.p.find_class("FitBase")
    for r in rs:
        try:
            rn = common.cfg_node_of(g, r)
        except AnalysisError:
            continue
        lr = _loops_enclosing(f.node, r)
        lc = _loops_enclosing(f.node, call)
        same_scope = all(any(l is m for m in lc) for l in lr)
        # a call on `self` outside the fit classes is a wrapper of the same name: it refreshes in bulk if it loops over fits internally
        if is_self(r.func.value) and f.cls is not None and fitbase not in f.cls.mro:
            w = f.cls.find_method(REFRESH)
            if w is None:
                continue
            inner = refresh_calls(w.node)
            if not inner:
                continue
            if any(_loops_enclosing(w.node, ic) for ic in inner):
                same_scope = False
        (good if same_scope else bulk).append(rn.id)
    if good:
        ok, wit = g.dominated_by(cn.id, lambda n: n.id in good)
        if ok:
            return True, "refreshed in %s before the print, in the same iteration" % f.qualname
    if bulk:
        ok, _ = g.dominated_by(cn.id, lambda n: n.id in bulk)
        if ok:
            return False, "the formatters are refreshed in a loop over several fits and printed afterwards: formatter objects shared between fits then show the numbers of the fit refreshed last"
    if depth <= 0:
        return False, "no refresh of the parameter formatters dominates the print"
    from . import cache

    callers = []
    for cf in eng.p.all_functions():
        for c in walk_no_nested(cf.node):
            if isinstance(c, ast.Call) and isinstance(c.func, ast.Attribute) and c.func.attr == f.name and is_self(c.func.value) and cf.cls is not None and f.cls is not None \
                    and (cf.cls is f.cls or f.cls in cf.cls.mro or cf.cls in f.cls.mro):
                callers.append((cf, c))
    if not callers:
        return False, "no refresh of the parameter formatters dominates the print in %s, and the function has no callers that could refresh" % f.qualname
    for cf, c in callers:
        ok, why = check_site(eng, cf, c, depth - 1)
        if not ok:
            return False, "via caller %s: %s" % (cf.qualname, why)
    return True, "refreshed in all callers"
