"""C06 - the fit protocol around the minimiser: freeze/fit/unfreeze bracketing, refit iff dynamic uncertainties, fixed / limited parameters
forwarded to and re-applied in every backend, argument re-packing of the scipy adapter. Decides the protocol, not the optimum."""
import ast

from ..effects import is_self, self_attr, walk_no_nested
from ..engine import AnalysisError, norm_stmt
from . import common
from .formulas import get_func as _get_func_raw

_ENG = [None]


def get_func(p, cname, fname):
    """the anchor function in canonical form (kv/canon.py): private helpers written out, aliases resolved, exits / negations / keywords in one form"""
    return _ENG[0].cfunc(_get_func_raw(p, cname, fname), paths=False)


def _txt(n):
    return common.src_of(n)


def _calls_in(node):
    for part in node.ast_parts():
        for c in walk_no_nested(part):
            if isinstance(c, ast.Call):
                yield c


def _self_call(c, name):
    return isinstance(c.func, ast.Attribute) and c.func.attr == name and is_self(c.func.value)


def _fitter_call(c, name):
    return isinstance(c.func, ast.Attribute) and c.func.attr == name and self_attr(c.func.value) == "_fitter"


def _first_fit_arg(c, pos):
    for k in c.keywords:
        if k.arg == "first_fit":
            return _txt(k.value)
    return _txt(c.args[pos]) if len(c.args) > pos else "False"


def run(eng, R):
    p = eng.p
    _ENG[0] = eng
    R.rule("F5", "do_fit: data-referenced model errors before the first pass; every minimiser run is bracketed by _pre_fit_iteration / _post_fit_iteration with the same "
                 "first_fit flag; every later pass resets the minimiser between freeze and fit; a refit happens iff dynamic uncertainties exist (iterative: until the cost "
                 "converges; nonlinear: once)", 10)
    R.rule("F5-freeze", "pre and post iteration walk the same node names; pre = update then freeze, post = unfreeze, update, notify; the freeze list is the model error nodes "
                        "(plus the projected nodes for x errors) exactly in the frozen passes", 8)
    R.rule("F5-sib", "_iterative_fits_needed and _second_fit_needed test the same dynamic-uncertainty condition and differ only in the algorithm name; MultiFit forwards every "
                     "protocol step to all members", 8)
    R.rule("S-fix", "fix / release / limit / unlimit reach the backend and are recorded by the fitter; the fitter synchronises the graph with the backend's final values", 10)
    R.rule("S-imin", "iminuit adapter: the Minuit object is rebuilt from the stored specification with value, fixed flag and limits of every parameter, unconditionally; "
                     "fix/release/limit/unlimit/set update the stored specification; the result of a minimisation is stored back", 10)
    R.rule("S-scipy", "scipy adapter: free parameters are packed in order, fixed ones keep their stored values, the same index expressions unpack the result; bounds follow the "
                      "free parameters; parameter values are stored as floats; the final values are written back to the graph", 10)

    # ------------------------------------------------------------------ F5
    with R.guard("F5"):
        df = get_func(p, "FitBase", "do_fit")  # canonical: a refit block moved into a private helper is written out
        g = eng.cfg(df)
        pre, post, fit, reset, ref = [], [], [], [], []
        for n in g.nodes:
            for c in _calls_in(n):
                if _self_call(c, "_pre_fit_iteration"):
                    pre.append((n, c))
                elif _self_call(c, "_post_fit_iteration"):
                    post.append((n, c))
                elif _fitter_call(c, "do_fit"):
                    fit.append((n, c))
                elif _fitter_call(c, "reset_minimizer"):
                    reset.append((n, c))
                elif _self_call(c, "_set_data_as_model_ref"):
                    ref.append((n, c))
        if not fit or not pre or not post:
            raise AnalysisError("FitBase.do_fit: minimiser runs / pre / post iteration calls not found")
        where = (df.file, df.lineno)
        fit_ids = {n.id for n, _ in fit}
        pre_ids = {n.id for n, _ in pre}
        post_ids = {n.id for n, _ in post}
        reset_ids = {n.id for n, _ in reset}
        ref_ids = {n.id for n, _ in ref}
        # `self._post_fit_iteration(self._fitter.do_fit(), ...)`: the run is an argument of its own post call (one statement)
        post_same = {n.id: c for n, c in post if any(_fitter_call(x, "do_fit") for a in list(c.args) + [k.value for k in c.keywords] for x in ast.walk(a) if isinstance(x, ast.Call))}
        # the first minimiser run: reachable from entry without passing another run
        first = [n for n, _ in fit if g.find_path(g.entry.id, lambda m, n=n: m.id == n.id, exceptional=False, avoid=lambda m, n=n: m.id in fit_ids and m.id != n.id, strict=False)]
        later = [n for n, _ in fit if any(g.find_path(o.id, lambda m, n=n: m.id == n.id, exceptional=False) for o, _ in fit)]
        for n in first:
            ok, _ = g.dominated_by(n.id, lambda m: m.id in ref_ids)
            R.ob("F5", "FitBase.do_fit:data reference before first pass", ok, (df.file, n.lineno),
                 "the first minimiser run is not preceded by _set_data_as_model_ref(): model-relative uncertainties would be taken relative to the start values")
        for n, c in fit:
            srcs = [g.entry.id] + [o.id for o, _ in fit]
            bad = None
            for s in srcs:
                path = g.find_path(s, lambda m, n=n: m.id == n.id, exceptional=False, avoid=lambda m: m.id in pre_ids, strict=(s != g.entry.id))
                if path:
                    bad = path
            R.ob("F5", "FitBase.do_fit:pre before run@%s" % ("first" if n in first and n not in later else "later"), bad is None, (df.file, n.lineno),
                 "a minimiser run can be reached without a fresh _pre_fit_iteration (nodes are not frozen for this pass)")
            path = None if n.id in post_same else g.find_path(n.id, lambda m: m.id == g.exit.id or m.id in fit_ids, exceptional=False, avoid=lambda m: m.id in post_ids)
            R.ob("F5", "FitBase.do_fit:post after run@%s" % ("first" if n in first and n not in later else "later"), path is None, (df.file, n.lineno),
                 "after a minimiser run the function can return / refit without _post_fit_iteration: nodes stay frozen at the values of the previous pass")
            # flags of the bracketing calls
            pf = {_first_fit_arg(pc, 0) for pn, pc in pre if g.find_path(pn.id, lambda m, n=n: m.id == n.id, exceptional=False, avoid=lambda m, n=n: m.id != n.id and m.id in pre_ids | fit_ids)}
            qf = {_first_fit_arg(post_same[n.id], 1)} if n.id in post_same else {_first_fit_arg(qc, 1) for qn, qc in post if g.find_path(n.id, lambda m, qn=qn: m.id == qn.id, exceptional=False, avoid=lambda m, qn=qn: m.id != qn.id and m.id in post_ids | fit_ids)}
            R.ob("F5", "FitBase.do_fit:same flag@%s" % ("first" if n in first and n not in later else "later"), len(pf) == 1 and pf == qf, (df.file, n.lineno),
                 "pre and post iteration around one run use different first_fit flags (%s vs %s): the nodes frozen are not the nodes released" % (sorted(pf), sorted(qf)))
            want_first = "True" if (n in first and n not in later) else "False"
            R.ob("F5", "FitBase.do_fit:flag value@%s" % ("first" if want_first == "True" else "later"), pf == {want_first}, (df.file, n.lineno),
                 "first_fit must be True exactly for the first pass (found %s)" % sorted(pf))
        for n in later:
            bad = None
            for pn, _ in pre:
                path = g.find_path(pn.id, lambda m, n=n: m.id == n.id, exceptional=False, avoid=lambda m: m.id in reset_ids or m.id in pre_ids)
                if path:
                    bad = path
            R.ob("F5", "FitBase.do_fit:reset before later run", bad is None, (df.file, n.lineno), "a refit starts without reset_minimizer(): the backend continues from cached state of the frozen pass")
        # refit iff dynamic
        ifs = [n for n in ast.walk(df.node) if isinstance(n, ast.If) and isinstance(n.test, ast.Call) and _self_call(n.test, "_iterative_fits_needed")]
        ok = len(ifs) == 1
        if ok:
            i = ifs[0]
            loops = [s for s in i.body if isinstance(s, ast.For)]
            ok = len(loops) == 1 and len(i.orelse) == 1 and isinstance(i.orelse[0], ast.If) and isinstance(i.orelse[0].test, ast.Call) and _self_call(i.orelse[0].test, "_second_fit_needed") \
                and not i.orelse[0].orelse
            if ok:
                lp = loops[0]
                body_calls = [c for s in lp.body for c in ast.walk(s) if isinstance(c, ast.Call)]
                ok = any(_fitter_call(c, "do_fit") for c in body_calls)
                el = i.orelse[0]
                el_calls = [c for s in el.body for c in ast.walk(s) if isinstance(c, ast.Call)]
                n_fit_el = sum(1 for c in el_calls if _fitter_call(c, "do_fit"))
                R.ob("F5", "FitBase.do_fit:nonlinear refits once", n_fit_el == 1 and not any(isinstance(s, (ast.For, ast.While)) for s in ast.walk(el) if s is not el), (df.file, el.lineno),
                     "the nonlinear treatment must refit exactly once with unfrozen uncertainties")
                # convergence test
                tests = [s for s in lp.body if isinstance(s, ast.If) and s.body and isinstance(s.body[-1], ast.Break)]
                conv = False
                prev_name = None
                if len(tests) == 1 and isinstance(tests[0].test, ast.Compare) and len(tests[0].test.ops) == 1 and isinstance(tests[0].test.ops[0], (ast.Lt, ast.LtE)):
                    l = tests[0].test.left
                    if isinstance(l, ast.Call) and isinstance(l.func, ast.Name) and l.func.id == "abs" and isinstance(l.args[0], ast.BinOp) and isinstance(l.args[0].op, ast.Sub):
                        a, b = l.args[0].left, l.args[0].right
                        names = [x.id for x in (a, b) if isinstance(x, ast.Name)]
                        live = [x for x in (a, b) if self_attr(x) == "cost_function_value"]
                        if len(names) == 1 and len(live) == 1:
                            prev_name = names[0]
                            idx = lp.body.index(tests[0])
                            upd = [s for s in lp.body[idx + 1:] if isinstance(s, ast.Assign) and _txt(s) == "%s = self.cost_function_value" % prev_name]
                            init = [s for s in i.body if isinstance(s, ast.Assign) and _txt(s) == "%s = self.cost_function_value" % prev_name and s.lineno < lp.lineno]
                            lim = _txt(tests[0].test.comparators[0])
                            limdef = [s for s in i.body if isinstance(s, ast.Assign) and _txt(s.targets[0]) == lim and "convergence_limit" in _txt(s.value)]
                            fit_before = any(_fitter_call(c, "do_fit") for s in lp.body[:idx] for c in ast.walk(s) if isinstance(c, ast.Call))
                            conv = bool(upd) and bool(init) and bool(limdef) and fit_before
                R.ob("F5", "FitBase.do_fit:iterative convergence", ok and conv, (df.file, lp.lineno),
                     "the iterative treatment must refit until |cost - previous cost| < convergence limit, comparing with the cost of the previous pass (updated every pass)")
        R.ob("F5", "FitBase.do_fit:refit iff dynamic", ok, where, "the refit must be `if _iterative_fits_needed(): loop … elif _second_fit_needed(): one refit` with no other path refitting")

    # ------------------------------------------------------------------ F5-freeze
    with R.guard("F5freeze"):
        for fn, want in (("_pre_fit_iteration", ["update", "freeze"]), ("_post_fit_iteration", ["unfreeze", "update", "notify_parents"])):
            f = get_func(p, "FitBase", fn)
            loops = [n for n in ast.walk(f.node) if isinstance(n, ast.For)]
            loops = [l for l in loops if isinstance(l.iter, ast.Call) and _self_call(l.iter, "_get_node_names_to_freeze")]
            ok = len(loops) == 1 and _txt(loops[0].iter) == "self._get_node_names_to_freeze(first_fit)"
            R.ob("F5-freeze", "FitBase.%s:names" % fn, ok, (f.file, f.lineno), "%s must walk self._get_node_names_to_freeze(first_fit)" % fn)
            if ok:
                lp = loops[0]
                tgt = lp.target.id if isinstance(lp.target, ast.Name) else None
                node_var = None
                seq = []
                for s in lp.body:
                    if isinstance(s, ast.Assign) and isinstance(s.value, ast.Call) and _txt(s.value) == "self._nexus.get(%s)" % tgt and isinstance(s.targets[0], ast.Name):
                        node_var = s.targets[0].id
                    elif isinstance(s, ast.Expr) and isinstance(s.value, ast.Call) and isinstance(s.value.func, ast.Attribute) and isinstance(s.value.func.value, ast.Name) \
                            and s.value.func.value.id == node_var:
                        seq.append(s.value.func.attr)
                R.ob("F5-freeze", "FitBase.%s:sequence" % fn, seq == want, (f.file, lp.lineno), "%s must call %s on every listed node, in this order (found %s)" % (fn, want, seq))
        # freeze lists
        from ..canon import negate

        def freeze_rule(cls, want_cond, with_text, without_text, msg):
            # the list with the extra nodes is returned exactly when `want_cond` holds, the list without them otherwise (whatever the branching looks like)
            f = get_func(p, cls, "_get_node_names_to_freeze")
            want = common.bool_key(ast.parse(want_cond, mode="eval").body)
            got = [(c, _txt(e)) for c, e in common.results_by_path(f.node)]
            w = [c for c, e in got if e == with_text]
            wo = [c for c, e in got if e == without_text]
            ok = len(got) == 2 and len(w) == 1 and len(wo) == 1 and w[0] is not None and wo[0] is not None \
                and common.bool_key(w[0]) == want and common.bool_key(negate(wo[0])) == want
            R.ob("F5-freeze", "%s._get_node_names_to_freeze" % cls, ok, (f.file, f.lineno), msg + " (found %s)" % [(None if c is None else _txt(c), e) for c, e in got])

        freeze_rule("FitBase", "first_fit or not self._param_model.get_matching_errors({'relative': True}) or self._dynamic_error_algorithm == 'iterative'",
                    "self._MODEL_ERROR_NODE_NAMES", "[]",
                    "model error nodes must be frozen in the first pass, when no model-relative uncertainty exists, and in every pass of the iterative treatment - and in no other pass")
        sup = "super(XYFit, self)._get_node_names_to_freeze(first_fit)"
        freeze_rule("XYFit", "self._dynamic_error_algorithm == 'iterative' or (first_fit and self.has_x_errors)", "self._PROJECTED_NODE_NAMES + " + sup, sup,
                    "the projected (x-error) nodes must be frozen in every pass of the iterative treatment and in the first pass when x uncertainties exist, added to the base list")
        for cname, const in (("FitBase", "_MODEL_ERROR_NODE_NAMES"), ("XYFit", "_PROJECTED_NODE_NAMES")):
            for leaf in p.find_class(cname).concrete_leafs():
                try:
                    v = leaf.const_value(const)
                except Exception:
                    v = None
                R.ob("F5-freeze", "%s.%s" % (leaf.name, const), isinstance(v, list) and all(isinstance(x, str) for x in v), (leaf.module.relpath, 0),
                     "%s.%s must be a class-level list of node names (found %r)" % (leaf.name, const, v))

        # class-level node lists are shared by all instances: nobody may mutate what a list-returning helper hands out
        MUT = {"append", "extend", "insert", "remove", "pop", "sort", "reverse", "clear"}
        fitbase = p.find_class("FitBase")
        const_returning = set()
        for cls in fitbase.concrete_leafs():
            for name, m in cls.all_methods().items():
                if not hasattr(m, "node"):
                    continue
                for r in ast.walk(m.node):
                    # returns a class-level list as it is - on some path (`return self._NAMES`, `return self._NAMES if c else []`)
                    if isinstance(r, ast.Return) and r.value is not None and any(self_attr(v) and self_attr(v).isupper() for v in common.expand_ifexp(r.value)):
                        const_returning.add(name)
        n_sites = 0
        for f in p.all_functions():
            if f.cls is None or fitbase not in f.cls.mro:
                continue
            tainted = {}
            for n in ast.walk(f.node):
                if isinstance(n, ast.Assign) and len(n.targets) == 1 and isinstance(n.targets[0], ast.Name):
                    v = n.value
                    if self_attr(v) and self_attr(v).isupper():
                        tainted[n.targets[0].id] = "self.%s" % self_attr(v)
                    elif isinstance(v, ast.Call) and isinstance(v.func, ast.Attribute) and v.func.attr in const_returning:
                        tainted[n.targets[0].id] = "%s()" % v.func.attr
            bad = []
            for n in ast.walk(f.node):
                if isinstance(n, ast.AugAssign):
                    t = n.target
                    if (isinstance(t, ast.Name) and t.id in tainted) or (self_attr(t) and self_attr(t).isupper()):
                        bad.append((n.lineno, "%s %s= ..." % (_txt(t), type(n.op).__name__)))
                if isinstance(n, ast.Call) and isinstance(n.func, ast.Attribute) and n.func.attr in MUT:
                    r = n.func.value
                    if (isinstance(r, ast.Name) and r.id in tainted) or (self_attr(r) and self_attr(r).isupper()):
                        bad.append((n.lineno, _txt(n)[:60]))
                if isinstance(n, (ast.Assign, ast.Delete)):
                    for t in (n.targets if hasattr(n, "targets") else []):
                        if isinstance(t, ast.Subscript) and ((isinstance(t.value, ast.Name) and t.value.id in tainted) or (self_attr(t.value) and self_attr(t.value).isupper())):
                            bad.append((n.lineno, _txt(t)))
            if tainted or bad:
                n_sites += 1
                R.ob("F5-freeze", "%s:class-level list not mutated" % f.qualname, not bad, (f.file, bad[0][0] if bad else f.lineno),
                     "%s mutates a class-level list in place (%s): the node list of every other instance and of every later fit changes with it" % (f.qualname, "; ".join(b for _, b in bad)))
        if len(const_returning) < 1:
            raise AnalysisError("no helper returning a class-level node list found")

    # ------------------------------------------------------------------ F5-sib
    with R.guard("F5sib"):
        for cname in ("FitBase", "XYFit"):
            a = get_func(p, cname, "_iterative_fits_needed")
            b = get_func(p, cname, "_second_fit_needed")
            # what the two predicates return for an instance of this class (a shared helper parameterised by the algorithm name, possibly overridden, is read through)
            ka = common.returned_for_class(p.find_class(cname), "_iterative_fits_needed")
            kb = common.returned_for_class(p.find_class(cname), "_second_fit_needed")
            ta = [_txt(ka)] if ka is not None else [_txt(r.value) for r in ast.walk(a.node) if isinstance(r, ast.Return)]
            tb = [_txt(kb)] if kb is not None else [_txt(r.value) for r in ast.walk(b.node) if isinstance(r, ast.Return)]
            ok = len(ta) == 1 and len(tb) == 1 and "== 'iterative'" in ta[0] and "== 'nonlinear'" in tb[0] and ta[0].replace("'iterative'", "ALG") == tb[0].replace("'nonlinear'", "ALG")
            R.ob("F5-sib", "%s:needed predicates" % cname, ok, (a.file, a.lineno),
                 "%s._iterative_fits_needed and ._second_fit_needed must test the same dynamic-uncertainty condition, for 'iterative' and 'nonlinear' respectively" % cname)
            if ok:
                dyn = ta[0]
                need = ["get_matching_errors({'relative': True"] + (["self.has_x_errors"] if cname == "XYFit" else [])
                R.ob("F5-sib", "%s:dynamic condition" % cname, all(x in dyn for x in need) and " and self._dynamic_error_algorithm == 'iterative'" in dyn, (a.file, a.lineno),
                     "the refit condition must cover model-relative uncertainties%s" % (" and x uncertainties" if cname == "XYFit" else ""))
                if cname == "XYFit":
                    r = ka if ka is not None else [r.value for r in ast.walk(a.node) if isinstance(r, ast.Return)][0]
                    shape = isinstance(r, ast.BoolOp) and isinstance(r.op, ast.And) and isinstance(r.values[0], ast.BoolOp) and isinstance(r.values[0].op, ast.Or)
                    R.ob("F5-sib", "XYFit:dynamic condition shape", shape, (a.file, a.lineno), "the condition must be (relative model errors or x errors) and algorithm")
        for fn, args in (("_set_data_as_model_ref", ""), ("_pre_fit_iteration", "first_fit"), ("_post_fit_iteration", "runtime, first_fit")):
            f = get_func(p, "MultiFit", fn)
            loops = [n for n in f.node.body if isinstance(n, ast.For) and _txt(n.iter) == "self._fits"]
            ok = len(loops) == 1 and len(loops[0].body) == 1 and _txt(loops[0].body[0]) == "%s.%s(%s)" % (_txt(loops[0].target), fn, args)
            R.ob("F5-sib", "MultiFit.%s" % fn, ok, (f.file, f.lineno), "MultiFit.%s must forward to every member with the same arguments" % fn)
        for fn in ("_iterative_fits_needed", "_second_fit_needed"):
            f = get_func(p, "MultiFit", fn)
            src = _txt(f.node)
            ok = "for _fit in self._fits: if _fit.%s(): return True return False" % fn in src
            R.ob("F5-sib", "MultiFit.%s" % fn, ok, (f.file, f.lineno), "MultiFit.%s must be true iff it is true for any member" % fn)

    # ------------------------------------------------------------------ S-fix
    with R.guard("Sfix"):
        NF = "NexusFitter"
        table = {"fix_parameter": ("fix", "_fixed_pars", "update"), "release_parameter": ("release", "_fixed_pars", "pop"),
                 "limit_parameter": ("limit", "_limited_pars", "update"), "unlimit_parameter": ("unlimit", "_limited_pars", "pop")}
        for fn, (mz, field, op) in table.items():
            f = get_func(p, NF, fn)
            g = eng.cfg(f)

            def fwd(n, mz=mz):
                return any(isinstance(c.func, ast.Attribute) and c.func.attr == mz and self_attr(c.func.value) == "_minimizer" and c.args and _txt(c.args[0]) == "name" for c in _calls_in(n))

            def rec(n, field=field, op=op):
                if any(isinstance(c.func, ast.Attribute) and c.func.attr == op and self_attr(c.func.value) == field for c in _calls_in(n)):
                    return True
                # the same record written as an item store / deletion: self.<field>[name] = ... (for update), del self.<field>[name] (for pop)
                st = n.stmt if n.kind == "stmt" else None
                if op == "update" and isinstance(st, ast.Assign):
                    return any(isinstance(t, ast.Subscript) and self_attr(t.value) == field and _txt(t.slice) == "name" for t in st.targets)
                if op == "pop" and isinstance(st, ast.Delete):
                    return any(isinstance(t, ast.Subscript) and self_attr(t.value) == field and _txt(t.slice) == "name" for t in st.targets)
                return False

            ok1, _ = g.all_paths_pass(g.entry.id, fwd)
            ok2, _ = g.all_paths_pass(g.entry.id, rec)
            R.ob("S-fix", "%s.%s:forward" % (NF, fn), ok1, (f.file, f.lineno), "%s does not reach the backend's %s(name) on every path" % (fn, mz))
            R.ob("S-fix", "%s.%s:record" % (NF, fn), ok2, (f.file, f.lineno), "%s does not record the change in %s on every path (ndf, serialisation and reports read it)" % (fn, field))
        f = get_func(p, NF, "fix_parameter")
        src = _txt(f.node)
        g = eng.cfg(f)
        sets = [n for n in g.nodes if any(_self_call(c, "set_fit_parameter_values") for c in _calls_in(n))]
        fixes = [n for n in g.nodes if any(isinstance(c.func, ast.Attribute) and c.func.attr == "fix" for c in _calls_in(n))]
        ok = bool(sets) and bool(fixes) and "if value is not None: self.set_fit_parameter_values(**{name: value})" in src \
            and all(g.find_path(fx.id, lambda m, s=s: m.id == s.id, exceptional=False) is None for fx in fixes for s in sets)
        R.ob("S-fix", "%s.fix_parameter:value first" % NF, ok, (f.file, f.lineno), "a value given with fix_parameter must be set (graph and backend) before the parameter is fixed")
        R.ob("S-fix", "%s.fix_parameter:recorded value" % NF, "self._fixed_pars.update(self.get_fit_parameter_values([name]))" in src, (f.file, f.lineno),
             "the recorded fixed value must be the value the graph holds for that name")
        f = get_func(p, NF, "_minimize")
        g = eng.cfg(f)
        mins = [n for n in g.nodes if any(isinstance(c.func, ast.Attribute) and c.func.attr == "minimize" and self_attr(c.func.value) == "_minimizer" for c in _calls_in(n))]
        src = _txt(f.node)
        ok = len(mins) == 1 and "self._fcn_wrapper(*self._minimizer.parameter_values)" in src
        if ok:
            ok, _ = g.all_paths_pass(mins[0].id, lambda n: any(_self_call(c, "_fcn_wrapper") for c in _calls_in(n)))
        R.ob("S-fix", "%s._minimize:sync" % NF, ok, (f.file, f.lineno), "after the backend returns, the graph must be evaluated once more at the backend's final parameter values")
        f = get_func(p, NF, "_fcn_wrapper")
        src = _txt(f.node)
        R.ob("S-fix", "%s._fcn_wrapper" % NF, "for _par, _new_value in zip(self._fit_pars, fit_par_value_list): _par.value = _new_value" in src and "return self._min_par.value" in src, (f.file, f.lineno),
             "the objective handed to the backend must set every fit parameter node, in order, and return the node to minimise")
        for fn in ("set_fit_parameter_values", "set_all_fit_parameter_values"):
            f = get_func(p, NF, fn)
            src = _txt(f.node)
            # both stores in one loop over (name, value): the graph node of that name and the backend (either may be reached through a local)
            ok = False
            for lp in [n for n in ast.walk(f.node) if isinstance(n, ast.For) and isinstance(n.target, ast.Tuple) and len(n.target.elts) in (2, 3) and all(isinstance(x, ast.Name) for x in n.target.elts)]:
                nm, val = lp.target.elts[0].id, lp.target.elts[-1].id
                node_var = None
                if len(lp.target.elts) == 3:
                    # (name, node, value) over the parallel lists of names and nodes of the fit parameters
                    if not (isinstance(lp.iter, ast.Call) and _txt(lp.iter.func) == "zip" and [_txt(a) for a in lp.iter.args[:2]] == ["self._fit_par_names", "self._fit_pars"]):
                        continue
                    node_var = lp.target.elts[1].id
                backend = graph = False
                for x in ast.walk(lp):
                    if isinstance(x, ast.Call) and isinstance(x.func, ast.Attribute) and x.func.attr == "set" and [_txt(a) for a in x.args] == [nm, val] \
                            and _txt(common.resolve_local(f.node, x.func.value)) == "self._minimizer":
                        backend = True
                    if isinstance(x, ast.Assign) and isinstance(x.targets[0], ast.Attribute) and x.targets[0].attr == "value" and _txt(x.value) == val:
                        tgt = common.resolve_local(f.node, x.targets[0].value)
                        graph = graph or _txt(tgt) == "self._nx.get(%s)" % nm or (node_var is not None and _txt(tgt) == node_var)
                ok = ok or (backend and graph)
            R.ob("S-fix", "%s.%s" % (NF, fn), ok, (f.file, f.lineno), "%s must set the value in the graph and in the backend" % fn)
        for cname, fn, callee in (("FitBase", "fix_parameter", "fix_parameter"), ("FitBase", "release_parameter", "release_parameter"), ("FitBase", "limit_parameter", "limit_parameter"),
                                  ("FitBase", "unlimit_parameter", "unlimit_parameter")):
            f = get_func(p, cname, fn)
            g = eng.cfg(f)
            hits = [n for n in g.nodes if any(_fitter_call(c, callee) for c in _calls_in(n))]
            R.ob("S-fix", "%s.%s:forward" % (cname, fn), bool(hits), (f.file, f.lineno), "%s.%s must forward to the fitter" % (cname, fn))

        # a re-created fitter inherits the fixed and limited parameters of the one it replaces
        n_init = 0
        for cls in p.find_class("FitBase").concrete_leafs():
            f = cls.find_method("_initialize_fitter")
            if f is None or f.cls is not cls:
                continue
            n_init += 1
            g = eng.cfg(f)
            mk = [n for n in g.nodes if n.kind == "stmt" and isinstance(n.stmt, ast.Assign) and any(self_attr(t) == "_fitter" for t in n.stmt.targets)
                  and isinstance(n.stmt.value, ast.Call) and _txt(n.stmt.value.func) == "NexusFitter"]
            ok = len(mk) == 1
            if ok:
                saved = [n for n in g.nodes if n.kind == "stmt" and isinstance(n.stmt, ast.Assign) and "_fitter" in _txt(n.stmt.value) and isinstance(n.stmt.targets[0], ast.Name)]
                old = _txt(saved[0].stmt.targets[0]) if saved else "?"

                def restores(n, old=old):
                    # the helper call, or (canonical program: helper written out) the loop that re-applies the old fitter's fixed parameters
                    if any(_self_call(c, "_restore_fitter_configuration") for c in _calls_in(n)):
                        return True
                    return n.kind == "test" and _txt(n.expr) == "%s is not None" % old

                ok, _ = g.all_paths_pass(mk[0].id, restores)
                if ok and not any(_self_call(c, "_restore_fitter_configuration") for n in g.nodes for c in _calls_in(n)):
                    src_ = _txt(f.node)
                    ok = src_.all_like("for _k, _v in %s.fixed_parameters.items(): self._fitter.fix_parameter(_k, _v)" % old, "for _k, _l in %s.limited_parameters.items(): self._fitter.limit_parameter(_k, _l)" % old)
                ok = ok and bool(saved) and all(g.dominated_by(mk[0].id, lambda n, s=s_: n.id == s.id)[0] for s_ in saved[:1])
            R.ob("S-fix", "%s._initialize_fitter:configuration kept" % cls.name, ok, (f.file, f.lineno),
                 "%s._initialize_fitter replaces the fitter without carrying over the fixed and limited parameters of the previous one (they are silently released)" % cls.name)
        if n_init < 2:
            raise AnalysisError("_initialize_fitter implementations not found")
        f = get_func(p, "FitBase", "_restore_fitter_configuration")
        src = _txt(f.node)
        ok = "for _par_name, _par_value in old_fitter.fixed_parameters.items(): self._fitter.fix_parameter(_par_name, _par_value)" in src \
            and "for _par_name, _par_limits in old_fitter.limited_parameters.items(): self._fitter.limit_parameter(_par_name, _par_limits)" in src
        R.ob("S-fix", "FitBase._restore_fitter_configuration", ok, (f.file, f.lineno), "the restore step must fix every previously fixed parameter at its recorded value and re-apply every recorded limit")

    # ------------------------------------------------------------------ S-imin
    with R.guard("Simin"):
        IM = "MinimizerIMinuit"
        f = get_func(p, IM, "_get_iminuit")
        loops = [n for n in ast.walk(f.node) if isinstance(n, ast.For) and "enumerate(self.parameter_names)" in _txt(n.iter)]
        ok = len(loops) == 1
        R.ob("S-imin", "%s._get_iminuit:loop" % IM, ok, (f.file, f.lineno), "the Minuit object must be configured in one loop over all parameter names")
        if ok:
            lp = loops[0]
            idx, nm = (lp.target.elts[0].id, lp.target.elts[1].id) if isinstance(lp.target, ast.Tuple) else (None, None)
            for attr, key in (("fixed", "fix_"), ("limits", "limit_")):
                hits = []
                for s in ast.walk(lp):
                    if isinstance(s, ast.Assign) and len(s.targets) == 1 and isinstance(s.targets[0], ast.Subscript) and isinstance(s.targets[0].value, ast.Attribute) \
                            and s.targets[0].value.attr == attr and _txt(s.targets[0].slice) == idx:
                        hits.append(s)
                good = False
                if len(hits) == 1:
                    s = hits[0]
                    conds = common.guard_conditions_inside(lp, s)
                    val = s.value
                    # follow one local temporary
                    if isinstance(val, ast.Name):
                        defs = [d for d in lp.body if isinstance(d, ast.Assign) and isinstance(d.targets[0], ast.Name) and d.targets[0].id == val.id]
                        val = defs[-1].value if defs else val
                    good = _txt(val) == "self._minimizer_param_dict['%s' + %s]" % (key, nm)
                    if good and conds:
                        # a guarded application is fine when releasing a parameter rebuilds the object or re-applies the stored setting
                        rel = get_func(p, IM, "release")
                        good = any((isinstance(c, ast.Call) and _self_call(c, "reset")) for c in ast.walk(rel.node)) or any(
                            isinstance(t, ast.Subscript) and isinstance(t.value, ast.Attribute) and t.value.attr == attr for a in ast.walk(rel.node) if isinstance(a, ast.Assign) for t in a.targets)
                R.ob("S-imin", "%s._get_iminuit:%s" % (IM, attr), good, (f.file, lp.lineno),
                     "every rebuild must apply the stored %s of every parameter unconditionally (a parameter that is released later keeps what the live object was built with)" % attr)
            src = _txt(f.node)
            R.ob("S-imin", "%s._get_iminuit:values" % IM, src.like("iminuit.Minuit(self._func_wrapper, *[self._minimizer_param_dict[_pn] for _pn in self.parameter_names], name=self.parameter_names)"), (f.file, f.lineno), "the Minuit object must start from the stored value of every parameter, in order")
            R.ob("S-imin", "%s._get_iminuit:v1" % IM, "**self._minimizer_param_dict" in src, (f.file, f.lineno), "iminuit 1: the whole stored specification is passed to Minuit")
        spec = {"fix": ("'fix_' + parameter_name", "True", "live"), "release": ("'fix_' + parameter_name", "False", "live"),
                "limit": ("'limit_' + parameter_name", "(parameter_bounds[0], parameter_bounds[1])", "reset"), "unlimit": ("'limit_' + parameter_name", "None", "reset"),
                "set": ("parameter_name", "parameter_value", "reset")}
        for fn, (key, val, mode) in spec.items():
            f = get_func(p, IM, fn)
            g = eng.cfg(f)

            def stores(n, key=key, val=val):
                st = n.stmt
                return n.kind == "stmt" and isinstance(st, ast.Assign) and isinstance(st.targets[0], ast.Subscript) and self_attr(st.targets[0].value) == "_minimizer_param_dict" \
                    and _txt(st.targets[0].slice) == key and _txt(st.value) == val

            ok, _ = g.all_paths_pass(g.entry.id, stores)
            R.ob("S-imin", "%s.%s:store" % (IM, fn), ok, (f.file, f.lineno), "%s must store %s under %s in the parameter specification on every normal path" % (fn, val, key))
            if mode == "reset":
                ok2, _ = g.all_paths_pass(g.entry.id, lambda n: any(_self_call(c, "reset") for c in _calls_in(n)))
                R.ob("S-imin", "%s.%s:rebuild" % (IM, fn), ok2, (f.file, f.lineno), "%s must discard the live Minuit object so that the next use is rebuilt from the specification" % fn)
            else:
                want = "True" if fn == "fix" else "False"
                live = []
                for s in ast.walk(f.node):
                    if isinstance(s, ast.Assign) and isinstance(s.targets[0], ast.Subscript) and _txt(s.value) == want:
                        recv = common.resolve_local(f.node, s.targets[0].value)   # (a local view of the flag array is read through)
                        if isinstance(recv, ast.Attribute) and recv.attr == "fixed" and "_get_iminuit()" in _txt(recv):
                            live.append(s)
                # one store per iminuit version (if / else), or one store whose index is chosen by the version (`name if _IMINUIT_1 else index`)
                idxs = []
                for s in live:
                    sl = s.targets[0].slice
                    if isinstance(sl, ast.IfExp) and _txt(sl.test) in ("_IMINUIT_1", "not _IMINUIT_1"):
                        pair = [sl.body, sl.orelse] if _txt(sl.test) == "_IMINUIT_1" else [sl.orelse, sl.body]
                        idxs += [("v1", _txt(pair[0])), ("v2", _txt(pair[1]))]
                    else:
                        conds = [(_txt(c), pol) for c, pol in common.guard_conditions(f.node, s) if "_IMINUIT_1" in _txt(c)]
                        ver = {("_IMINUIT_1", True): "v1", ("_IMINUIT_1", False): "v2", ("not _IMINUIT_1", True): "v2", ("not _IMINUIT_1", False): "v1"}.get(conds[0] if len(conds) == 1 else None)
                        idxs.append((ver, _txt(sl)))
                R.ob("S-imin", "%s.%s:live" % (IM, fn), sorted(idxs) == [("v1", "parameter_name"), ("v2", "self.parameter_names.index(parameter_name)")], (f.file, f.lineno),
                     "%s must flip the fixed flag of the same parameter on the live Minuit object (by name for iminuit 1, by its index for iminuit 2)" % fn)
                ok2, _ = g.all_paths_pass(g.entry.id, lambda n: any(_self_call(c, "_invalidate_cache") for c in _calls_in(n)))
                R.ob("S-imin", "%s.%s:invalidate" % (IM, fn), ok2, (f.file, f.lineno), "%s must invalidate the cached results" % fn)
        f = get_func(p, IM, "minimize")
        src = _txt(f.node)
        ok = "for _pn, _pv, _pe in zip(self.parameter_names, self.parameter_values, self.parameter_errors): self._minimizer_param_dict[_pn] = _pv self._minimizer_param_dict['error_' + _pn] = _pe" in src
        g = eng.cfg(f)
        mig = [n for n in g.nodes if any(isinstance(c.func, ast.Attribute) and c.func.attr == "migrad" for c in _calls_in(n))]
        R.ob("S-imin", "%s.minimize:store back" % IM, ok and len(mig) == 1, (f.file, f.lineno), "after migrad the final values and errors must be stored in the specification (a rebuild continues from the optimum)")
        R.ob("S-imin", "%s.minimize:all fixed" % IM, "if np.all([self.is_fixed(_par_name) for _par_name in self.parameter_names]): raise RuntimeError" in src, (f.file, f.lineno),
             "a fit with all parameters fixed must be refused")

    # ------------------------------------------------------------------ S-scipy
    with R.guard("Sscipy"):
        SC = "MinimizerScipyOptimize"
        f = get_func(p, SC, "minimize")
        src = _txt(f.node)
        # canonical form; the locals are placeholders (`_pos` position map, `_nfix` running count of fixed parameters, `_vals` free start values, `_dyn` 2-row table,
        # `_sel` row selector) - bound jointly, so exchanging two of them between statements is not the same thing
        # (the current values may be held in a local `_pv`: decided on a copy, so that the probe leaves no binding behind)
        PV = "_pv" if common.Src(str(src)).all_like("_pv = self.parameter_values", "_pos = np.zeros_like(_pv, dtype=int)") else "self.parameter_values"
        if PV == "_pv":
            src.all_like("_pv = self.parameter_values", "_pos = np.zeros_like(_pv, dtype=int)")
        ok = src.like("for _i, _f in enumerate(self._par_fixed): if _f: _pos[_i] = _i _nfix += 1 else: _pos[_i] = _i - _nfix _vals.append(%s[_i])" % PV)
        R.ob("S-scipy", "%s.minimize:index map" % SC, ok, (f.file, f.lineno),
             "the position of a fixed parameter is its own index (row of stored values), the position of a free one is its index minus the number of fixed parameters before it "
             "(row of minimiser arguments), and exactly the free ones are handed to scipy in order")
        ok = src.all_like("_nfix = 0", "_vals = []", "_sel = np.array(self._par_fixed, dtype=int)", "_dyn = np.zeros(shape=(2,) + _cur.shape)", "_dyn[1] = _cur") \
            or src.all_like("_nfix = 0", "_vals = []", "_sel = np.array(self._par_fixed, dtype=int)", "_dyn = np.zeros(shape=(2,) + %s.shape)" % PV, "_dyn[1] = %s" % PV) \
            or src.all_like("_nfix = 0", "_vals = []", "_sel = np.array(self._par_fixed, dtype=int)", "_dyn = np.zeros(shape=(2,) + self.parameter_values.shape)", "_dyn[1] = self.parameter_values")
        # (the stored values may be read into a local of their own for the table: what counts is that it is the current parameter values)
        for ph in ("_cur",):
            b = src._binding.get(ph)
            if ok and b is not None:
                ok = ok and _txt(common.resolve_local(f.node, ast.Name(id=b, ctx=ast.Load()))) == "self.parameter_values"
        R.ob("S-scipy", "%s.minimize:rows" % SC, ok, (f.file, f.lineno), "row 0 holds the minimiser arguments, row 1 the stored (fixed) values; the row selector is 1 exactly for fixed parameters")
        ok = src.all_like("def _fn(_args): _dyn[0, 0:-_nfix] = _args return self._func_wrapper_unpack_args(_dyn[_sel, _pos])", "_dyn[0, 0:-_nfix] = self._opt_result.x self._par_val = _dyn[_sel, _pos]")
        dyn = src._binding.get("_dyn")
        stores = [s_ for s_ in ast.walk(f.node) if isinstance(s_, (ast.Assign, ast.AugAssign)) for t in (s_.targets if isinstance(s_, ast.Assign) else [s_.target])
                  if isinstance(t, ast.Subscript) and _txt(t.value) == dyn]
        ok = ok and len(stores) == 3  # row 1 once, row 0 in the objective and after the minimisation - nothing else writes the table
        R.ob("S-scipy", "%s.minimize:pack = unpack" % SC, ok, (f.file, f.lineno),
             "the objective and the result must be re-packed with the same expressions: arguments into row 0, selection by (fixed selector, position)")
        ok = src.like("_fn = self._func_wrapper_unpack_args") and (src.like("opt.minimize(_fn, _vals, ") or src.all_like("_x0 = _vals", "_x0 = self.parameter_values", "opt.minimize(_fn, _x0, "))
        R.ob("S-scipy", "%s.minimize:objective" % SC, ok, (f.file, f.lineno), "the objective must evaluate the cost at the re-packed full parameter vector, starting from the free values")
        src2 = eng.csrc(f)  # (own binding: the comprehension has its own variables)
        ok = src2.all_like("_bnd = None if self._par_bounds is None else [self._par_bounds[_j] for _j, _g in enumerate(self._par_fixed) if not _g]", "_bnd = self._par_bounds", "bounds=_bnd")
        R.ob("S-scipy", "%s.minimize:bounds" % SC, ok, (f.file, f.lineno), "the bounds handed to scipy must be those of the free parameters, in order")
        g = eng.cfg(f)
        opt = [n for n in g.nodes if any(_txt(c.func) == "opt.minimize" for c in _calls_in(n))]
        ok = len(opt) == 1
        if ok:
            ok, _ = g.all_paths_pass(opt[0].id, lambda n: any(_self_call(c, "_func_wrapper_unpack_args") and c.args and _txt(c.args[0]) == "self.parameter_values" for c in _calls_in(n)))
        R.ob("S-scipy", "%s.minimize:write back" % SC, ok, (f.file, f.lineno), "after the minimisation the final parameter values must be written back to the graph")
        R.ob("S-scipy", "%s.minimize:all fixed" % SC, "if np.all(self._par_fixed): raise RuntimeError" in src, (f.file, f.lineno), "a fit with all parameters fixed must be refused")
        for fn, val in (("fix", "True"), ("release", "False")):
            f = get_func(p, SC, fn)
            src = _txt(f.node)
            ok = "self._par_fixed[self._par_names.index(parameter_name)] = %s" % val in src and "self._invalidate_cache()" in src
            R.ob("S-scipy", "%s.%s" % (SC, fn), ok, (f.file, f.lineno), "%s must set the fixed flag of the named parameter to %s and invalidate cached results" % (fn, val))
        f = get_func(p, SC, "limit")
        src = _txt(f.node)
        IDX = "self._par_names.index(parameter_name)"
        pats = ["self._par_bounds[%s] = parameter_bounds", "if parameter_bounds[0] is not None and self._par_val[%s] < parameter_bounds[0]: self.set(parameter_name, parameter_bounds[0])",
                "elif parameter_bounds[1] is not None and self._par_val[%s] > parameter_bounds[1]: self.set(parameter_name, parameter_bounds[1])"]
        # the index may be held in a local (it is computed before `set` is called) or written out
        ok = common.like_any(src, ["_id = " + IDX] + [x % "_id" for x in pats], [x % IDX for x in pats])
        R.ob("S-scipy", "%s.limit" % SC, ok, (f.file, f.lineno), "limit must store the bounds of the named parameter and move a value outside them onto the nearest bound")
        f = get_func(p, SC, "unlimit")
        R.ob("S-scipy", "%s.unlimit" % SC, "self._par_bounds[self._par_names.index(parameter_name)] = (None, None)" in _txt(f.node), (f.file, f.lineno), "unlimit must clear the bounds of the named parameter")
        f = get_func(p, SC, "set")
        src = _txt(f.node)
        R.ob("S-scipy", "%s.set" % SC, "self._par_val[self._par_names.index(parameter_name)] = parameter_value" in src and "self.reset()" in src, (f.file, f.lineno),
             "set must store the value at the index of the named parameter and reset cached results")
        # float storage: the value store is written element-wise, so it must never be created from user input without a float dtype
        n_st = 0
        for f in eng.p.all_functions():
            if getattr(f, "cls", None) is None or f.cls.name != SC:
                continue
            params = {a.arg for a in f.node.args.args}
            for s in ast.walk(f.node):
                if isinstance(s, ast.Assign) and any(self_attr(t) == "_par_val" for t in s.targets) and isinstance(s.value, ast.Call) and _txt(s.value.func) in ("np.array", "np.asarray") and s.value.args:
                    a0 = s.value.args[0]
                    if isinstance(a0, ast.Name) and a0.id in params:
                        n_st += 1
                        kws = {k.arg: _txt(k.value) for k in s.value.keywords}
                        R.ob("S-scipy", "%s:float store" % f.qualname, kws.get("dtype") == "float", (f.file, s.lineno),
                             "the parameter value store is created from caller input without dtype=float: integer start values make set()/fix_parameter(value) truncate")
        if n_st == 0:
            raise AnalysisError("scipy adapter: no creation of the parameter value store from caller input found")
        # stores of (low, high) tuples (entries may be None) must stay lists: a numpy array of them takes the dtype of the first snapshot (integer limits truncate later ones)
        tuple_fields = set()
        scls = p.find_class(SC)
        sfuncs = [f for f in eng.p.all_functions() if getattr(f, "cls", None) is scls]
        for f in sfuncs:
            for st in ast.walk(f.node):
                if isinstance(st, ast.Assign) and isinstance(st.targets[0], ast.Subscript) and self_attr(st.targets[0].value):
                    v = st.value
                    if isinstance(v, ast.Tuple) or (isinstance(v, ast.Name) and "bounds" in v.id):
                        tuple_fields.add(self_attr(st.targets[0].value))
        if "_par_bounds" not in tuple_fields:
            raise AnalysisError("scipy adapter: element stores of parameter bounds not found")
        for fld in sorted(tuple_fields):
            bad = []
            for f in sfuncs:
                for c in ast.walk(f.node):
                    if isinstance(c, ast.Call) and _txt(c.func) in ("np.array", "np.asarray") and c.args and self_attr(c.args[0]) == fld:
                        bad.append("%s:%d" % (f.qualname, c.lineno))
            R.ob("S-scipy", "%s:%s stays a list" % (SC, fld), not bad, (scls.module.relpath, 0),
                 "the list of (low, high) tuples in %s is converted to a numpy array (%s): with integer limits the array is integer typed, later limits are truncated and (None, None) cannot be stored" % (fld, ", ".join(bad)))
