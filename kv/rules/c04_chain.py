"""C04 / B4a, second half: a node that is *already stale* must still pass a notification on when something above it may be fresh.

The only way a fresh node can sit above a stale one is a failed update under a Fallback: the Fallback goes on with an alternative and becomes fresh, the chain that
failed stays stale.  When the failing input is repaired later, the notification enters that chain at its *bottom*; every stale node of the chain has to forward it,
not only the one directly under the Fallback.  Accepted mechanisms (decided from the code, not from names):

  (A) the stale branch of NodeBase.mark_for_update notifies the parents under {stale, not frozen} alone (always forward), or
  (B) under {stale, not frozen, self.<F>} for a boolean field F, provided that
        (B1) a method H of the node family sets `self.<F> = True` under conditions within {stale, not F} and calls H on every child,
        (B2) every `try` of the Fallback family that reads `<n>.value` calls `<n>.H()` in each handler that swallows the exception,
        (B3) `self.<F> = False` in mark_for_update happens only where the node is not stale.

A test that looks one level up only (`any(not p.stale for p in parents)`) is reported: with `P = Fallback([X, alt])`, `X = Function(Y)`, `Y` failing, the repair of Y's
input reaches Y (stale, only parent X is stale too) and stops - P keeps the alternative's value.
"""
import ast

from ..effects import is_self, self_attr
from ..engine import norm_stmt
from . import common


def _self_flag_atoms(nf):
    return [(a, pol) for a, pol in nf if not a.startswith("?") and a not in ("stale", "frozen")]


def _children_iter(e):
    """`self.get_children()`, `self.iter_children()`, `self._children`, `self.children` (also wrapped in list()/tuple())"""
    if isinstance(e, ast.Call) and isinstance(e.func, ast.Name) and e.func.id in ("list", "tuple", "iter") and len(e.args) == 1:
        e = e.args[0]
    if isinstance(e, ast.Call) and isinstance(e.func, ast.Attribute) and is_self(e.func.value) and e.func.attr in ("get_children", "iter_children") and not e.args:
        return True
    return self_attr(e) in ("_children", "children")


def stale_chain(eng, p, NodeBase, f, notif_nodes):
    """(ok, mechanism, why) for NodeBase.mark_for_update `f`; `notif_nodes` are its CFG nodes that call self.notify_parents()"""
    stale_branch = []
    for n in notif_nodes:
        nf = common.conj_normal_form(common.guard_conditions(f.node, n.stmt))
        if ("stale", True) in nf:
            stale_branch.append((n, nf))
    if not stale_branch:
        return False, None, "%s returns early for every stale node: a node left stale by a failed update (a Fallback above it went on with an alternative) swallows the " \
                            "notification when its input is repaired, and the Fallback keeps the old value" % f.qualname
    whys = []
    for n, nf in stale_branch:
        if ("frozen", False) not in nf:
            whys.append("the forwarding from a stale node (%s) does not exclude frozen nodes" % norm_stmt(n.stmt))
            continue
        extra = {(a, pol) for a, pol in nf if (a, pol) not in (("stale", True), ("frozen", False))}
        if not extra:
            return True, "A: always forward", ""
        flags = _self_flag_atoms(extra)
        if len(extra) == 1 and len(flags) == 1 and flags[0][1] is True:
            ok, why = _flag_protocol(eng, p, NodeBase, f, "_" + flags[0][0] if not flags[0][0].startswith("_") else flags[0][0], flags[0][0])
            if ok:
                return True, "B: flag %s" % flags[0][0], ""
            whys.append(why)
            continue
        whys.append("a stale node forwards only under %s: that looks at the node's own parents, but the fresh node may be further up - with P = Fallback([X, alt]), "
                    "X = Function(Y) and Y failing, the repair of Y's input reaches Y (stale, its only parent X stale too) and stops; P keeps the alternative's value"
                    % sorted(a for a, _ in extra))
    return False, None, "%s: %s" % (f.qualname, "; ".join(whys))


def _flag_protocol(eng, p, NodeBase, f, field, atom):
    fam = [(c, m) for c, m in eng.functions_of_family(NodeBase)]

    def is_flag(t):
        a = self_attr(t)
        return a is not None and a.lstrip("_") == atom.lstrip("_")

    # (B3) resets inside mark_for_update only where the node is not stale
    for st in ast.walk(f.node):
        if isinstance(st, ast.Assign) and any(is_flag(t) for t in st.targets) and isinstance(st.value, ast.Constant) and st.value.value is False:
            nf = common.conj_normal_form(common.guard_conditions(f.node, st))
            if ("stale", False) not in nf:
                return False, "%s clears the flag %s while the node is stale (%s): the chain forgets that it has to forward" % (f.qualname, atom, sorted(nf))
    # (B1) the flagging method
    setters = []
    for c, m in fam:
        if m.name in ("__init__", "mark_for_update"):
            continue
        for st in ast.walk(m.node):
            if isinstance(st, ast.Assign) and any(is_flag(t) for t in st.targets) and isinstance(st.value, ast.Constant) and st.value.value is True:
                setters.append((c, m, st))
    if not setters:
        return False, "the flag %s that makes a stale node forward is never set: no chain is ever marked after a failed update" % atom
    names = set()
    for c, m, st in setters:
        nf = common.conj_normal_form(common.guard_conditions(m.node, st))
        bad = [(a, pol) for a, pol in nf if (a, pol) not in (("stale", True), (atom.lstrip("_"), False))]
        if bad:
            return False, "%s sets the flag only under %s: stale nodes of a failed chain that do not meet it stay silent" % (m.qualname, sorted(nf))
        rec = False
        for lp in ast.walk(m.node):
            if isinstance(lp, ast.For) and isinstance(lp.target, ast.Name) and _children_iter(lp.iter):
                for call in ast.walk(lp):
                    if isinstance(call, ast.Call) and isinstance(call.func, ast.Attribute) and call.func.attr == m.name and isinstance(call.func.value, ast.Name) \
                            and call.func.value.id == lp.target.id:
                        lnf = common.conj_normal_form(common.guard_conditions(m.node, lp))
                        if all((a, pol) in (("stale", True), (atom.lstrip("_"), False)) for a, pol in lnf):
                            rec = True
        if not rec:
            return False, "%s flags the node itself but does not go on to its children: only the top of a failed chain forwards, the notification enters at the bottom" % m.qualname
        names.add(m.name)
    # (B2) the Fallback calls it on the alternative that failed
    Fallback = p.cls("kafe2.core.fitters.nexus", "Fallback")
    tries = 0
    for c, m in eng.functions_of_family(Fallback):
        if c is not Fallback and not c.is_subclass_of(Fallback):
            continue
        for t in ast.walk(m.node):
            if not isinstance(t, ast.Try):
                continue
            read = [x.value.id for st in t.body for x in ast.walk(st) if isinstance(x, ast.Attribute) and x.attr == "value" and isinstance(x.value, ast.Name)]
            if not read:
                continue
            tries += 1
            for h in t.handlers:
                swallows = not any(isinstance(x, ast.Raise) for st in h.body for x in ast.walk(st))
                if not swallows:
                    continue
                called = {x.func.value.id for st in h.body for x in ast.walk(st) if isinstance(x, ast.Call) and isinstance(x.func, ast.Attribute) and x.func.attr in names
                          and isinstance(x.func.value, ast.Name)}
                if not (set(read) & called):
                    return False, "%s swallows the exception of a failed alternative (%s) without flagging its chain (%s): later repairs of the failing input never reach the Fallback" % (
                        m.qualname, ", ".join(sorted(set(read))), "/".join(sorted(names)))
    if not tries:
        return False, "no Fallback method tries the alternatives' values in a try block: the failed-update protocol cannot be located"
    return True, ""
