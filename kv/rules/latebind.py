"""L-late: closures created inside a loop that read the loop variable and outlive the iteration (stored, returned, passed on) - Python binds the variable
late, so after the loop every such closure sees the value of the last iteration."""
import ast

from ..engine import AnalysisError
from .tolerance import _anchor_files


def _targets(t):
    return {n.id for n in ast.walk(t) if isinstance(n, ast.Name)}


STORE_CALLS = {"append", "add", "extend", "insert", "setdefault", "update", "register", "connect", "add_callback", "appendleft"}


def _escapes(loop_body, is_closure):
    """does the closure flow somewhere that outlives the iteration: stored in an attribute / item, handed to a container mutator, returned or yielded"""
    def holds(expr):
        # the closure itself or a literal container that directly holds it
        if is_closure(expr):
            return True
        if isinstance(expr, (ast.Tuple, ast.List, ast.Set)):
            return any(holds(e) for e in expr.elts)
        if isinstance(expr, ast.Dict):
            return any(holds(v) for v in expr.values)
        if isinstance(expr, ast.Call) and isinstance(expr.func, ast.Name) and expr.func.id in ("partial", "staticmethod", "property"):
            return any(holds(a) for a in expr.args)
        return False

    for st in loop_body:
        for n in ast.walk(st):
            if isinstance(n, ast.Assign) and holds(n.value) and any(isinstance(t, (ast.Attribute, ast.Subscript)) for t in n.targets):
                return True
            if isinstance(n, (ast.Return, ast.Yield)) and n.value is not None and holds(n.value):
                return True
            if isinstance(n, ast.Call) and isinstance(n.func, ast.Attribute) and n.func.attr in STORE_CALLS and (any(holds(a) for a in n.args) or any(holds(k.value) for k in n.keywords)):
                return True
    return False


def late_bound(fn):
    """[(closure node, loop variable names read)] for one function"""
    out = []

    def reads_loopvars(c, lv):
        params = {a.arg for a in c.args.args + c.args.kwonlyargs} | ({c.args.vararg.arg} if c.args.vararg else set()) | ({c.args.kwarg.arg} if c.args.kwarg else set())
        body = c.body if isinstance(c.body, list) else [c.body]
        read = {n.id for b in body for n in ast.walk(b) if isinstance(n, ast.Name) and isinstance(n.ctx, ast.Load)} - params
        return sorted(read & lv)

    def loops(node, lv):
        for ch in ast.iter_child_nodes(node):
            if isinstance(ch, (ast.FunctionDef, ast.AsyncFunctionDef, ast.Lambda)) and ch is not fn:
                continue
            if isinstance(ch, (ast.For, ast.AsyncFor)):
                lv2 = lv | _targets(ch.target)
                for c in [x for st in ch.body for x in ast.walk(st) if isinstance(x, (ast.Lambda, ast.FunctionDef))]:
                    hit = reads_loopvars(c, lv2)
                    if not hit:
                        continue
                    if isinstance(c, ast.Lambda):
                        esc = _escapes(ch.body, lambda e, c=c: e is c)
                    else:
                        esc = _escapes(ch.body, lambda e, c=c: isinstance(e, ast.Name) and e.id == c.name)
                    if esc:
                        out.append((c, hit))
                loops(ch, lv2)
            else:
                loops(ch, lv)

    loops(fn, set())
    # nested loops report the same closure once
    seen, res = set(), []
    for c, hit in out:
        if id(c) not in seen:
            seen.add(id(c))
            res.append((c, hit))
    return res


def census(eng, R, prop):
    files = _anchor_files(prop)
    R.rule("L-late", "no closure created in a loop reads the loop variable and outlives the iteration (late binding: every such closure would see the last value)", 1)
    p = eng.p
    by_file = {m.relpath: m for m in p.modules.values()}
    n_mod = 0
    for rel in files:
        m = by_file.get(rel)
        if m is None:
            continue
        n_mod += 1
        bad = []
        for f in p.all_functions():
            if f.module is not m:
                continue
            for c, names in late_bound(f.node):
                bad.append((c.lineno, "%s: closure reads loop variable %s" % (f.qualname, ", ".join(names))))
        R.ob("L-late", rel, not bad, (rel, bad[0][0] if bad else 0),
             "%s - after the loop all closures created in it see the value of the last iteration (e.g. every source's reference resolves the axis of the last source)" % "; ".join(b for _, b in bad))
    if n_mod == 0:
        raise AnalysisError("L-late: none of the anchor modules of %s was found" % prop)
