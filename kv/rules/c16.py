"""C16 - confidence level <-> sigma conversions: formula shapes, inverse pair, call-site dimension, one-sided conversion, argument slots."""
import ast

from ..effects import is_self, self_attr
from ..engine import AnalysisError, norm_stmt
from ..termform import Normalizer, assigned_exprs, compare, leaves, norm_spec, straight_line_env, subst
from . import cache, common
from .f1 import check_arg_slots
from .formulas import check, get_func


def run(eng, R):
    p = eng.p
    R.rule("H-cl", "cl = 1 - Q(n/2, s^2/2) (= chi2_n CDF at s^2), sigma = sqrt(2 Q^-1(n/2, 1 - cl)), delta_nll = s^2 (canonical forms)", 3)
    R.rule("H-inv", "the two conversions are mutual inverses: composing the extracted expressions rewrites to the identity (inverse pair of the regularised gamma function)", 2)
    R.rule("H-2d", "the contour confidence level 1 - exp(-s^2/2) is the n = 2 instance of the conversion formula", 1)
    R.rule("S-inval", "setting one representation clears the other; getters recompute lazily from the other representation; inputs are range-checked", 6)
    R.rule("S-dim", "every ConfidenceLevel constructed in a contour context is two-dimensional, in profile / arrow contexts one-dimensional", 4)
    R.rule("S-side", "per branch of the arrow computation the displayed tail probability and the confidence level converted to sigma agree: "
                     "central interval (tail = (1-cl)/2, sigma from cl) or one-sided bound (tail = 1-cl, sigma from 2cl-1); cost target = min + sigma^2", 4)
    R.rule("F1", "arguments along ContoursProfiler -> NexusFitter -> adapter -> profile helpers reach the parameter of the same name", 20)

    CL = p.find_class("ConfidenceLevel")
    check(eng, R, "H-cl", "ConfidenceLevel", "delta_nll", "return", "self.sigma ** 2", what="the cost rise of an s-sigma interval is s^2")

    import copy

    class Repl(ast.NodeTransformer):
        def __init__(self, attr, new):
            self.attr, self.new = attr, new

        def visit_Attribute(self, node):
            if is_self(node.value) and node.attr == self.attr:
                return copy.deepcopy(self.new)
            return self.generic_visit(node)

    KNOWN_FUNCS = {"()gammaincc", "()gammainccinv", "()gammainc", "()gammaincinv", "()chdtr", "()chdtrc", "()chdtri", "()erf", "()erfc", "()erfinv", "()erfcinv", "()expm1", "()log1p",
                   "()exp", "()log", "()sqrt", "self.ndim", "self.sigma", "self.cl", "self._sigma", "self._cl", "self.n_dimensions", "self._ndim"}

    def dim_branches(fname, target):
        """[(dimension or None for 'any other', excluded dimensions, closed expression, line)] - branches on `self.ndim == k` are understood"""
        f = get_func(p, "ConfidenceLevel", fname)
        out = []
        from ..termform import path_exprs

        def stores(st, target=target):
            return [st.value for t in st.targets if " ".join(ast.unparse(t).split()) == target] if isinstance(st, ast.Assign) else []

        # path-sensitive: if/elif chains and conditional expressions (the canonical form mixes the two) are both branches
        for conds, e, env in path_exprs(f.node, stores):
            n, excl = None, []
            for t, pol in conds:
                if isinstance(t, ast.Compare) and len(t.ops) == 1 and isinstance(t.ops[0], ast.Eq) and isinstance(t.comparators[0], ast.Constant) and is_self(getattr(t.left, "value", None)) \
                        and t.left.attr in ("ndim", "_ndim", "n_dimensions"):
                    if pol:
                        n = t.comparators[0].value
                    else:
                        excl.append(t.comparators[0].value)
                else:
                    raise AnalysisError("ConfidenceLevel.%s: branch condition `%s` not understood" % (fname, ast.unparse(t)))
            out.append((n, excl, subst(e, env), e.lineno))
        if not out:
            raise AnalysisError("ConfidenceLevel.%s: no assignment to %s" % (fname, target))
        return f, out

    def for_dim(expr, n):
        return Repl("ndim", ast.Constant(value=n)).visit(copy.deepcopy(expr)) if n is not None else copy.deepcopy(expr)

    SPEC_CL = ast.parse("1.0 - gammaincc(self.ndim / 2.0, self.sigma ** 2 / 2.0)", mode="eval").body
    SPEC_SG = ast.parse("sqrt(2 * gammainccinv(self.ndim / 2.0, 1.0 - self.cl))", mode="eval").body
    f_cl, br_cl = dim_branches("_calc_cl_from_sigma", "self._cl")
    f_sg, br_sg = dim_branches("_calc_sigma_from_cl", "self._sigma")
    for which, f, brs, spec, what in (("cl", f_cl, br_cl, SPEC_CL, "cl must be the chi2 CDF with ndim degrees of freedom at sigma^2"),
                                      ("sigma", f_sg, br_sg, SPEC_SG, "sigma must be the square root of the chi2 quantile with ndim degrees of freedom at cl")):
        covered_general = any(n is None for n, _, _, _ in brs)
        R.ob("H-cl", "ConfidenceLevel.%s:all dimensions" % f.name, covered_general, (f.file, f.lineno), "%s has no branch for a general number of dimensions" % f.name)
        for n, excl, e, line in brs:
            got = Normalizer().norm(for_dim(e, n)).simplify().canon()
            want = Normalizer().norm(for_dim(spec, n)).simplify().canon()
            extra = leaves(e) - KNOWN_FUNCS
            extra = {x for x in extra if not x.startswith("()SUM")}
            if got != want and extra:
                raise AnalysisError("formula rule H-cl at %s: the code uses %s, which this rule cannot read" % (f.qualname, sorted(extra)))
            R.ob("H-cl", "ConfidenceLevel.%s:%s" % (f.name, "n=%s" % n if n is not None else "general n"), got == want, (f.file, line),
                 "%s [%s]: %s - code: %s   expected: %s" % (f.qualname, "ndim == %s" % n if n is not None else "any other ndim", what, got[:160], want[:160]))

    # ---- inverse pair: compose the *extracted* expressions, branch by branch
    with R.guard("inverse pair: compose the *extracted* expressions, branch by"):
        def branch_for(brs, n):
            for k, excl, e, _ in brs:
                if k == n:
                    return e
            for k, excl, e, _ in brs:
                if k is None and n not in excl:
                    return e
            for k, excl, e, _ in brs:
                if k is None:
                    return e
            raise AnalysisError("ConfidenceLevel: no conversion branch for ndim=%s" % n)

        dims = sorted({n for n, _, _, _ in br_cl + br_sg if n is not None}) + [None]
        for n in dims:
            e_cl, e_sg = for_dim(branch_for(br_cl, n), n), for_dim(branch_for(br_sg, n), n)
            s_of_c = Repl("cl", e_cl).visit(copy.deepcopy(e_sg))
            c_of_s = Repl("sigma", e_sg).visit(copy.deepcopy(e_cl))
            n1 = Normalizer().norm(s_of_c).simplify().canon()
            n2 = Normalizer().norm(c_of_s).simplify().canon()
            tag = "" if n is None else " [n=%s]" % n
            R.ob("H-inv", "sigma(cl(s)) = s%s" % tag, n1 in ("self.sigma", "(self.sigma^2)^1/2"), (f_sg.file, f_sg.lineno),
                 "sigma_from_cl(cl_from_sigma(s))%s normalises to `%s`, not to s: the conversions are not inverse to each other" % (tag, n1[:200]))
            R.ob("H-inv", "cl(sigma(c)) = c%s" % tag, n2 == "self.cl", (f_cl.file, f_cl.lineno), "cl_from_sigma(sigma_from_cl(c))%s normalises to `%s`, not to c: the conversions are not inverse to each other" % (tag, n2[:200]))

    # ---- 2-d instance used for iminuit contours
    with R.guard("2d instance used for iminuit contours"):
        im = get_func(p, "MinimizerIMinuit", "contour")
        # what is handed to the backend as `cl=` (through a local or directly; path-sensitive, so a helper written out or a temporary is read through)
        from ..termform import path_exprs

        def _cl_args(st):
            own = [st] if not hasattr(st, "body") else [x for x in (getattr(st, "test", None), getattr(st, "iter", None)) if x is not None]
            return [k.value for o in own for c in ast.walk(o) if isinstance(c, ast.Call) and isinstance(c.func, ast.Attribute) and c.func.attr == "mncontour" for k in c.keywords if k.arg == "cl"]

        forms = path_exprs(im.node, _cl_args)
        if not forms:
            raise AnalysisError("MinimizerIMinuit.contour: no confidence level (`cl=`) is handed to mncontour")
        two = Repl("sigma", ast.Name(id="sigma", ctx=ast.Load())).visit(for_dim(branch_for(br_cl, 2), 2))
        want = Normalizer().norm(two).simplify()
        for conds, e, env in forms:
            ee = subst(e, env)
            # going through the class is the same thing: ConfidenceLevel(n_dimensions=2, sigma=sigma).cl
            if isinstance(ee, ast.Attribute) and ee.attr == "cl" and isinstance(ee.value, ast.Call) and isinstance(ee.value.func, ast.Name) and ee.value.func.id == "ConfidenceLevel":
                kws = {k.arg: k.value for k in ee.value.keywords}
                nd = kws.get("n_dimensions", ee.value.args[0] if ee.value.args else None)
                okc = isinstance(nd, ast.Constant) and nd.value == 2 and "sigma" in kws and ast.unparse(kws["sigma"]) == "sigma"
                R.ob("H-2d", "MinimizerIMinuit.contour:_cl", okc, (im.file, e.lineno), "the contour confidence level must be the two-dimensional level of `sigma` (found %s)" % ast.unparse(ee))
                continue
            got = Normalizer().norm(ee).simplify()
            R.ob("H-2d", "MinimizerIMinuit.contour:_cl", got == want, (im.file, e.lineno),
                 "the contour confidence level is `%s`; the two-dimensional conversion gives `%s`" % (got.canon(), want.canon()))
        # the cl is what is handed to the backend
        mc = [c for c in ast.walk(im.node) if isinstance(c, ast.Call) and isinstance(c.func, ast.Attribute) and c.func.attr == "mncontour" and any(k.arg == "cl" for k in c.keywords)]
        ok = len(mc) == 1 and [ast.unparse(a) for a in mc[0].args] == ["parameter_name_1", "parameter_name_2"]
        R.ob("H-2d", "MinimizerIMinuit.contour:use", ok, (im.file, im.lineno), "the 2-d confidence level must be passed to mncontour for the two requested parameters")

    # ---- setters / getters
    with R.guard("setters / getters"):
        for prop, other, lo_excl in (("cl", "_sigma", True), ("sigma", "_cl", False)):
            fs = CL.find_prop(prop).fset
            g = eng.cfg(fs)

            def clears(n, other=other):
                st = n.stmt
                return n.kind == "stmt" and isinstance(st, ast.Assign) and any(self_attr(t) == other for t in st.targets) and isinstance(st.value, ast.Constant) and st.value.value is None

            ok, _ = g.all_paths_pass(g.entry.id, clears)
            R.ob("S-inval", "ConfidenceLevel.%s.fset:clears %s" % (prop, other), ok, (fs.file, fs.lineno), "setting %s does not clear the cached %s: the two representations disagree afterwards" % (prop, other))
            fg = CL.find_prop(prop).fget
            src = ast.unparse(fg.node)
            calc = "_calc_cl_from_sigma" if prop == "cl" else "_calc_sigma_from_cl"
            oprop = "sigma" if prop == "cl" else "cl"
            lazy = [i for i in ast.walk(fg.node) if isinstance(i, ast.If) and " ".join(ast.unparse(i.test).split()) == "self._%s is None" % prop]
            fills = [a for i in lazy for a in ast.walk(i) if isinstance(a, ast.Assign) and any(self_attr(t) == "_" + prop for t in a.targets)
                     and (calc in ast.unparse(a.value) or any(self_attr(x) == oprop for x in ast.walk(a.value)))]   # through the conversion helper, or the helper written out
            R.ob("S-inval", "ConfidenceLevel.%s.fget:lazy" % prop, len(lazy) == 1 and len(fills) >= 1 and len(fills) == len([a for a in ast.walk(fg.node) if isinstance(a, ast.Assign) and any(self_attr(t) == "_" + prop for t in a.targets)])
                 and ("return self._%s" % prop) in src, (fg.file, fg.lineno),
                 "%s getter must recompute from the other representation exactly when its own cache is empty" % prop)
        dn = CL.find_prop("delta_nll").fset
        R.ob("S-inval", "ConfidenceLevel.delta_nll.fset", "self.sigma = np.sqrt(new_delta_nll)" in ast.unparse(dn.node) or "self.sigma = sqrt(new_delta_nll)" in ast.unparse(dn.node), (dn.file, dn.lineno),
             "setting delta_nll must set sigma = sqrt(delta_nll)")
        ini = CL.find_method("__init__")
        src = ast.unparse(ini.node)
        R.ob("S-inval", "ConfidenceLevel.__init__:delta_nll", "self.sigma = np.sqrt(delta_nll)" in src, (ini.file, ini.lineno), "constructing from delta_nll must set sigma = sqrt(delta_nll)")

    # ---- call-site dimension
    with R.guard("callsite dimension"):
        for f in p.all_functions():
            for c in ast.walk(f.node):
                if isinstance(c, ast.Call) and isinstance(c.func, ast.Name) and c.func.id == "ConfidenceLevel" and f.cls is not CL:
                    nd = next((k.value for k in c.keywords if k.arg == "n_dimensions"), c.args[0] if c.args else None)
                    dim = nd.value if isinstance(nd, ast.Constant) else (1 if nd is None else "?")
                    ctx_txt = f.qualname.lower() + " " + " ".join(ast.unparse(common.enclosing_stmt(f.node, c)).split()).lower()
                    stmt_txt = " ".join(ast.unparse(common.enclosing_stmt(f.node, c)).split()).lower()
                    is_contour = "contour" in stmt_txt or ("contour" in f.name.lower() and "profile" not in f.name.lower())
                    want_dim = 2 if is_contour else 1
                    R.ob("S-dim", "%s:%s" % (f.qualname, " ".join(ast.unparse(c).split())[:50]), dim == want_dim, (f.file, c.lineno),
                         "%s constructs a %s-dimensional ConfidenceLevel in a %s context" % (f.qualname, dim, "contour (two parameters)" if is_contour else "profile / interval (one parameter)"))

    # ---- one-sided vs central conversion in the arrow computation: path-sensitive evaluation over the None-ness of (low, high, cl) and arrows
    with R.guard("onesided vs central conversion in the arrow computation: pat"):
        from ..pathval import NONE, NOTNONE, Evaluator

        MB = p.find_class("MinimizerBase")
        ga = get_func(p, "MinimizerBase", "_get_arrow_specs")
        helpers = {name for name, m in MB.all_methods().items() if hasattr(m, "node") and name != "_get_arrow_specs" and "ConfidenceLevel" in ast.unparse(m.node) and len(m.node.body) <= 8}
        results = {}  # (side, case, what) -> [ok, message of the first failure, where]
        n_events = 0
        bound_results = {}
        for low0 in (NONE, NOTNONE):
            for high0 in (NONE, NOTNONE):
                for cl0 in (NONE, NOTNONE):
                  for sub0 in (True, False):
                    for arrows0 in (True, False):
                        ev = Evaluator(MB, event_calls={"append"}, inline=helpers | {"_get_cost_value"})
                        ev.run(ga.node, {"low": low0, "high": high0, "cl": cl0, "arrows": arrows0, "subtract_min": sub0})
                        # arrows at user-supplied bounds: the tail is that of the cost *rise* at the bound, whatever offset the plot uses
                        for call, facts, env, trail in ev.events:
                            bl = [t for t, pol in trail if isinstance(t, ast.For) and isinstance(t.iter, ast.Name) and t.iter.id in ("low", "high")]
                            if not bl or not (isinstance(call.func.value, ast.Name) and "arrow" in call.func.value.id) or not call.args or not isinstance(_spec_dict(ev, call, facts, env), ast.Dict):
                                continue
                            d = _spec_dict(ev, call, facts, env)
                            items = {common.const_str(k): v for k, v in zip(d.keys, d.values)}
                            side = common.const_str(items.get("side"))
                            clx = ev.close(items["cl"], facts, env)
                            cls_ = [c for c in ast.walk(clx) if isinstance(c, ast.Call) and isinstance(c.func, ast.Name) and c.func.id == "ConfidenceLevel"]
                            if len(cls_) != 1:
                                raise AnalysisError("_get_arrow_specs: tail probability of a bound arrow is not derived from one ConfidenceLevel")
                            dn = next((k.value for k in cls_[0].keywords if k.arg == "delta_nll"), None)
                            got_d = Normalizer().norm(dn).simplify().canon() if dn is not None else "?"
                            want_d = norm_spec("self.function_value - min_cost").canon()
                            tail = Normalizer().norm(clx).simplify().canon()
                            want_tail = norm_spec("(1 - X) / 2").canon().replace("X", "(" + Normalizer().norm(cls_[0]).canon() + ").cl")
                            r = bound_results.setdefault((side, "delta"), [True, "", call.lineno])
                            if got_d != want_d and r[0]:
                                r[0] = False
                                r[1] = "arrow at a given %s bound [subtract_min=%s]: the tail probability is computed from delta_nll = %s, expected the cost rise at the bound, %s" % (
                                    "lower" if side == "left" else "upper", sub0, got_d, want_d)
                            yv = Normalizer().norm(ev.close(items["y"], facts, env)).simplify().canon()
                            want_y = norm_spec("self.function_value - min_cost").canon() if sub0 else "self.function_value"
                            r = bound_results.setdefault((side, "y"), [True, "", call.lineno])
                            if yv != want_y and r[0]:
                                r[0] = False
                                r[1] = "arrow at a given bound [subtract_min=%s]: plotted at y = %s, expected %s" % (sub0, yv, want_y)
                        state_txt = "low %s, high %s, cl %s, arrows=%s" % ("given" if low0 == NOTNONE else "None", "given" if high0 == NOTNONE else "None", "given" if cl0 == NOTNONE else "None", arrows0)
                        for call, facts, env, trail in ev.events:
                            loops = [t for t, pol in trail if isinstance(t, ast.For) and isinstance(t.iter, ast.Name) and t.iter.id == "cl"]
                            if not loops or not (isinstance(call.func.value, ast.Name) and "arrow" in call.func.value.id) or not call.args or not isinstance(_spec_dict(ev, call, facts, env), ast.Dict):
                                continue
                            tv = loops[-1].target.id
                            d = _spec_dict(ev, call, facts, env)
                            items = {common.const_str(k): v for k, v in zip(d.keys, d.values)}
                            side = common.const_str(items.get("side"))
                            if side not in ("left", "right") or "cl" not in items or "y" not in items:
                                raise AnalysisError("_get_arrow_specs: arrow spec without side / cl / y")
                            n_events += 1
                            other_given = (high0 if side == "left" else low0) == NOTNONE
                            case = "one-sided" if other_given else "central"
                            tail = Normalizer().norm(ev.close(items["cl"], facts, env)).canon()
                            yexp = ev.close(items["y"], facts, env)
                            sig_calls = [c for c in ast.walk(yexp) if isinstance(c, ast.Call) and isinstance(c.func, ast.Name) and c.func.id == "ConfidenceLevel"]
                            if not sig_calls:
                                raise AnalysisError("_get_arrow_specs: sigma of an arrow is not derived from a ConfidenceLevel (directly or through a helper of MinimizerBase)")
                            clarg = next((k.value for k in sig_calls[0].keywords if k.arg == "cl"), None)
                            conv = Normalizer().norm(clarg).canon() if clarg is not None else "?"
                            central = tail == norm_spec("(1 - %s) / 2" % tv).canon() and conv == tv
                            onesided = tail == norm_spec("1 - %s" % tv).canon() and conv == norm_spec("2 * %s - 1" % tv).canon()
                            ok = onesided if other_given else central
                            r = results.setdefault((side, case, "conversion"), [True, "", call.lineno])
                            if not ok and r[0]:
                                r[0] = False
                                r[1] = "arrow on the %s side [%s]: displayed tail probability %s with sigma converted from cl=%s - expected %s" % (
                                    side, state_txt, tail, conv, "tail 1-cl and sigma(2cl-1) (one-sided bound)" if other_given else "tail (1-cl)/2 and sigma(cl) (central interval)")
                            tgt_call = [c for c in ast.walk(items["x"]) if isinstance(c, ast.Call) and isinstance(c.func, ast.Attribute) and c.func.attr == "_find_cost_cut"] if "x" in items else []
                            tc = next((common.kwarg(c, "target_cost", 2) for c in tgt_call if common.kwarg(c, "target_cost", 2) is not None), None)  # _find_cost_cut(name, guess, target_cost, ...)
                            tnorm = Normalizer().norm(ev.close(tc, facts, env)).canon() if tc is not None else "?"
                            sig = Normalizer().norm(ast.parse("ConfidenceLevel(cl=%s).sigma" % ast.unparse(clarg), mode="eval").body).canon() if clarg is not None else "?"
                            want_t = "min_cost + %s^2" % sig
                            r = results.setdefault((side, case, "target"), [True, "", call.lineno])
                            if not _same_sum(tnorm, want_t) and r[0]:
                                r[0] = False
                                r[1] = "[%s] the arrow position is searched at cost %s, expected minimum + sigma^2 (%s)" % (state_txt, tnorm, want_t)
        for (side, case, what), (ok, msg, line) in sorted(results.items()):
            R.ob("S-side", "_get_arrow_specs:%s:%s%s" % (side, case, "" if what == "conversion" else ":target"), ok, (ga.file, line),
                 msg or "%s arrow, %s: tail probability and converted level agree" % (side, case))
        for (side, what), (ok, msg, line) in sorted(bound_results.items()):
            R.ob("S-side", "_get_arrow_specs:bound:%s:%s" % (side, what), ok, (ga.file, line), msg or "%s bound arrow: %s consistent" % (side, what))
        if len(bound_results) < 4:
            raise AnalysisError("_get_arrow_specs: arrows at user-supplied bounds not found (%s)" % sorted(bound_results))
        if len(results) < 8:
            raise AnalysisError("_get_arrow_specs: expected left/right x central/one-sided arrows from confidence levels, found %s" % sorted(results))

    # ---- F1 along the profile / contour call chain
    with R.guard("F1 along the profile / contour call chain"):
        pairs = []
        for cn in ("ContoursProfiler", "NexusFitter", "MinimizerBase", "MinimizerIMinuit", "MinimizerScipyOptimize"):
            c = p.find_class(cn)
            for f in cache.visible_functions(c):
                pairs.append((c, f))
        check_arg_slots(eng, R, "F1", pairs)

def _spec_dict(ev, call, facts, env):
    """the dictionary appended by `_arrow_specs.append(...)`: written in place, or held by a local that was assigned just before"""
    a = call.args[0]
    if isinstance(a, ast.Name) and a.id in env and isinstance(env[a.id], ast.Dict):
        return env[a.id]
    return a


def _same_sum(a, b):
    return sorted(x.strip() for x in a.split(" + ")) == sorted(x.strip() for x in b.split(" + "))


def _paths_to_append(body, env, conds):
    """yield (conds, env, append-call) for each path through nested if/else that reaches `_arrow_specs.append(...)`"""
    env = dict(env)
    for i, st in enumerate(body):
        if isinstance(st, ast.If):
            rest = body[i + 1:]
            for branch, pol in ((st.body, True), (st.orelse, False)):
                yield from _paths_to_append(list(branch) + list(rest), env, conds + [(st.test, pol)])
            return
        if isinstance(st, ast.Expr) and isinstance(st.value, ast.Call) and isinstance(st.value.func, ast.Attribute) and st.value.func.attr == "append" \
                and isinstance(st.value.func.value, ast.Name) and "arrow" in st.value.func.value.id:
            yield conds, env, st.value
            continue
        env = straight_line_env([st], None, env)
