"""Small normalisation helpers that make structural rules independent of how a function is written down:
local aliases are resolved, keyword / positional arguments are bound to the callee's parameter names, negated tests are put into one polarity,
private helpers of the same class / module are looked through. Nothing here changes what a rule demands - only how the demanded thing is found."""
import ast
import copy

from ..termform import subst


def txt(n):
    return " ".join(ast.unparse(n).split())


def alias_env(fn_node):
    """name -> expression for locals that are assigned exactly once in the function (plain `name = expr`), are not parameters, loop / with / except targets,
    and are never augmented or deleted. Such a local is a pure alias of its right-hand side for the purpose of *finding* things."""
    params = {a.arg for a in fn_node.args.args + fn_node.args.kwonlyargs + fn_node.args.posonlyargs}
    if fn_node.args.vararg:
        params.add(fn_node.args.vararg.arg)
    if fn_node.args.kwarg:
        params.add(fn_node.args.kwarg.arg)
    count, value, banned = {}, {}, set(params)
    for n in ast.walk(fn_node):
        if isinstance(n, (ast.FunctionDef, ast.Lambda)) and n is not fn_node:
            continue
        if isinstance(n, ast.Assign):
            for t in n.targets:
                if isinstance(t, ast.Name):
                    count[t.id] = count.get(t.id, 0) + 1
                    value[t.id] = n.value
                else:
                    for x in ast.walk(t):
                        if isinstance(x, ast.Name) and isinstance(x.ctx, ast.Store):
                            banned.add(x.id)
        elif isinstance(n, (ast.AugAssign, ast.AnnAssign)):
            for x in ast.walk(n.target):
                if isinstance(x, ast.Name):
                    banned.add(x.id)
        elif isinstance(n, (ast.For, ast.AsyncFor, ast.comprehension)):
            for x in ast.walk(n.target):
                if isinstance(x, ast.Name):
                    banned.add(x.id)
        elif isinstance(n, (ast.With, ast.AsyncWith)):
            for it in n.items:
                if it.optional_vars is not None:
                    for x in ast.walk(it.optional_vars):
                        if isinstance(x, ast.Name):
                            banned.add(x.id)
        elif isinstance(n, ast.ExceptHandler) and n.name:
            banned.add(n.name)
        elif isinstance(n, ast.NamedExpr):
            banned.add(n.target.id)
    env = {}
    for k, c in count.items():
        if c == 1 and k not in banned:
            v = value[k]
            if not any(isinstance(x, ast.Name) and x.id == k for x in ast.walk(v)):
                env[k] = v
    return env


def closed(expr, env, depth=0):
    """expression with aliases resolved (transitively)"""
    if expr is None or not env or depth > 6:
        return expr
    names = {x.id for x in ast.walk(expr) if isinstance(x, ast.Name) and isinstance(x.ctx, ast.Load)}
    if not (names & set(env)):
        return expr
    return closed(subst(expr, env), env, depth + 1)


def ctxt(expr, env):
    return txt(closed(expr, env)) if expr is not None else None


def strip_not(test):
    """(inner test, polarity)"""
    pol = True
    while isinstance(test, ast.UnaryOp) and isinstance(test.op, ast.Not):
        test = test.operand
        pol = not pol
    return test, pol


def cond_key(conds, env):
    """canonical text of a guard list [(test, polarity)] with aliases resolved and negations folded into the polarity"""
    parts = []
    for t, pol in conds:
        t2, p2 = strip_not(closed(t, env))
        parts.append(("" if pol == p2 else "not ") + txt(t2))
    return " and ".join(parts)


def bind_call(call, callee_node, skip_first=True):
    """param name -> argument expression, using the callee's signature (keyword and positional forms become the same thing)"""
    params = [a.arg for a in callee_node.args.args]
    if skip_first and params and params[0] in ("self", "cls"):
        params = params[1:]
    out = {}
    for p_, a in zip(params, call.args):
        out[p_] = a
    for k in call.keywords:
        if k.arg is not None:
            out[k.arg] = k.value
    return out


def returns_under_guards(fn_node):
    """[(guards [(test, pol)], return value)] for a function that is a chain of `if ...: return X` statements (early returns, elif chains, final return)"""
    out = []

    def walk(body, conds):
        for i, st in enumerate(body):
            if isinstance(st, ast.Return):
                out.append((list(conds), st.value))
                return True
            if isinstance(st, ast.If):
                r1 = walk(st.body, conds + [(st.test, True)])
                r2 = walk(st.orelse, conds + [(st.test, False)]) if st.orelse else False
                if r1 and r2:
                    return True
                if r1:
                    conds = conds + [(st.test, False)]
                elif r2:
                    conds = conds + [(st.test, True)]
            if isinstance(st, ast.Raise):
                return True
        return False

    walk(fn_node.body, [])
    return out
