"""C03 - fit observables depend only on the configuration: hidden-input invalidation of Nexus property nodes (C-nx),
did-fit / loaded-result coherence (C-fit), cost-node selection, freeze protocol (F5), read-only getters."""
import ast

from ..consteval import nexus_model
from ..effects import is_self, self_attr, walk_no_nested
from ..engine import AnalysisError, norm_stmt, path_text
from . import cache, common

FITS = ["XYFit", "IndexedFit", "HistFit", "UnbinnedFit"]
HIDDEN_OBJECTS = ("_data_container", "_param_model", "_fit_param_constraints")
# lazily re-pushed / recomputed caches inside the hidden objects: writing them is not a configuration change
NONSTATE_SUFFIX = ("_total_error", "_pm_calculation_stale", "_model_parameters", "_label", "_axis_labels", "_on_error_change_callback",
                   "_cov_mat", "_cov_mat_rel", "_err", "_err_rel")
# (node, field) pairs where the read does not flow into the node's value (one line of reason each)
READ_EXEMPT = {
    ("data", "_data_container._error_dicts"): "HistContainer.data flushes pending entries, which re-points the source references (a write effect); the counts do not depend on the sources",
    ("data", "_data_container._manual_heights"): "guard of the flush, set only together with the counts",
}
# (entry point, field) pairs discharged by another rule
WRITE_EXEMPT = {
    ("FitBase.do_fit", "_param_model._error_dicts"): "do_fit points model-relative sources at the data for the first pass; the affected nodes are refreshed by the freeze protocol (F5: update/unfreeze/notify_parents) and by the recalculation that resets the references",
}
VALUE_NODES = {"data", "model", "x_data", "y_data", "x_model", "y_model"}
# (fit class, entry point qualname) exempt from Cnx with reason
ENTRY_EXEMPT = {
    ("UnbinnedFit", "FitBase.enable_error"): "UnbinnedContainer rejects every source: no source exists, _get_error_by_name_raise always raises before the write",
    ("UnbinnedFit", "FitBase.disable_error"): "UnbinnedContainer rejects every source: no source exists, _get_error_by_name_raise always raises before the write",
}
REQUIRED_EDGES = [
    # (node, depends on, fit classes or None=all where node exists, reason)
    ("y_model", "parameter_values", None, "model values follow the parameters"),
    ("model", "parameter_values", ["IndexedFit", "HistFit", "UnbinnedFit"], "model values follow the parameters"),
    ("y_model", "x_model", None, "model values follow the support points"),
    ("x_model", "x_data", None, "support points are the data x values"),
]


def observable_roots(eng, ctx, G):
    roots = set()
    for f in cache.visible_functions(ctx):
        for c in ast.walk(f.node):
            if isinstance(c, ast.Call) and isinstance(c.func, ast.Attribute) and c.func.attr == "get" and self_attr(c.func.value) == "_nexus" and c.args:
                s = common.const_str(c.args[0])
                if s and s in G.nodes:
                    roots.add(s)
    return roots


def cost_argument_names(eng, ctx):
    """argument names of every cost function the class's registry can select (formal names of the handles + implicit ones)"""
    from .c01 import registry_cost_models

    names = set()
    for ident, cm in registry_cost_models(eng, ctx):
        names |= set(cm["arg_names"])
    return names


def mark_sites(eng, ctx):
    """[(func, cfg-node predicate factory)] : names marked by `self._nexus.get(<name>).mark_for_update()` (also via a local, update(), notify_parents())"""
    sites = {}
    for f in cache.visible_functions(ctx):
        for c in ast.walk(f.node):
            if not (isinstance(c, ast.Call) and isinstance(c.func, ast.Attribute) and c.func.attr in ("mark_for_update",)):
                continue
            recv = c.func.value
            names = _node_names_of_receiver(eng, ctx, f, recv)
            for n in names:
                sites.setdefault(n, []).append((f, c))
    return sites


def _node_names_of_receiver(eng, ctx, f, recv):
    """receiver expr -> set of constant node names it may denote (self._nexus.get('x') | get(loopvar over self.CONST))"""
    if isinstance(recv, ast.Call) and isinstance(recv.func, ast.Attribute) and recv.func.attr == "get" and self_attr(recv.func.value) == "_nexus" and recv.args:
        a = recv.args[0]
        s = common.const_str(a)
        if s:
            return {s}
        k = self_attr(a)
        if k and k.isupper():
            try:
                v = ctx.const_value(k)
                return {v} if isinstance(v, str) else set(v)
            except Exception:
                return set()
        if isinstance(a, ast.Name):
            # loop variable over a class constant
            for loop in ast.walk(f.node):
                if isinstance(loop, ast.For) and isinstance(loop.target, ast.Name) and loop.target.id == a.id:
                    k = self_attr(loop.iter)
                    if k:
                        try:
                            v = ctx.const_value(k)
                            return set(v)
                        except Exception:
                            return set()
    return set()


def run(eng, R):
    p = eng.p
    R.rule("Cnx", "for every public entry point E and every observable-reachable property node N of the static Nexus graph: if E writes a hidden "
                  "input of N's getter (a field of the data container / parametric model / constraint list), N lies in the dependents-closure of the nodes "
                  "E marks on every normal path", 40)
    R.rule("Cedge", "required dependency edges of the static Nexus graph (model -> parameters, y_model -> x_model -> x_data, derived matrix nodes -> their matrix)", 20)
    R.rule("Cfit", "whatever resets the minimizer also clears the fitter's results-are-from-minimizer flag; the two 'did fit' flags are set together", 2)
    R.rule("Cload", "configuration mutators drop results injected from a file or a multi-fit (_loaded_result_dict)", 4)
    R.rule("Cmin", "every operation that can change the shape of the total covariance re-selects the cost node read by cost_function_value", 1)
    R.rule("F5", "freeze protocol: each _pre_fit_iteration(a) is followed by exactly one minimization and _post_fit_iteration(., a); post unfreezes the same node list", 4)
    R.rule("Cget", "property getters of the fit classes do not write configuration state (reading one quantity never changes another)", 60)
    from .c19 import NONSTATE

    check_lazy_push(eng, R)

    for cn in FITS:
        ctx = p.find_class(cn)
        G, trace = nexus_model(p, ctx)
        if trace:
            raise AnalysisError("consteval could not read the graph construction of %s: %s" % (cn, trace[:2]))
        roots = observable_roots(eng, ctx, G) | (cost_argument_names(eng, ctx) & set(G.nodes))
        reach = set(roots)
        for r in roots:
            reach |= G.depends_closure(r)
        pnodes = sorted(n for n in reach if n in G.nodes and G.nodes[n]["kind"] == "property")
        R.info["%s static graph" % cn] = "%d named nodes, %d observable roots, %d reachable property nodes" % (len(G.nodes), len(roots), len(pnodes))
        # ---- required edges
        for node, dep, only, why in REQUIRED_EDGES:
            if only is not None and cn not in only:
                continue
            if node not in G.nodes or dep not in G.nodes:
                continue
            ok = dep in G.depends_closure(node)
            R.ob("Cedge", "%s:%s->%s" % (cn, node, dep), ok, G.where.get(node, (ctx.file, 0)), "%s: node '%s' does not depend on '%s' (%s): it keeps its cached value when '%s' changes" % (cn, node, dep, why, dep))
        try:
            merr = ctx.const_value("_MODEL_ERROR_NODE_NAMES")
        except KeyError:
            merr = []
        for node in merr:
            if node in G.nodes:
                ok = "parameter_values" in G.depends_closure(node)
                R.ob("Cedge", "%s:%s->parameter_values" % (cn, node), ok, G.where.get(node, (ctx.file, 0)), "%s: model error node '%s' does not depend on the parameters" % (cn, node))
        for node in sorted(G.nodes):
            for suf in ("_inverse", "_cholesky", "_qr"):
                if node.endswith("_cov_mat" + suf):
                    base = node[: -len(suf)]
                    if base in G.nodes:
                        R.ob("Cedge", "%s:%s->%s" % (cn, node, base), base in G.depends_closure(node), G.where.get(node, (ctx.file, 0)), "%s: '%s' does not depend on '%s'" % (cn, node, base))
            if node.endswith("_squared_log_sum"):
                base = node[: -len("_squared_log_sum")]
                R.ob("Cedge", "%s:%s->%s" % (cn, node, base), base in G.depends_closure(node), G.where.get(node, (ctx.file, 0)), "%s: '%s' does not depend on '%s'" % (cn, node, base))
            if node.endswith("_log_determinant"):
                base = node[: -len("_log_determinant")]
                R.ob("Cedge", "%s:%s->%s" % (cn, node, base), base in G.depends_closure(node), G.where.get(node, (ctx.file, 0)), "%s: '%s' does not depend on '%s'" % (cn, node, base))
        # ---- inputs of property nodes
        inputs = {}
        for n in pnodes:
            prop = G.nodes[n].get("prop")
            pr = ctx.find_prop(prop) if prop else None
            if pr is None or pr.fget is None:
                raise AnalysisError("%s: property node '%s' has no fit property '%s'" % (cn, n, prop))
            reads = eng.eff.trans_reads(ctx, pr.fget)
            ins = set()
            for r in reads:
                top = r.split(".")[0]
                if top in HIDDEN_OBJECTS and not r.endswith(NONSTATE_SUFFIX) and (n, r) not in READ_EXEMPT:
                    if r.endswith("._error_dicts") and n in VALUE_NODES:
                        continue  # flushing / recalculating re-points the source references (a write effect); values never depend on the sources
                    ins.add(r)
            inputs[n] = ins
        marks = mark_sites(eng, ctx)
        eng.eff.__dict__.setdefault("skip_call", {})["wc"] = _is_lazy_push
        mm = MustMarks(eng, ctx, marks)
        # ---- entry points
        entries = [f for f in cache.visible_functions(ctx) if f.kind != "getter" and f.name != "__init__" and
                   (not cache.is_private_helper(f) or f.name == "_on_error_change")]
        for E in entries:
            # configuration writes: not counting refreshes inside getters and the lazy push of parameters / support points into the model
            W = {w for w in eng.eff._trans(ctx, E, "wc") if w.split(".")[0] in HIDDEN_OBJECTS and not w.endswith(NONSTATE_SUFFIX)}
            W = {w for w in W if (E.qualname, w) not in WRITE_EXEMPT}
            if not W or (cn, E.qualname) in ENTRY_EXEMPT:
                continue
            must_marked = mm.of(E)
            inval = G.dependents_closure(must_marked) if must_marked else set()
            for n in pnodes:
                hit = sorted(w for w in W for r in inputs[n] if w == r or r.startswith(w + "."))
                if not hit:
                    continue
                ok = n in inval
                R.ob("Cnx", "%s:%s:%s" % (cn, E.qualname, n), ok, eng.where(E),
                     "%s.%s changes %s, an input of the cached graph node '%s' (property %s), but does not invalidate that node (marked on all paths: %s): "
                     "a value of '%s' read earlier is returned again" % (cn, E.qualname, hit[:2], n, G.nodes[n].get("prop"), sorted(must_marked)[:6], n)
                     if not ok else "%s.%s -> node %s invalidated" % (cn, E.qualname, n))

    # ---------------------------------------------------------------- Cfit
    with R.guard("Cfit"):
        NF = p.find_class("NexusFitter")
        flag = "__state_is_from_minimizer"

        def clears_flag(n):
            st = n.stmt
            return n.kind == "stmt" and isinstance(st, ast.Assign) and any(self_attr(t) == flag for t in st.targets) and isinstance(st.value, ast.Constant) and st.value.value is False

        for name, f in sorted(NF.methods.items()):
            if name.startswith("__"):
                continue
            w = eng.eff.trans_writes(NF, f)
            if any(x.endswith("_minimizer._did_fit") for x in w) and name not in ("_minimize", "do_fit", "contour", "profile"):
                # adapter's did-fit flag may be cleared (reset/set/...) -> the fitter flag must be cleared too
                # only when the adapter flag is cleared on a path: approximate by "calls reset/set on the adapter"
                resets = [cs for cs in eng.eff.summary(NF, f).calls if cs.prefix == "_minimizer" and any(m.name in ("reset", "set", "set_several") for _, m in cs.targets)]
                if not resets:
                    continue
                ok = eng.must_call(NF, f, clears_flag)
                R.ob("Cfit", "NexusFitter.%s" % name, ok, eng.where(f),
                     "NexusFitter.%s resets the minimizer adapter (its did_fit becomes False) but keeps __state_is_from_minimizer: fit.did_fit stays True for results that no longer exist" % name)
        mf = p.method(NF, "_minimize")
        sets_true = [n for n in ast.walk(mf.node) if isinstance(n, ast.Assign) and any(self_attr(t) == flag for t in n.targets) and isinstance(n.value, ast.Constant) and n.value.value is True]
        R.ob("Cfit", "NexusFitter._minimize:set", bool(sets_true), eng.where(mf), "_minimize does not set the results-are-from-minimizer flag")

    # ---------------------------------------------------------------- Cload
    with R.guard("Cload"):
        FB = p.find_class("FitBase")

        def clears_loaded(n):
            st = n.stmt
            return n.kind == "stmt" and isinstance(st, ast.Assign) and any(self_attr(t) == "_loaded_result_dict" for t in st.targets) and isinstance(st.value, ast.Constant) and st.value.value is None

        for name in ("_on_error_change", "set_parameter_values", "set_all_parameter_values", "do_fit", "data.fset", "fix_parameter", "release_parameter",
                     "limit_parameter", "unlimit_parameter", "add_parameter_constraint", "add_matrix_parameter_constraint"):
            if "." in name:
                f = p.prop(FB, name.split(".")[0]).fset
            else:
                f = p.method(FB, name)
            ctx = p.find_class("XYFit")
            ok = eng.must_call(ctx, f, clears_loaded)
            R.ob("Cload", "FitBase.%s" % name, ok, eng.where(f),
                 "FitBase.%s changes the configuration but keeps results injected by load_state / a multi-fit: did_fit, parameter errors and covariance keep shadowing the live state" % name)

    # ---------------------------------------------------------------- Cmin
    with R.guard("Cmin"):
        f = p.method(FB, "_on_error_change")
        g = eng.cfg(f)

        def selects_cost(n):
            st = n.stmt
            if n.kind == "stmt" and isinstance(st, ast.Assign):
                for t in st.targets:
                    if isinstance(t, ast.Attribute) and t.attr == "parameter_to_minimize" and self_attr(t.value) == "_fitter":
                        return True
            return False

        ok, wit = g.all_paths_pass(g.entry.id, selects_cost)
        R.ob("Cmin", "FitBase._on_error_change", ok, eng.where(f),
             "_on_error_change can return without re-selecting the cost node: after a fit on diagonal errors cost_function_value keeps reading the pointwise cost and ignores correlations added later")

    # ---------------------------------------------------------------- F5
    with R.guard("F5"):
        df = eng.cfunc(p.method(FB, "do_fit"), paths=False)  # canonical: a refit block moved into a private helper is written out
        g = eng.cfg(df)

        def is_call(n, name, recv=None):
            for c in eng.calls_in_parts(n.ast_parts()):
                if isinstance(c.func, ast.Attribute) and c.func.attr == name:
                    if recv is None and is_self(c.func.value):
                        return c
                    if recv is not None and self_attr(c.func.value) == recv:
                        return c
            return None

        pres = [n for n in g.stmt_nodes() if is_call(n, "_pre_fit_iteration")]
        if len(pres) < 2:
            raise AnalysisError("do_fit: fewer than two _pre_fit_iteration call sites found")
        for n in pres:
            c = is_call(n, "_pre_fit_iteration")
            ff = _first_fit_arg(c)
            # next: exactly one _fitter.do_fit before the matching post
            def is_min(m):
                return is_call(m, "do_fit", "_fitter") is not None

            def is_post(m):
                cc = is_call(m, "_post_fit_iteration")
                return cc is not None and _first_fit_arg(cc, pos=1) == ff

            ok1, _ = g.all_paths_pass(n.id, is_min)
            # no path pre -> post avoiding the minimization, and every path from pre reaches a matching post
            ok2, _ = g.all_paths_pass(n.id, is_post)
            p_no_min = g.find_path(n.id, is_post, exceptional=False, avoid=is_min)
            R.ob("F5", "do_fit:pre(first_fit=%s)@%s" % (ff, _nth(pres, n)), ok1 and ok2 and p_no_min is None, eng.where(df, n.stmt),
                 "do_fit: _pre_fit_iteration(first_fit=%s) is not followed on every path by one minimization and the matching _post_fit_iteration: nodes stay frozen / are unfrozen around no fit" % ff)
        pre = p.method(FB, "_pre_fit_iteration")
        post = p.method(FB, "_post_fit_iteration")

        def loop_iter(f):
            for n in ast.walk(f.node):
                if isinstance(n, ast.For):
                    return n
            return None

        lp, lq = loop_iter(pre), loop_iter(post)
        same = lp is not None and lq is not None and ast.unparse(lp.iter) == ast.unparse(lq.iter)
        R.ob("F5", "pre/post iterate the same node list", same, eng.where(post), "_post_fit_iteration does not iterate the node list that _pre_fit_iteration froze")
        seq = [c.func.attr for c in ast.walk(lq) if isinstance(c, ast.Call) and isinstance(c.func, ast.Attribute) and c.func.attr in ("unfreeze", "update", "notify_parents", "mark_for_update")] if lq else []
        R.ob("F5", "post: unfreeze then refresh", "unfreeze" in seq and (("update" in seq and "notify_parents" in seq) or "mark_for_update" in seq) and not common.guard_conditions_inside(lq, [c for c in ast.walk(lq) if isinstance(c, ast.Call) and isinstance(c.func, ast.Attribute) and c.func.attr == "unfreeze"][0]) if "unfreeze" in seq else False,
             eng.where(post), "_post_fit_iteration must unfreeze every frozen node and refresh it and its dependents (found %s)" % seq)
        frz = [c.func.attr for c in ast.walk(lp) if isinstance(c, ast.Call) and isinstance(c.func, ast.Attribute) and c.func.attr in ("update", "freeze")] if lp else []
        R.ob("F5", "pre: update then freeze", frz == ["update", "freeze"], eng.where(pre), "_pre_fit_iteration must bring each node up to date and then freeze it (found %s)" % frz)
        # freeze() call sites anywhere else in the fit package
        others = []
        for f in p.all_functions():
            if f.module.name.startswith("kafe2.fit") and f is not pre:
                for c in ast.walk(f.node):
                    if isinstance(c, ast.Call) and isinstance(c.func, ast.Attribute) and c.func.attr == "freeze" and not c.args:
                        others.append(f)
        R.ob("F5", "freeze only in _pre_fit_iteration", not others, eng.where(others[0]) if others else eng.where(pre),
             "nodes are frozen outside the bracketed protocol in %s" % [f.qualname for f in others])

    # ---------------------------------------------------------------- Cget
    with R.guard("Cget"):
        for cn in FITS + ["CustomFit", "MultiFit"]:
            ctx = p.find_class(cn)
            for f in cache.visible_functions(ctx):
                if f.kind != "getter":
                    continue
                w = eng.eff.trans_writes(ctx, f)
                bad = sorted(x for x in w if not x.startswith(("_fitter", "_nexus", "_fits")) and not any(x == ns or x.endswith("." + ns) for ns in NONSTATE)
                             and not x.endswith(NONSTATE_SUFFIX) and x not in ("_loaded_result_dict",) and ".formatter" not in x and "_formatter" not in x)
                # recalculation of the parametric model (lazy) writes its value store
                bad = [x for x in bad if x not in ("_param_model._data", "_param_model._error_dicts", "_data_container._data", "_data_container._processed_entries",
                                                   "_data_container._unprocessed_entries", "_data_container._error_dicts", "_param_model._support",
                                                   "_param_model._processed_entries", "_param_model._unprocessed_entries")]
                R.ob("Cget", "%s:%s" % (cn, f.qualname), not bad, eng.where(f), "%s (as %s) is a getter but writes %s" % (f.qualname, cn, bad[:4]), nontrivial=bool(w))

def check_lazy_push(eng, R):
    """Every fit getter that returns a parameter-dependent quantity of the parametric model (values, uncertainties, matrices) first pushes the current
    parameter values into the model: the model's stored values are a cache of the parameter nodes and can lag behind (load_state, a multi-fit, the minimiser)."""
    p = eng.p
    R.rule("Cpush", "fit getters that return parameter-dependent quantities of the parametric model push the current parameter values into it first", 20)
    for cn in FITS:
        c = p.find_class(cn)
        for name in sorted(c.all_methods()):
            pr = c.find_prop(name)
            if pr is None or pr.fget is None:
                continue
            f = pr.fget
            g = None
            for r in ast.walk(f.node):
                if not (isinstance(r, ast.Return) and r.value is not None):
                    continue
                reads = [a.attr for a in ast.walk(r.value) if isinstance(a, ast.Attribute) and self_attr(a.value) == "_param_model"]
                lazy = [a for a in reads if a in ("data", "y", "x", "err", "x_err", "y_err") or a.endswith(("cov_mat", "cor_mat", "cov_mat_inverse"))]
                if not lazy:
                    continue
                g = g or eng.cfg(f)
                rn = common.cfg_node_of(g, r)

                def pushes(n):
                    st = n.stmt
                    return n.kind == "stmt" and isinstance(st, ast.Assign) and isinstance(st.targets[0], ast.Attribute) and st.targets[0].attr == "parameters" \
                        and self_attr(st.targets[0].value) == "_param_model" and isinstance(st.value, ast.Attribute) and is_self(st.value.value) and st.value.attr == "parameter_values"

                ok, _ = g.dominated_by(rn.id, pushes)
                R.ob("Cpush", "%s:%s" % (cn, f.qualname), ok, (f.file, r.lineno),
                     "%s (as %s) returns the model's stored %s without pushing the current parameter values first: after load_state / a multi-fit / any path that moved the "
                     "parameters without touching the model it shows the values of the previous parameters" % (f.qualname, cn, "/".join(lazy)))


def _first_fit_arg(call, pos=0):
    for k in call.keywords:
        if k.arg == "first_fit":
            return ast.unparse(k.value)
    if len(call.args) > pos:
        return ast.unparse(call.args[pos])
    return "False"


def _nth(lst, n):
    return [x.id for x in lst].index(n.id)


def _is_lazy_push(cs, f2):
    """`self._param_model.parameters = self.parameter_values` / `.x = self.x_model` / `.support = self.data`: idempotent re-sync of the lazily
    recomputed model with the graph (the model values are a cache of the parameter nodes), performed by getters and query methods alike."""
    st = cs.node
    if isinstance(st, ast.Assign) and len(st.targets) == 1 and isinstance(st.targets[0], ast.Attribute):
        t = st.targets[0]
        if t.attr in ("parameters", "x", "support") and self_attr(t.value) == "_param_model":
            v = st.value
            return isinstance(v, ast.Attribute) and is_self(v.value) and v.attr in ("parameter_values", "x_model", "data", "x_data")
    return False


class MustMarks:
    """names of graph nodes marked for update on *every* normal path of a fit function, following same-object calls and calls into the
    fit's containers that end in the container's _on_error_change (which calls back into the fit's _on_error_change, wiring checked by C01/D6)."""

    def __init__(self, eng, ctx, marks):
        self.eng, self.ctx, self.marks = eng, ctx, marks
        self.memo = {}
        self.cb = ctx.find_method("_on_error_change")
        self._reaches_cb = {}

    def container_reaches_callback(self, c2, f2):
        """container function f2 (class c2) calls self._on_error_change() -> ... self._on_error_change_callback() on every normal path"""
        key = (id(c2), id(f2))
        if key in self._reaches_cb:
            return self._reaches_cb[key]
        self._reaches_cb[key] = False

        def is_cb_call(n):
            for c in self.eng.calls_in_parts(n.ast_parts()):
                if isinstance(c.func, ast.Attribute) and c.func.attr == "_on_error_change_callback" and is_self(c.func.value):
                    return True
            return False

        def guarded_cb(n):
            # `if self._on_error_change_callback is not None: self._on_error_change_callback()` - the hook is installed by the data setter (D6)
            if n.kind == "test" and isinstance(n.stmt, ast.If) and "_on_error_change_callback" in ast.unparse(n.stmt.test):
                return any(isinstance(c, ast.Call) and isinstance(c.func, ast.Attribute) and c.func.attr == "_on_error_change_callback" for b in n.stmt.body for c in ast.walk(b))
            return is_cb_call(n)

        r = self.eng.must_call(c2, f2, guarded_cb)
        self._reaches_cb[key] = r
        return r

    def of(self, f, _stack=()):
        key = id(f)
        if key in self.memo:
            return self.memo[key]
        if key in _stack:
            return set()
        eng, ctx = self.eng, self.ctx
        g = eng.cfg(f)
        summ = eng.eff.summary(ctx, f)
        by_node = {}
        for cs in summ.calls:
            by_node.setdefault(id(cs.node), []).append(cs)
        node_marks = {}
        for n in g.stmt_nodes():
            ms = set()
            parts = n.ast_parts()
            subs = [sub for part in parts for sub in walk_no_nested(part)]
            if n.kind == "for":
                # loop over a class constant marking each element: the header stands for all names (an empty constant marks nothing)
                subs = list(ast.walk(n.stmt))
            for sub in subs:
                if isinstance(sub, ast.Call):
                    for name, sites in self.marks.items():
                        if any(c is sub for _, c in sites):
                            if n.kind == "for" or not common.in_loop(f.node, sub) or True:
                                ms.add(name)
                for cs in by_node.get(id(sub), ()):
                    if n.kind == "for" and cs.node is not n.expr and not _inside_expr(n.expr, cs.node):
                        continue
                    for c2, f2 in cs.targets:
                        if cs.prefix == "" and f2 is not f:
                            ms |= self.of(f2, _stack + (key,))
                        elif cs.prefix in ("_data_container", "_param_model") and self.cb is not None:
                            if self.container_reaches_callback(c2, f2):
                                ms |= self.of(self.cb, _stack + (key,))
            if n.kind == "for" and not (self_attr(n.expr) and n.expr.attr.isupper()):
                # only loops over class constants are summarised at the header
                ms = {m for m in ms if False}
            node_marks[n.id] = ms
        # marks inside loop bodies over non-constant iterables do not count (zero iterations)
        out = set()
        all_names = set().union(*node_marks.values()) if node_marks else set()
        for name in all_names:
            sat = {nid for nid, ms in node_marks.items() if name in ms and not _in_unsummarised_loop(f.node, g.nodes[nid])}
            ok, _ = g.all_paths_pass(g.entry.id, lambda m, sat=sat: m.id in sat)
            if ok:
                out.add(name)
        self.memo[key] = out
        return out


def _inside_expr(outer, inner):
    return any(n is inner for n in ast.walk(outer)) if outer is not None else False


def _in_unsummarised_loop(func_node, n):
    if n.kind == "for":
        return False
    st = n.stmt
    pm = common.parents_of(func_node)
    cur = pm.get(id(st))
    prev = st
    while cur is not None and cur is not func_node:
        if isinstance(cur, (ast.For, ast.While)) and any(prev is b for b in cur.body):
            return True
        prev = cur
        cur = pm.get(id(cur))
    return False
