"""C13 - histogram model bin contents = integral of the density over each bin: quadrature weights as exactness identities (R-H)."""
import ast
from fractions import Fraction

from ..effects import is_self, self_attr
from ..engine import AnalysisError, norm_stmt
from ..termform import Normalizer, return_exprs
from . import common
from .formulas import check, get_func

M = "HistParametricModel"


def quadrature_weights(f):
    """(alpha, beta, gamma) = weights of f(left edge), f(centre), f(right edge) per unit bin width, from the canonical form of the return value"""
    rs = return_exprs(f.node)
    if len(rs) != 1:
        raise AnalysisError("%s: expected one return" % f.qualname)
    conds, e, env = rs[0]
    form = Normalizer(env).norm(e)
    w = {"left": Fraction(0), "mid": Fraction(0), "right": Fraction(0)}
    for mono, c in form.t.items():
        atoms = dict(mono)
        if atoms.get("self.bin_widths") != 1 or len(atoms) != 2:
            raise AnalysisError("%s: term %s is not (weight x density(node) x bin width)" % (f.qualname, mono))
        other = [a for a in atoms if a != "self.bin_widths"][0]
        if atoms[other] != 1 or "eval_model_function_density" not in other:
            raise AnalysisError("%s: term %s does not evaluate the model density" % (f.qualname, other))
        if "bin_centers" in other and "[" not in other.split("eval_model_function_density", 1)[1].split(")", 1)[1]:
            w["mid"] += c
        elif other.endswith("[:-1]") and "_bin_edges" in other:
            w["left"] += c
        elif other.endswith("[1:]") and "_bin_edges" in other:
            w["right"] += c
        else:
            raise AnalysisError("%s: quadrature node %s not recognised" % (f.qualname, other))
    return w["left"], w["mid"], w["right"], form.canon()


def run(eng, R):
    p = eng.p
    R.rule("H-quad", "quadrature rules satisfy the exactness identities on [0,1] with rational arithmetic: Simpson up to degree 3, trapezoid and midpoint up to degree 1", 3)
    R.rule("H-geom", "bin centres = (a+b)/2, bin widths = b-a over the same edge slices; antiderivative evaluation is F(b) - F(a) with the current parameters; "
                     "numerical integration runs over (a, b) pairs of the same slices", 5)
    R.rule("S-sel", "bin_evaluation strings select the rule of the same name; the recalculation stores the rule's result in the bin slice and clears the stale flag", 6)
    R.rule("S-fit", "HistFit.model scales by the number of entries exactly when the model is a density; the parametric model is rebuilt from the current container "
                    "(size, range, edges) on every path of _set_new_parametric_model", 4)

    degree = {"_bin_evaluation_simpson": 3, "_bin_evaluation_trapezoid": 1, "_bin_evaluation_rectangle": 1}
    for fn, deg in degree.items():
        f = get_func(p, M, fn)
        a, b, g, canon = quadrature_weights(f)
        moments = [(a + b + g, Fraction(1)), (b / 2 + g, Fraction(1, 2)), (b / 4 + g, Fraction(1, 3)), (b / 8 + g, Fraction(1, 4))]
        ok = all(moments[k][0] == moments[k][1] for k in range(deg + 1))
        R.ob("H-quad", "%s.%s" % (M, fn), ok, (f.file, f.lineno),
             "%s: weights (left, centre, right) = (%s, %s, %s); exactness up to degree %d requires the moments %s to equal %s" % (
                 fn, a, b, g, deg, [str(m[0]) for m in moments[: deg + 1]], [str(m[1]) for m in moments[: deg + 1]]), weights=[str(a), str(b), str(g)])
    check(eng, R, "H-geom", "HistContainer", "bin_centers", "return", "0.5 * (self._bin_edges[1:] + self._bin_edges[:-1])", what="bin centres must be the midpoints of adjacent edges")
    check(eng, R, "H-geom", "HistContainer", "bin_widths", "return", "self._bin_edges[1:] - self._bin_edges[:-1]", what="bin widths must be upper minus lower edge")
    check(eng, R, "H-geom", M, "_bin_evaluation_antiderivative", "return",
          "asarray(self._bin_evaluation(self._bin_edges[1:], *self._model_parameters)) - asarray(self._bin_evaluation(self._bin_edges[:-1], *self._model_parameters))",
          what="antiderivative evaluation must be F(upper edges) - F(lower edges) at the current parameters")
    _check_numerical(eng, R, get_func(p, M, "_bin_evaluation_numerical"))
    f = get_func(p, M, "eval_model_function_density")
    src = common.src_of(f.node)
    PARS = "self._model_parameters if model_parameters is None else model_parameters"
    R.ob("H-geom", "%s.eval_model_function_density" % M, common.like_any(src, "self._model_function_object(x, *(%s))" % PARS, ["_p = " + PARS, "self._model_function_object(x, *_p)"]),
         (f.file, f.lineno), "the density must be evaluated at the given parameters, by default the model's current ones")

    # ---- selection table
    with R.guard("selection table"):
        ini = get_func(p, M, "__init__")
        sel = _selection_table(p, ini)
        want = {"rectangle": "_bin_evaluation_rectangle", "midpoint": "_bin_evaluation_rectangle", "trapezoid": "_bin_evaluation_trapezoid", "simpson": "_bin_evaluation_simpson", "numerical": "_bin_evaluation_numerical"}
        for k, v in want.items():
            R.ob("S-sel", "%s.__init__:%s" % (M, k), sel.get(k) == v, (ini.file, ini.lineno), "bin_evaluation='%s' selects %s, expected %s" % (k, sel.get(k), v))
        rc = get_func(p, M, "_recalculate")
        g = eng.cfg(rc)

        def stores(n):
            st = n.stmt
            return n.kind == "stmt" and isinstance(st, ast.Assign) and any(isinstance(t, ast.Subscript) and self_attr(t.value) == "_data" and ast.unparse(t.slice) == "1:-1" for t in st.targets) \
                and isinstance(st.value, ast.Call) and self_attr(st.value.func) == "_bin_evaluation_method"

        def clears(n):
            st = n.stmt
            return n.kind == "stmt" and isinstance(st, ast.Assign) and any(self_attr(t) == "_pm_calculation_stale" for t in st.targets) and isinstance(st.value, ast.Constant) and st.value.value is False

        R.ob("S-sel", "%s._recalculate" % M, g.all_paths_pass(g.entry.id, stores)[0] and g.all_paths_pass(g.entry.id, clears)[0], (rc.file, rc.lineno),
             "_recalculate must store the selected rule's result in the bin slice _data[1:-1] and clear the stale flag")

    # ---- HistFit
    with R.guard("HistFit"):
        hm = get_func(p, "HistFit", "model")
        cn = eng.cnode(hm)  # canonical: aliases resolved, negated test / early return folded into one if/else form
        rs = return_exprs(cn)
        got = {}
        for conds, e, env in rs:
            key = " and ".join(("" if pol else "not ") + ast.unparse(t) for t, pol in conds)
            got[key] = Normalizer(env).norm(e).canon()
        ok = False
        for flag in ("self._param_model.density", "self._density"):  # the reader keeps the fit's flag equal to the model's (C09 E14)
            ok = ok or (got.get(flag) == "self._data_container.n_entries*self._param_model.data" and got.get("not " + flag) == "self._param_model.data")
        if not ok and len(got) == 1:
            # the scale may live in a (shared) helper: `self._param_model.data * self.<helper>()` with helper = n_entries for a density, 1 otherwise
            (form,) = got.values()
            for m_ in p.find_class("HistFit").all_methods().values():
                if not hasattr(m_, "node") or ("(self).%s()" % m_.name) not in form:
                    continue
                if form not in ("(self).%s()*self._param_model.data" % m_.name,):
                    continue
                hr = {}
                for conds, e, env in return_exprs(eng.cnode(m_)):
                    key = " and ".join(("" if pol else "not ") + ast.unparse(t) for t, pol in conds)
                    hr[key] = Normalizer(env).norm(e).canon()
                for flag in ("self._param_model.density", "self._density"):
                    if hr.get(flag) == "self._data_container.n_entries" and hr.get("not " + flag) == "1":
                        ok = True
        R.ob("S-fit", "HistFit.model", ok, (hm.file, hm.lineno), "HistFit.model must be density integral x number of entries for a density, the bare bin contents otherwise (found %s)" % got)
        # the push comes before the first read of the model's data on every path
        g = eng.ccfg(hm)

        def pushes(n):
            st = n.stmt
            return n.kind == "stmt" and isinstance(st, ast.Assign) and any(common.src_of(t) == "self._param_model.parameters" for t in st.targets) and common.src_of(st.value) == "self.parameter_values"

        def reads_data(n):
            return any(isinstance(x, ast.Attribute) and x.attr == "data" and common.src_of(x.value) == "self._param_model" for part in n.ast_parts() for x in ast.walk(part))

        first_reads = [n for n in g.nodes if n.kind in ("stmt", "test") and reads_data(n)]
        ok = bool(first_reads)
        for rd in first_reads:
            path = g.find_path(g.entry.id, lambda m, rd=rd: m.id == rd.id, exceptional=False, avoid=pushes)
            ok = ok and path is None
        R.ob("S-fit", "HistFit.model:push", ok, (hm.file, hm.lineno), "HistFit.model must push the current parameter values into the model before reading it")
        sp = get_func(p, "HistFit", "_set_new_parametric_model")
        g = eng.cfg(sp)

        def assigns_model(n):
            st = n.stmt
            return n.kind == "stmt" and isinstance(st, ast.Assign) and any(self_attr(t) == "_param_model" for t in st.targets)

        ok, wit = g.all_paths_pass(g.entry.id, assigns_model)
        R.ob("S-fit", "HistFit._set_new_parametric_model:always", ok, (sp.file, sp.lineno),
             "_set_new_parametric_model can return without building a model for the new data container: the old model keeps integrating over the old bin edges")
        csp = eng.cnode(sp)
        calls = [n.value for n in ast.walk(csp) if isinstance(n, ast.Assign) and any(self_attr(t) == "_param_model" for t in n.targets) and isinstance(n.value, ast.Call)]
        ok = bool(calls)
        ctor = p.find_class("HistParametricModel").find_method("__init__")
        want = {"n_bins": "self._data_container.size", "bin_range": "self._data_container.bin_range", "model_density_func": "self._model_function", "model_parameters": "self.parameter_values",
                "bin_edges": "self._data_container.bin_edges", "bin_evaluation": "self._bin_evaluation", "density": "self._density"}
        from . import norm
        for c in calls:
            bound = {k: norm.txt(v) for k, v in norm.bind_call(c, ctor.node).items()}
            ok = ok and all(bound.get(k) == v for k, v in want.items())
        R.ob("S-fit", "HistFit._set_new_parametric_model:args", ok, (sp.file, sp.lineno),
             "the parametric model must be built from the current container's size, range and edges, the fit's model function, parameters, bin evaluation and density flag")

def _check_numerical(eng, R, f):
    """the numerical rule integrates the density over every (lower, upper) pair of adjacent edges and stores the integral in the slot of that bin - found structurally:
    aliases, a def instead of a lambda, keyword bounds and a split tuple assignment are all the same thing"""
    from . import norm

    env = norm.alias_env(f.node)
    g = eng.cfg(f)
    loops = []
    for n in g.nodes:
        if n.kind != "for":
            continue
        it = norm.closed(n.stmt.iter, env)
        inner = it
        enumerated = False
        if isinstance(inner, ast.Call) and isinstance(inner.func, ast.Name) and inner.func.id == "enumerate" and inner.args:
            inner = inner.args[0]
            enumerated = True
        if isinstance(inner, ast.Call) and isinstance(inner.func, ast.Name) and inner.func.id == "zip" and len(inner.args) == 2 \
                and [norm.txt(a) for a in inner.args] == ["self._bin_edges[:-1]", "self._bin_edges[1:]"]:
            loops.append((n, enumerated))
    ok = len(loops) == 1 and loops[0][1]
    why = "the loop over zip(self._bin_edges[:-1], self._bin_edges[1:]) (enumerated) was not found"
    every = False
    if ok:
        ln, _ = loops[0]
        tg = ln.stmt.target
        idx = tg.elts[0].id if isinstance(tg, ast.Tuple) and isinstance(tg.elts[0], ast.Name) else None
        ab = [x.id for x in tg.elts[1].elts] if isinstance(tg, ast.Tuple) and isinstance(tg.elts[1], ast.Tuple) and all(isinstance(x, ast.Name) for x in tg.elts[1].elts) else []
        # integrand: a lambda or nested def of one argument returning self.eval_model_function_density(<arg>)
        integrands = set()
        for d in ast.walk(f.node):
            if isinstance(d, ast.FunctionDef) and d is not f.node and len(d.args.args) == 1:
                rets = [r.value for r in ast.walk(d) if isinstance(r, ast.Return) and r.value is not None]
                if len(rets) == 1 and norm.txt(rets[0]) == "self.eval_model_function_density(%s)" % d.args.args[0].arg:
                    integrands.add(d.name)
            if isinstance(d, ast.Assign) and isinstance(d.value, ast.Lambda) and len(d.value.args.args) == 1 and isinstance(d.targets[0], ast.Name) \
                    and norm.txt(d.value.body) == "self.eval_model_function_density(%s)" % d.value.args.args[0].arg:
                integrands.add(d.targets[0].id)
        quads = []
        for c in ast.walk(ln.stmt):
            if isinstance(c, ast.Call) and norm.txt(c.func).endswith("quad"):
                kw = {k.arg: k.value for k in c.keywords}
                args = list(c.args) + [None] * 3
                fn_ = args[0] if args[0] is not None else kw.get("func")
                a_ = args[1] if args[1] is not None else kw.get("a")
                b_ = args[2] if args[2] is not None else kw.get("b")
                # the integrand: a local lambda / def of the density, the lambda itself, or (canonical form: lambda x: f(x) is f) the bound density method
                fr_ = common.resolve_local(f.node, fn_) if fn_ is not None else None   # (a local that names the bound method is read through)
                dens = (isinstance(fn_, ast.Name) and fn_.id in integrands) or (fr_ is not None and norm.txt(fr_) == "self.eval_model_function_density") \
                    or (isinstance(fn_, ast.Lambda) and len(fn_.args.args) == 1 and norm.txt(fn_.body) == "self.eval_model_function_density(%s)" % fn_.args.args[0].arg)
                quads.append((c, dens and len(ab) == 2 and norm.txt(a_) == ab[0] and norm.txt(b_) == ab[1]))
        ok = len(quads) == 1 and quads[0][1] and idx is not None
        why = "the density is not integrated with quad(<density>, lower, upper) over the loop's own edge pair"
        if ok:
            qc = quads[0][0]
            # the first element of the result reaches <store>[idx] on every path of an iteration
            first_names = set()
            direct = []
            for st in ast.walk(ln.stmt):
                if isinstance(st, ast.Assign) and st.value is qc:
                    t = st.targets[0]
                    if isinstance(t, ast.Tuple) and t.elts:
                        if isinstance(t.elts[0], ast.Name):
                            first_names.add(t.elts[0].id)
                        elif isinstance(t.elts[0], ast.Subscript) and norm.txt(t.elts[0].slice) == idx:
                            direct.append(st)
                if isinstance(st, ast.Assign) and isinstance(st.value, ast.Subscript) and st.value.value is qc and norm.txt(st.value.slice) == "0":
                    t = st.targets[0]
                    if isinstance(t, ast.Subscript) and norm.txt(t.slice) == idx:
                        direct.append(st)
                    elif isinstance(t, ast.Name):
                        first_names.add(t.id)

            def stores_bin(m):
                st = m.stmt
                if m.kind != "stmt" or not isinstance(st, ast.Assign):
                    return False
                if any(st is d for d in direct):
                    return True
                t = st.targets[0]
                return isinstance(t, ast.Subscript) and norm.txt(t.slice) == idx and isinstance(st.value, ast.Name) and st.value.id in first_names

            path = g.find_path(ln.id, lambda m: m.id == ln.id, exceptional=False, avoid=stores_bin)
            every = path is None or len(path) <= 1
            stores = [m for m in g.nodes if stores_bin(m)]
            ok = bool(stores)
            why = "the integral is not stored in the slot of its bin"
            if ok:
                arrs = {norm.txt((m.stmt.targets[0].elts[0] if isinstance(m.stmt.targets[0], ast.Tuple) else m.stmt.targets[0]).value) for m in stores}
                rets = [norm.ctxt(r.value, env) for r in ast.walk(f.node) if isinstance(r, ast.Return) and r.value is not None and not any(r in list(ast.walk(d)) for d in ast.walk(f.node) if isinstance(d, ast.FunctionDef) and d is not f.node)]
                ok = len(arrs) == 1 and rets == [next(iter(arrs))] or (len(arrs) == 1 and all(r == norm.ctxt(ast.Name(id=next(iter(arrs)), ctx=ast.Load()), env) for r in rets) and bool(rets))
                why = "the array of integrals is not what the rule returns"
    if not loops:
        # the same thing as one expression: [quad(<density>, a, b)[0] for a, b in zip(edges[:-1], edges[1:])] (every pair, in order, unfiltered), returned as an array
        comps = []
        for c in ast.walk(f.node):
            if isinstance(c, ast.ListComp) and len(c.generators) == 1:
                gen = c.generators[0]
                it = norm.closed(gen.iter, env)
                tg = gen.target
                if isinstance(it, ast.Call) and isinstance(it.func, ast.Name) and it.func.id == "enumerate" and it.args and isinstance(tg, ast.Tuple) and len(tg.elts) == 2:
                    it, tg = it.args[0], tg.elts[1]
                if isinstance(it, ast.Call) and isinstance(it.func, ast.Name) and it.func.id == "zip" and [norm.txt(a) for a in it.args] == ["self._bin_edges[:-1]", "self._bin_edges[1:]"]:
                    comps.append((c, gen, tg))
        ok = len(comps) == 1
        if ok:
            c, gen, tg = comps[0]
            ab = [x.id for x in tg.elts] if isinstance(tg, ast.Tuple) and all(isinstance(x, ast.Name) for x in tg.elts) else []
            e = c.elt
            q = e.value if isinstance(e, ast.Subscript) and norm.txt(e.slice) == "0" else None
            ok = False
            why = "the density is not integrated with quad(<density>, lower, upper)[0] over the comprehension's own edge pair"
            if isinstance(q, ast.Call) and norm.txt(q.func).endswith("quad") and len(ab) == 2:
                kw = {k.arg: k.value for k in q.keywords}
                args = list(q.args) + [None] * 3
                fn_ = args[0] if args[0] is not None else kw.get("func")
                a_ = args[1] if args[1] is not None else kw.get("a")
                b_ = args[2] if args[2] is not None else kw.get("b")
                fr_ = common.resolve_local(f.node, fn_) if fn_ is not None else None
                dens = (fr_ is not None and norm.txt(fr_) == "self.eval_model_function_density") \
                    or (isinstance(fn_, ast.Lambda) and len(fn_.args.args) == 1 and norm.txt(fn_.body) == "self.eval_model_function_density(%s)" % fn_.args.args[0].arg)
                ok = bool(dens) and a_ is not None and b_ is not None and norm.txt(a_) == ab[0] and norm.txt(b_) == ab[1]
            every = not gen.ifs
            if ok:
                rets = [norm.closed(r.value, env) for r in ast.walk(f.node) if isinstance(r, ast.Return) and r.value is not None]
                ctext = norm.txt(norm.closed(c, env))

                def is_result(r):
                    # the list itself, or np.array / np.asarray of it
                    if norm.txt(r) == ctext:
                        return True
                    return isinstance(r, ast.Call) and norm.txt(r.func) in ("np.array", "np.asarray", "numpy.array", "numpy.asarray") and r.args and norm.txt(r.args[0]) == ctext

                ok = bool(rets) and all(is_result(r) for r in rets)
                why = "the array of integrals is not what the rule returns"
    R.ob("H-geom", "%s._bin_evaluation_numerical" % M, ok, (f.file, f.lineno), "numerical evaluation must integrate the density over each (lower, upper) edge pair: %s" % why)
    R.ob("H-geom", "%s._bin_evaluation_numerical:every bin" % M, ok and every, (f.file, f.lineno),
         "an iteration of the bin loop can finish without integrating the density over the bin (guard / continue before the store): the content of such bins stays 0")


def _selection_table(p, ini):
    """string -> name of the evaluation method selected for it, read from the assignments to self._bin_evaluation_method in __init__ (guarded by comparisons of
    self._bin_evaluation) or from a helper `self.<helper>(self._bin_evaluation)` that returns the method under the same comparisons of its parameter"""
    from . import norm

    sel = {}

    def keys_of(cnd, subject_ok):
        if isinstance(cnd, ast.Compare) and len(cnd.ops) == 1 and isinstance(cnd.ops[0], (ast.Eq, ast.In)) and subject_ok(cnd.left):
            comp = cnd.comparators[0]
            return [common.const_str(comp)] if common.const_str(comp) else [common.const_str(x) for x in getattr(comp, "elts", [])]
        return []

    for n in ast.walk(ini.node):
        if not (isinstance(n, ast.Assign) and any(self_attr(t) == "_bin_evaluation_method" for t in n.targets)):
            continue
        # a dispatch table: `methods = {'name': self._method, ...}` ... `self._bin_evaluation_method = methods[self._bin_evaluation]`
        if isinstance(n.value, ast.Subscript) and self_attr(n.value.slice) == "_bin_evaluation":
            table = common.resolve_local(ini.node, n.value.value)
            if isinstance(table, ast.Dict):
                for k, v in zip(table.keys, table.values):
                    if common.const_str(k) and self_attr(v):
                        sel[common.const_str(k)] = self_attr(v)
            continue
        # `getattr(self, <name chosen by a chain of comparisons of the requested method>)`: first matching row of a name table
        if isinstance(n.value, ast.Call) and isinstance(n.value.func, ast.Name) and n.value.func.id == "getattr" and len(n.value.args) == 2 and is_self(n.value.args[0]):
            chain = common.resolve_local(ini.node, n.value.args[1])
            while isinstance(chain, ast.IfExp):
                ks = keys_of(chain.test, lambda e: self_attr(e) == "_bin_evaluation")
                if common.const_str(chain.body):
                    for k in ks:
                        sel.setdefault(k, common.const_str(chain.body))   # (an earlier row wins)
                chain = chain.orelse
            continue
        if self_attr(n.value):
            from ..canon import negate
            for cnd, pol in common.guard_conditions(ini.node, n):
                if not pol:
                    cnd = negate(cnd)   # reached because `x != 'name'` failed (flat form: `if x != 'name': raise` before the assignment)
                for k in keys_of(cnd, lambda e: self_attr(e) == "_bin_evaluation"):
                    sel[k] = n.value.attr
        elif isinstance(n.value, ast.Call) and isinstance(n.value.func, ast.Attribute) and is_self(n.value.func.value) and n.value.args and self_attr(n.value.args[0]) == "_bin_evaluation":
            h = ini.cls.find_method(n.value.func.attr)
            if h is None:
                continue
            par = h.node.args.args[1].arg if len(h.node.args.args) > 1 else None
            for conds, val in norm.returns_under_guards(h.node):
                if val is not None and self_attr(val):
                    pos = [c for c, pol in conds if pol]
                    if pos:
                        for k in keys_of(pos[-1], lambda e: isinstance(e, ast.Name) and e.id == par):
                            sel[k] = val.attr
    return sel
