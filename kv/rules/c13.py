"""C13 - histogram model bin contents = integral of the density over each bin: quadrature weights as exactness identities (R-H)."""
import ast
from fractions import Fraction

from ..effects import is_self, self_attr
from ..engine import AnalysisError, norm_stmt
from ..termform import Normalizer, return_exprs
from . import common
from .formulas import check, get_func

M = "HistParametricModel"


def quadrature_weights(f):
    """(alpha, beta, gamma) = weights of f(left edge), f(centre), f(right edge) per unit bin width, from the canonical form of the return value"""
    rs = return_exprs(f.node)
    if len(rs) != 1:
        raise AnalysisError("%s: expected one return" % f.qualname)
    conds, e, env = rs[0]
    form = Normalizer(env).norm(e)
    w = {"left": Fraction(0), "mid": Fraction(0), "right": Fraction(0)}
    for mono, c in form.t.items():
        atoms = dict(mono)
        if atoms.get("self.bin_widths") != 1 or len(atoms) != 2:
            raise AnalysisError("%s: term %s is not (weight x density(node) x bin width)" % (f.qualname, mono))
        other = [a for a in atoms if a != "self.bin_widths"][0]
        if atoms[other] != 1 or "eval_model_function_density" not in other:
            raise AnalysisError("%s: term %s does not evaluate the model density" % (f.qualname, other))
        if "bin_centers" in other and "[" not in other.split("eval_model_function_density", 1)[1].split(")", 1)[1]:
            w["mid"] += c
        elif other.endswith("[:-1]") and "_bin_edges" in other:
            w["left"] += c
        elif other.endswith("[1:]") and "_bin_edges" in other:
            w["right"] += c
        else:
            raise AnalysisError("%s: quadrature node %s not recognised" % (f.qualname, other))
    return w["left"], w["mid"], w["right"], form.canon()


def run(eng, R):
    p = eng.p
    R.rule("H-quad", "quadrature rules satisfy the exactness identities on [0,1] with rational arithmetic: Simpson up to degree 3, trapezoid and midpoint up to degree 1", 3)
    R.rule("H-geom", "bin centres = (a+b)/2, bin widths = b-a over the same edge slices; antiderivative evaluation is F(b) - F(a) with the current parameters; "
                     "numerical integration runs over (a, b) pairs of the same slices", 5)
    R.rule("S-sel", "bin_evaluation strings select the rule of the same name; the recalculation stores the rule's result in the bin slice and clears the stale flag", 6)
    R.rule("S-fit", "HistFit.model scales by the number of entries exactly when the model is a density; the parametric model is rebuilt from the current container "
                    "(size, range, edges) on every path of _set_new_parametric_model", 4)

    degree = {"_bin_evaluation_simpson": 3, "_bin_evaluation_trapezoid": 1, "_bin_evaluation_rectangle": 1}
    for fn, deg in degree.items():
        f = get_func(p, M, fn)
        a, b, g, canon = quadrature_weights(f)
        moments = [(a + b + g, Fraction(1)), (b / 2 + g, Fraction(1, 2)), (b / 4 + g, Fraction(1, 3)), (b / 8 + g, Fraction(1, 4))]
        ok = all(moments[k][0] == moments[k][1] for k in range(deg + 1))
        R.ob("H-quad", "%s.%s" % (M, fn), ok, (f.file, f.lineno),
             "%s: weights (left, centre, right) = (%s, %s, %s); exactness up to degree %d requires the moments %s to equal %s" % (
                 fn, a, b, g, deg, [str(m[0]) for m in moments[: deg + 1]], [str(m[1]) for m in moments[: deg + 1]]), weights=[str(a), str(b), str(g)])
    check(eng, R, "H-geom", "HistContainer", "bin_centers", "return", "0.5 * (self._bin_edges[1:] + self._bin_edges[:-1])", what="bin centres must be the midpoints of adjacent edges")
    check(eng, R, "H-geom", "HistContainer", "bin_widths", "return", "self._bin_edges[1:] - self._bin_edges[:-1]", what="bin widths must be upper minus lower edge")
    check(eng, R, "H-geom", M, "_bin_evaluation_antiderivative", "return",
          "asarray(self._bin_evaluation(self._bin_edges[1:], *self._model_parameters)) - asarray(self._bin_evaluation(self._bin_edges[:-1], *self._model_parameters))",
          what="antiderivative evaluation must be F(upper edges) - F(lower edges) at the current parameters")
    f = get_func(p, M, "_bin_evaluation_numerical")
    src = common.src_of(f.node)
    R.ob("H-geom", "%s._bin_evaluation_numerical" % M, "zip(self._bin_edges[:-1], self._bin_edges[1:])" in src and "integrate.quad(_integrand_func, _a, _b)" in src
         and "self.eval_model_function_density(x)" in src and "_int_val[_i], _ =" in src, (f.file, f.lineno), "numerical evaluation must integrate the density over each (lower, upper) edge pair")
    # every bin is integrated: no path through one iteration of the bin loop skips the store
    fnum = get_func(p, M, "_bin_evaluation_numerical")
    g = eng.cfg(fnum)
    loops = [n for n in g.nodes if n.kind == "for" and "zip(self._bin_edges[:-1], self._bin_edges[1:])" in " ".join(ast.unparse(n.stmt.iter).split())]
    ok = len(loops) == 1
    if ok:
        def stores_bin(n):
            st = n.stmt
            return n.kind == "stmt" and isinstance(st, ast.Assign) and "_int_val[" in ast.unparse(st.targets[0]) and "integrate.quad" in ast.unparse(st.value)

        path = g.find_path(loops[0].id, lambda m: m.id == loops[0].id, exceptional=False, avoid=stores_bin)
        ok = path is None or len(path) <= 1
    R.ob("H-geom", "%s._bin_evaluation_numerical:every bin" % M, ok, (fnum.file, fnum.lineno),
         "an iteration of the bin loop can finish without integrating the density over the bin (guard / continue before the store): the content of such bins stays 0")
    f = get_func(p, M, "eval_model_function_density")
    src = common.src_of(f.node)
    R.ob("H-geom", "%s.eval_model_function_density" % M, "model_parameters if model_parameters is not None else self._model_parameters" in src and "self._model_function_object(x, *_pars)" in src,
         (f.file, f.lineno), "the density must be evaluated at the given parameters, by default the model's current ones")

    # ---- selection table
    ini = get_func(p, M, "__init__")
    sel = {}
    for n in ast.walk(ini.node):
        if isinstance(n, ast.Assign) and any(self_attr(t) == "_bin_evaluation_method" for t in n.targets) and self_attr(n.value):
            for cnd, pol in common.guard_conditions(ini.node, n):
                if pol and isinstance(cnd, ast.Compare) and self_attr(cnd.left) == "_bin_evaluation":
                    comp = cnd.comparators[0]
                    keys = [common.const_str(comp)] if common.const_str(comp) else [common.const_str(x) for x in getattr(comp, "elts", [])]
                    for k in keys:
                        sel[k] = n.value.attr
    want = {"rectangle": "_bin_evaluation_rectangle", "midpoint": "_bin_evaluation_rectangle", "trapezoid": "_bin_evaluation_trapezoid", "simpson": "_bin_evaluation_simpson", "numerical": "_bin_evaluation_numerical"}
    for k, v in want.items():
        R.ob("S-sel", "%s.__init__:%s" % (M, k), sel.get(k) == v, (ini.file, ini.lineno), "bin_evaluation='%s' selects %s, expected %s" % (k, sel.get(k), v))
    rc = get_func(p, M, "_recalculate")
    g = eng.cfg(rc)

    def stores(n):
        st = n.stmt
        return n.kind == "stmt" and isinstance(st, ast.Assign) and any(isinstance(t, ast.Subscript) and self_attr(t.value) == "_data" and ast.unparse(t.slice) == "1:-1" for t in st.targets) \
            and isinstance(st.value, ast.Call) and self_attr(st.value.func) == "_bin_evaluation_method"

    def clears(n):
        st = n.stmt
        return n.kind == "stmt" and isinstance(st, ast.Assign) and any(self_attr(t) == "_pm_calculation_stale" for t in st.targets) and isinstance(st.value, ast.Constant) and st.value.value is False

    R.ob("S-sel", "%s._recalculate" % M, g.all_paths_pass(g.entry.id, stores)[0] and g.all_paths_pass(g.entry.id, clears)[0], (rc.file, rc.lineno),
         "_recalculate must store the selected rule's result in the bin slice _data[1:-1] and clear the stale flag")

    # ---- HistFit
    hm = get_func(p, "HistFit", "model")
    rs = return_exprs(hm.node)
    got = {}
    for conds, e, env in rs:
        key = " and ".join(("" if pol else "not ") + ast.unparse(t) for t, pol in conds)
        got[key] = Normalizer(env).norm(e).canon()
    ok = False
    for flag in ("self._param_model.density", "self._density"):  # the reader keeps the fit's flag equal to the model's (C09 E14)
        ok = ok or (got.get(flag) == "self._data_container.n_entries*self._param_model.data" and got.get("not " + flag) == "self._param_model.data")
    if not ok and len(got) == 1:
        # the scale may live in a helper: `self._param_model.data * self.<helper>()` with helper = n_entries for a density, 1 otherwise
        (form,) = got.values()
        for m_ in p.find_class("HistFit").all_methods().values():
            if not hasattr(m_, "node") or ("(self).%s()" % m_.name) not in form:
                continue
            if form not in ("(self).%s()*self._param_model.data" % m_.name,):
                continue
            hr = {}
            for conds, e, env in return_exprs(m_.node):
                key = " and ".join(("" if pol else "not ") + ast.unparse(t) for t, pol in conds)
                hr[key] = Normalizer(env).norm(e).canon()
            for flag in ("self._param_model.density", "self._density"):
                if hr.get(flag) == "self._data_container.n_entries" and hr.get("not " + flag) == "1":
                    ok = True
    R.ob("S-fit", "HistFit.model", ok, (hm.file, hm.lineno), "HistFit.model must be density integral x number of entries for a density, the bare bin contents otherwise (found %s)" % got)
    src = common.src_of(hm.node)
    R.ob("S-fit", "HistFit.model:push", "self._param_model.parameters = self.parameter_values" in src, (hm.file, hm.lineno), "HistFit.model must push the current parameter values into the model before reading it")
    sp = get_func(p, "HistFit", "_set_new_parametric_model")
    g = eng.cfg(sp)

    def assigns_model(n):
        st = n.stmt
        return n.kind == "stmt" and isinstance(st, ast.Assign) and any(self_attr(t) == "_param_model" for t in st.targets)

    ok, wit = g.all_paths_pass(g.entry.id, assigns_model)
    R.ob("S-fit", "HistFit._set_new_parametric_model:always", ok, (sp.file, sp.lineno),
         "_set_new_parametric_model can return without building a model for the new data container: the old model keeps integrating over the old bin edges")
    calls = [n.value for n in ast.walk(sp.node) if isinstance(n, ast.Assign) and any(self_attr(t) == "_param_model" for t in n.targets) and isinstance(n.value, ast.Call)]
    ok = bool(calls)
    for c in calls:
        args = [" ".join(ast.unparse(a).split()) for a in c.args] + ["%s=%s" % (k.arg, " ".join(ast.unparse(k.value).split())) for k in c.keywords]
        ok = ok and args[:5] == ["self._data_container.size", "self._data_container.bin_range", "self._model_function", "self.parameter_values", "self._data_container.bin_edges"] \
            and "bin_evaluation=self._bin_evaluation" in args and "density=self._density" in args
    R.ob("S-fit", "HistFit._set_new_parametric_model:args", ok, (sp.file, sp.lineno),
         "the parametric model must be built from the current container's size, range and edges, the fit's model function, parameters, bin evaluation and density flag")
