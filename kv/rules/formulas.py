"""R-H formula-shape rules: the canonical form of a code expression equals the canonical form of the documented formula.

Each entry names a function, what to extract (its return value, the value assigned to a field / local, under an optional
branch condition) and the specification written as a Python expression over the same atoms. Outcome per entry:
equal -> discharged; different -> VIOLATION; unknown vocabulary / shape not straight-line -> ANALYSIS-ERROR.
"""
import ast
from fractions import Fraction

from ..engine import AnalysisError
from ..termform import Normalizer, Poly, assigned_exprs, compare, inline_calls, leaves, norm_spec, path_exprs, return_exprs, straight_line_env, subst


def get_func(p, cname, fname):
    if cname is None:
        mod, fn = fname.split(":")
        f = p.resolve_name(p.module(mod), fn)
        if f is None or not hasattr(f, "node"):
            raise AnalysisError("anchor function %s not found" % fname)
        return f
    if ":" in cname:
        mod, cn = cname.split(":")
        c = p.cls(mod, cn)
    else:
        c = p.find_class(cname)
    if "." in fname:
        pn, acc = fname.split(".")
        pr = c.find_prop(pn)
        f = getattr(pr, acc) if pr else None
    else:
        f = c.find_method(fname)
        if f is None and c.find_prop(fname):
            f = c.find_prop(fname).fget
    if f is None:
        raise AnalysisError("anchor %s.%s not found" % (cname, fname))
    return f


def cond_text(conds):
    return " and ".join(("" if pol else "not ") + "(" + " ".join(ast.unparse(t).split()) + ")" for t, pol in conds)


def _pick(kind, target):
    """statement -> expressions of interest, for the path-sensitive kinds:
    result           the returned value
    store:<text>     the value stored to the attribute / subscript written <text> (e.g. store:self._err)
    arg:<callee>:<k> the k-th positional argument (canonical form binds keywords to positions) of every call of a function / method named <callee>"""
    if kind == "result":
        return lambda st: [st.value] if isinstance(st, ast.Return) and st.value is not None else []
    if kind == "store":
        def pick(st):
            if isinstance(st, ast.Assign):
                return [st.value for t in st.targets if " ".join(ast.unparse(t).split()) == target]
            return []
        return pick
    if kind == "arg":
        callee, k = target.rsplit(":", 1)

        def pick(st):
            out = []
            own = [st] if not hasattr(st, "body") else [x for x in (getattr(st, "test", None), getattr(st, "iter", None)) if x is not None]
            for o in own:
                for c in ast.walk(o):
                    if isinstance(c, ast.Call) and (c.func.attr if isinstance(c.func, ast.Attribute) else getattr(c.func, "id", None)) == callee:
                        if k.isdigit() and len(c.args) > int(k):
                            out.append(c.args[int(k)])
                        else:
                            out.extend(kw.value for kw in c.keywords if kw.arg == k)
            return out
        return pick
    raise AnalysisError("unknown extraction kind %s" % kind)


def canon_cond_text(conds):
    """guards of a path with negations folded: ['(a > 0)', 'not (self.relative)', ...]"""
    from ..canon import negate, positive, _is_negative

    out = []
    for t, pol in conds:
        t = positive(t)
        if _is_negative(t):
            t, pol = negate(t), not pol
        out.append(("" if pol else "not ") + "(" + " ".join(ast.unparse(t).split()) + ")")
    return out


def extract(f, kind, target=None, when=None, index=None, inline=False, node=None):
    """normal forms [(cond text, Poly)] of the requested expression(s)"""
    if kind in ("result", "store", "arg"):
        try:
            rs = path_exprs(node if node is not None else f.node, _pick(kind, target))
        except ValueError as e:
            raise AnalysisError("%s: %s" % (f.qualname, e))
        out = []
        for conds, e, env in rs:
            lits = canon_cond_text(conds)
            # `when` = the states the formula is documented for: a path is left out only if it *contradicts* one of the literals (a path that does not test a
            # literal at all also serves the states where it holds)
            ws = [] if when is None else ([when] if isinstance(when, str) else list(when))
            if any((w[4:] if w.startswith("not ") else "not " + w) in lits for w in ws):
                continue
            if index is not None:
                if isinstance(e, (ast.Tuple, ast.List)) and len(e.elts) > index:
                    e = e.elts[index]
                else:
                    e2 = subst(e, env)
                    if isinstance(e2, (ast.Tuple, ast.List)) and len(e2.elts) > index:
                        e = e2.elts[index]
                    else:
                        raise AnalysisError("%s: tuple return expected" % f.qualname)
            e = subst(e, env)
            if inline and getattr(f, "cls", None) is not None:
                e = inline_calls(e, _helper_resolver(f))
            out.append((" and ".join(lits), Normalizer({}).norm(e), leaves(e, {})))
        return out
    rs = return_exprs(f.node) if kind == "return" else assigned_exprs(f.node, target)
    out = []
    for conds, e, env in rs:
        ct = cond_text(conds)
        if isinstance(when, str) and when.startswith("="):
            # exact match of the innermost guard (with polarity)
            if not conds or cond_text(conds[-1:]) != when[1:]:
                continue
        elif when is not None and not all(w in ct for w in ([when] if isinstance(when, str) else when)):
            continue
        if e is None:
            continue
        if index is not None:
            if isinstance(e, (ast.Tuple, ast.List)) and len(e.elts) > index:
                e = e.elts[index]
            else:
                raise AnalysisError("%s: tuple return expected" % f.qualname)
        e = subst(e, env)
        if inline and getattr(f, "cls", None) is not None:
            e = inline_calls(e, _helper_resolver(f))
        out.append((ct, Normalizer({}).norm(e), leaves(e, {})))
    return out


def _helper_resolver(f):
    """calls self.m(...), cls.m(...), ClassName.m(...) to a method m of f's own class hierarchy (not f itself, not properties)"""
    names = {"self", "cls"} | {c.name for c in f.cls.mro}

    def resolve(call):
        fn = call.func
        if isinstance(fn, ast.Attribute) and isinstance(fn.value, ast.Name) and fn.value.id in names:
            m = f.cls.find_method(fn.attr)
            if m is not None and m is not f and m.node is not f.node and len(m.node.body) <= 12:
                return m.node
        if isinstance(fn, ast.Name) and fn.id in f.module.functions:
            m = f.module.functions[fn.id]
            if m.node is not f.node and len(m.node.body) <= 12:
                return m.node
        return None

    return resolve


def canonical_spec(eng, f, spec):
    """the specification with its calls written the way the canonical program writes them (keywords bound to positions where the callee is known)"""
    if not getattr(eng, "canonical", False):
        return spec
    try:
        tree = ast.parse(spec, mode="eval")
        tree = eng.canon._calls(f, tree)
        return ast.unparse(tree.body)
    except SyntaxError:
        return spec


def check(eng, R, rule, cname, fname, kind, spec, target=None, when=None, what="", index=None, not_none=True, rename=None, known=(), inline_helpers=True):
    """one formula obligation; a formula that cannot be read (vocabulary unknown, nothing to extract) is an analysis error of this obligation only - the other rules
    of the property still run (Run.guard)"""
    with R.guard("%s %s.%s" % (rule, cname or "", fname)):
        _check(eng, R, rule, cname, fname, kind, spec, target, when, what, index, not_none, rename, known, inline_helpers)


def _check(eng, R, rule, cname, fname, kind, spec, target=None, when=None, what="", index=None, not_none=True, rename=None, known=(), inline_helpers=True):
    p = eng.p
    f = get_func(p, cname, fname)
    # the path-sensitive kinds read the canonical form (inline_helpers=False: helper calls stay calls, the specification names them)
    node = eng.cnode(f, inline=inline_helpers) if kind in ("result", "store", "arg") else None
    forms = extract(f, kind, target, when, index, node=node)
    forms = [(c, x, lv) for c, x, lv in forms if not (not_none and x.canon() == "None")]
    construct = "%s.%s:%s%s" % (cname or "", fname, target or "return", (":" + (when if isinstance(when, str) else "&".join(when))) if when else "")
    if not forms:
        raise AnalysisError("formula rule %s: nothing to extract from %s (%s %s)" % (rule, f.qualname, kind, target))
    specs = [spec] if isinstance(spec, str) else list(spec)   # alternatives: e.g. with a helper call, or with the helper written out
    specs = [canonical_spec(eng, f, s_) for s_ in specs]
    sps = [(norm_spec(s_, rename), leaves(ast.parse(s_, mode="eval").body)) for s_ in specs]
    inlined = None
    for i, (ct, form, lv) in enumerate(forms):
        res, detail = "unknown", ""
        for sp, sp_leaves in sps:
            r_, d_ = compare(form, sp, lv, sp_leaves, known)
            if r_ == "equal" or res == "unknown":
                res, detail = r_, d_
            if r_ == "equal":
                break
        if res == "unknown":
            # the formula may have been moved into a helper of the same class: read through it once
            if inlined is None:
                inlined = [t for t in extract(f, kind, target, when, index, inline=True, node=node) if not (not_none and t[1].canon() == "None")]
            if len(inlined) == len(forms):
                ct, form, lv = inlined[i]
                for sp, sp_leaves in sps:
                    r_, d_ = compare(form, sp, lv, sp_leaves, known)
                    if r_ == "equal" or res == "unknown":
                        res, detail = r_, d_
                    if r_ == "equal":
                        break
        if res == "unknown":
            raise AnalysisError("formula rule %s at %s: %s (code: %s)" % (rule, f.qualname, detail, form.canon()[:200]))
        R.ob(rule, construct, res == "equal", (f.file, f.lineno),
             "%s%s: %s - %s" % (f.qualname, (" [" + ct + "]") if ct else "", what or "formula differs from the documented one", detail[:400]))


def lambda_of_add_function(p, cname, fname, func_name_suffix):
    """Lambda node passed to self._nexus.add_function(..., func_name=<...suffix...>) inside a method"""
    f = get_func(p, cname, fname)
    out = []
    for c in ast.walk(f.node):
        if isinstance(c, ast.Call) and isinstance(c.func, ast.Attribute) and c.func.attr == "add_function" and c.args and isinstance(c.args[0], ast.Lambda):
            nm = next((k.value for k in c.keywords if k.arg == "func_name"), c.args[1] if len(c.args) > 1 else None)   # add_function(func, func_name, par_names, ...)
            if nm is not None and func_name_suffix in ast.unparse(nm):
                out.append((c.args[0], f))
    return out


def check_lambda(eng, R, rule, cname, fname, suffix, spec, what):
    ls = lambda_of_add_function(eng.p, cname, fname, suffix)
    if not ls:
        raise AnalysisError("formula rule %s: lambda for node %s not found in %s.%s" % (rule, suffix, cname, fname))
    sp = norm_spec(spec)
    for lam, f in ls:
        params = [a.arg for a in lam.args.args]
        env = {pn: ast.Name(id="ARG%d" % i, ctx=ast.Load()) for i, pn in enumerate(params)}
        form = Normalizer(env).norm(lam.body)
        res, detail = compare(form, sp, leaves(lam.body, env), leaves(ast.parse(spec, mode="eval").body))
        if res == "unknown":
            raise AnalysisError("formula rule %s (%s): %s" % (rule, suffix, detail))
        R.ob(rule, "%s.%s:lambda %s" % (cname, fname, suffix), res == "equal", (f.file, lam.lineno), "%s: %s - %s" % (suffix, what, detail))


def check_branches(eng, R, rule, cname, fname, target, branch_specs, what="", known=()):
    """branch_specs: [(exact guard, spec)]. If the function still has these guards, every branch is compared with its own formula. If the branching was rewritten,
    every assignment to the target must at least be one of the documented formulas (which formula belongs to which state can then not be decided)."""
    f = get_func(eng.p, cname, fname)
    # path-sensitive reading first: temporaries chosen per branch and merged afterwards are the same thing as two assignments
    ws = [(w[1:] if w.startswith("=") else w, spec) for w, spec in branch_specs]
    node = eng.cnode(f)
    try:
        # only if the code really branches on the documented conditions (every selected path tests the literal itself)
        per_path = all(extract(f, "store", target, w, node=node) for w, _ in ws) and \
            all(all(lit in c.split(" and ") for lit in ([w] if isinstance(w, str) else w)) for w, _ in ws for c, _, _ in extract(f, "store", target, w, node=node))
    except AnalysisError:
        per_path = False
    if per_path:
        for w, spec in ws:
            check(eng, R, rule, cname, fname, "store", spec, target=target, when=w, what=what, known=known)
        return
    if all(extract(f, "assign", target, w) for w, _ in branch_specs):
        for w, spec in branch_specs:
            check(eng, R, rule, cname, fname, "assign", spec, target=target, when=w, what=what, known=known)
        return
    forms = [(c, x, lv) for c, x, lv in extract(f, "assign", target) if x.canon() != "None"]
    if not forms:
        raise AnalysisError("formula rule %s: nothing to extract from %s (assign %s)" % (rule, f.qualname, target))
    specs = [(norm_spec(sp), leaves(ast.parse(sp, mode="eval").body)) for _, sp in branch_specs]
    for i, (ct, form, lv) in enumerate(forms):
        res_all = [compare(form, sp, lv, spl, known) for sp, spl in specs]
        if any(r == "equal" for r, _ in res_all):
            ok = True
        elif all(r == "unknown" for r, _ in res_all):
            inl = [t for t in extract(f, "assign", target, inline=True) if t[1].canon() != "None"]
            if len(inl) == len(forms):
                form, lv = inl[i][1], inl[i][2]
                res_all = [compare(form, sp, lv, spl, known) for sp, spl in specs]
            if any(r == "equal" for r, _ in res_all):
                ok = True
            elif all(r == "unknown" for r, _ in res_all):
                raise AnalysisError("formula rule %s at %s: %s (code: %s)" % (rule, f.qualname, res_all[0][1], form.canon()[:200]))
            else:
                ok = False
        else:
            ok = False
        R.ob(rule, "%s.%s:%s:any branch@%d" % (cname, fname, target, i), ok, (f.file, f.lineno),
             "%s [%s]: %s - the assigned value `%s` is none of the documented forms %s" % (f.qualname, ct, what, form.canon()[:160], [sp.canon()[:80] for sp, _ in specs]))
