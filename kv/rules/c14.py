"""C14 - equivalent specifications give identical results: conversion pairs are mutual inverses, one reference transform per class,
scalar broadcast, wrapper keyword -> flag mapping, percent shorthand."""
import ast

from ..effects import is_self, self_attr
from ..engine import AnalysisError, norm_stmt
from ..termform import Normalizer, assigned_exprs, norm_spec, return_exprs
from . import common
from .formulas import check, get_func


def run(eng, R):
    p = eng.p
    R.rule("H-conv", "absolute <-> relative and covariance <-> correlation conversions have the documented form (canonical polynomial forms)", 14)
    R.rule("H-inv", "each conversion pair composes to the identity (x * r / r = x with rational arithmetic)", 5)
    R.rule("S-abs", "all relative <-> absolute conversions of simple errors use the same reference transform (magnitude); the covariance uses the signed product", 5)
    R.rule("S-bcast", "a scalar uncertainty is broadcast to the constant vector in every add_error implementation", 3)
    R.rule("S-wrap", "wrapper keywords *_error[_cor][_rel] are forwarded with exactly the axis / correlated / relative flags their names state", 12)
    R.rule("S-pct", "percent shorthand: 'p%' is the relative uncertainty p/100; absolute entries are taken as they are", 2)

    GS, GM = "GaussianSimpleParameterConstraint", "GaussianMatrixParameterConstraint"
    # the documented quantities of a matrix constraint: pairwise distinct, so one standing in for another is a different formula
    KM = ["self.values", "self.uncertainties", "self.uncertainties_rel", "self.cov_mat", "self.cov_mat_rel", "self.cor_mat", "self._cov_mat_abs", "self._cov_mat_rel", "self._cor_mat",
          "self._uncertainties_abs", "self._uncertainties_rel"]
    KS = ["self.reference", "self.error", "self.error_rel", "self._err", "self._err_rel", "()abs", "err_val"]
    check(eng, R, "H-conv", GS, "uncertainty", "assign", "self._uncertainty_rel * self.value", target="self._uncertainty_abs", what="absolute = relative x value")
    check(eng, R, "H-conv", GS, "uncertainty_rel", "assign", "self._uncertainty_abs / self.value", target="self._uncertainty_rel", what="relative = absolute / value")
    from .formulas import check_branches

    KMA = KM + ["()abs"]
    C, NC = "=(self.matrix_type == 'cov')", "=not (self.matrix_type == 'cov')"
    check_branches(eng, R, "H-conv", GM, "cov_mat", "self._cov_mat_abs", [(C, "self._cov_mat_rel * outer(self.values, self.values)"), (NC, "self._cor_mat * outer(self.uncertainties, self.uncertainties)")],
                   what="absolute covariance = relative covariance x outer(values, values) / correlation x outer(sigma, sigma)", known=KMA)
    check_branches(eng, R, "H-conv", GM, "cov_mat_rel", "self._cov_mat_rel", [(C, "self._cov_mat_abs / outer(self.values, self.values)"), (NC, "self._cor_mat * outer(self.uncertainties_rel, self.uncertainties_rel)")],
                   what="relative covariance = covariance / outer(values, values) / correlation x outer(relative sigma, relative sigma)", known=KMA)
    check_branches(eng, R, "H-conv", GM, "cor_mat", "self._cor_mat", [("=(self._relative)", "self.cov_mat_rel / outer(self.uncertainties_rel, self.uncertainties_rel)"), ("=not (self._relative)", "self.cov_mat / outer(self.uncertainties, self.uncertainties)")],
                   what="correlation = (relative) covariance / outer((relative) sigma)", known=KMA)
    check_branches(eng, R, "H-conv", GM, "uncertainties", "self._uncertainties_abs", [(C, "sqrt(diag(self.cov_mat))"), (NC, "self.uncertainties_rel * self.values")],
                   what="sigma = sqrt(diag(covariance)) / relative sigma x values (signed, as the relative covariance is divided by signed values)", known=KMA)
    check_branches(eng, R, "H-conv", GM, "uncertainties_rel", "self._uncertainties_rel", [(C, "sqrt(diag(self.cov_mat_rel))"), (NC, "self.uncertainties / self.values")],
                   what="relative sigma = sqrt(diag(relative covariance)) / sigma over values (signed)", known=KMA)
    MG = "MatrixGaussianError"
    check(eng, R, "H-conv", MG, "_calculate_cov_mat_from_cor_mat_and_error_array", "return", "CovMat(outer(error_array, error_array) * corr_mat)", what="covariance = outer(sigma, sigma) o correlation")
    check(eng, R, "H-conv", MG, "_calculate_cov_mat_rel_from_cov", "return", "CovMat(cov_mat / outer(reference, reference))", known=["cov_mat", "reference", "()abs"], what="relative covariance = covariance / outer(reference, reference)")
    check(eng, R, "H-conv", MG, "_calculate_cov_mat_from_cov_rel", "return", "CovMat(cov_mat_rel * outer(reference, reference))", known=["cov_mat_rel", "reference", "()abs"], what="covariance = relative covariance x outer(reference, reference)")

    # ---- inverse pairs (x * r) / r == x
    with R.guard("inverse pairs (x * r) / r == x"):
        pairs = [
            ("simple constraint abs/rel", "(U * V) / V", "U"),
            ("matrix constraint cov/rel", "(C * outer(V, V)) / outer(V, V)", "C"),
            ("matrix constraint cor/cov", "(K * outer(S, S)) / outer(S, S)", "K"),
            ("matrix error cov/rel", "(C / outer(R, R)) * outer(R, R)", "C"),
            ("simple error abs/rel", "(E / abs(R)) * abs(R)", "E"),
        ]
        for name, expr, want in pairs:
            got = norm_spec(expr).canon()
            R.ob("H-inv", name, got == want, ("kafe2/core", 0), "composition of the two conversions normalises to %s, expected %s" % (got, want))

    # ---- reference transform of simple errors
    with R.guard("reference transform of simple errors"):
        SG = "SimpleGaussianError"
        check(eng, R, "S-abs", SG, "error", "assign", "self._err_rel * abs(self.reference)", target="self._err", what="absolute error of a relative source = relative error x |reference|", known=KS)
        check(eng, R, "S-abs", SG, "error_rel", "assign", "self._err / abs(self.reference)", target="self._err_rel", what="relative error of an absolute source = error / |reference|", known=KS)
        check(eng, R, "S-abs", SG, "error.fset", "store", "array(err_val, dtype=float) / abs(self.reference)", target="self._err_rel", when="=(self.relative)", what="setting absolute values on a relative source divides by |reference|", not_none=True, known=KS)
        check(eng, R, "S-abs", SG, "error_rel.fset", "store", "array(err_val, dtype=float) * abs(self.reference)", target="self._err", when="=not (self.relative)", what="setting relative values on an absolute source multiplies by |reference|", known=KS)
        from .formulas import extract

        # the function that stores the correlated part of the absolute covariance (named `_calculate_cov_mat` on the reference tree; found by what it stores)
        sgc = p.find_class(SG.split(":")[-1]) if ":" in SG else p.find_class(SG)
        fcm = next((m for m in sgc.methods.values() if hasattr(m, "node") and any(isinstance(a, ast.Assign) and any(self_attr(t) == "_cov_mat_cor_part" for t in a.targets)
                                                                                   for a in ast.walk(eng.cnode(m)))), None)
        if fcm is None:
            fcm = get_func(p, SG, "_calculate_cov_mat")
        KC = KS + ["self._corr_coeff", "()diag", "()outer", "()zeros_like", "self.error_rel", "self.error", "self.reference"]
        got = sorted({x.canon() for _, x, _ in extract(fcm, "store", "self._cov_mat_cor_part", ["(self.relative)", "(self._corr_coeff > 0)"], node=eng.cnode(fcm))})
        if len(got) == 1 and sorted(got[0].split("*")) == sorted("self._corr_coeff*outer(self.error,self.error)".split("*")):
            R.ob("S-abs", "%s.%s:_abs_err:=(self.relative)" % (SG, fcm.name), False, (fcm.file, fcm.lineno),
                 "the covariance of a relative source is built from `self.error`, i.e. relative size x |reference| (rule S-abs on the error getter): the sign of the "
                 "reference is lost, so the correlated part differs from the explicit matrix form (sigma sigma^T) o rho for references of mixed sign")
        else:
            check(eng, R, "S-abs", SG, fcm.name, "store", "outer(self.error_rel * self.reference, self.error_rel * self.reference) * self._corr_coeff", target="self._cov_mat_cor_part",
                  when=["(self.relative)", "(self._corr_coeff > 0)"], known=KC,
                  what="the covariance of a relative source is built from relative size x signed reference values (the sign carries into the correlated part)")

    # ---- scalar broadcast
    with R.guard("scalar broadcast"):
        for cname, fname in (("DataContainerBase", "add_error"), ("XYContainer", "add_error"), ("MultiFit", "add_error")):
            f = get_func(p, cname, fname)
            ok = False
            for n in ast.walk(f.node):
                if isinstance(n, ast.If) and "err_val.ndim == 0" in " ".join(ast.unparse(n.test).split()):
                    body = common.src_of(ast.Module(body=n.body, type_ignores=[]))
                    ok = ok or ("err_val = np.ones(" in body and "* err_val" in body and ("self.size" in body or "data_size" in body))
            R.ob("S-bcast", "%s.%s" % (cname, fname), ok, (f.file, f.lineno), "%s.%s does not broadcast a scalar uncertainty to a constant vector of the data size" % (cname, fname))

    # ---- wrapper keywords
    with R.guard("wrapper keywords"):
        wm = p.module("kafe2.fit.util.wrapper")
        n_calls = 0
        for fn in ("hist_fit", "indexed_fit", "xy_fit"):
            f = wm.functions.get(fn)
            if f is None:
                raise AnalysisError("wrapper %s not found" % fn)
            for c in ast.walk(f.node):
                if isinstance(c, ast.Call) and isinstance(c.func, ast.Name) and c.func.id.startswith("_add_error_to_fit"):
                    args = list(c.args)
                    kws = {k.arg: k.value for k in c.keywords}
                    if fn == "xy_fit":
                        axis, err = (common.const_str(args[0]) if args else None), (args[1] if len(args) > 1 else None)
                    else:
                        axis, err = None, (args[1] if len(args) > 1 else None)
                    if not isinstance(err, ast.Name):
                        continue
                    n_calls += 1
                    nm = err.id
                    want_cor, want_rel = "_cor" in nm, nm.endswith("_rel")
                    # by keyword, or by position in the helper's own signature
                    callee = wm.functions.get(c.func.id)
                    callee_node = callee.node if callee is not None else next((d for d in ast.walk(f.node) if isinstance(d, ast.FunctionDef) and d.name == c.func.id), None)
                    params = [a.arg for a in callee_node.args.args] if callee_node is not None else []
                    for nm_ in ("correlated", "relative"):
                        if nm_ not in kws and nm_ in params and len(args) > params.index(nm_):
                            kws[nm_] = args[params.index(nm_)]
                    got_cor = isinstance(kws.get("correlated"), ast.Constant) and kws["correlated"].value is True
                    got_rel = isinstance(kws.get("relative"), ast.Constant) and kws["relative"].value is True
                    ok = want_cor == got_cor and want_rel == got_rel
                    if fn == "xy_fit":
                        ok = ok and axis == nm[0] and nm[1] == "_"
                    R.ob("S-wrap", "%s:%s" % (fn, nm), ok, (f.file, c.lineno), "%s forwards `%s` with axis=%s correlated=%s relative=%s" % (fn, nm, axis, got_cor, got_rel))
        xf = wm.functions["xy_fit"]
        xy_helper = next((d for d in ast.walk(xf.node) if isinstance(d, ast.FunctionDef) and d.name == "_add_error_to_fit"), None)
        if xy_helper is None:
            raise AnalysisError("xy_fit: nested helper _add_error_to_fit not found")
        for label, fn_, recv, off, where_ in (("_add_error_to_fit_generic", eng.cnode(wm.functions.get("_add_error_to_fit_generic")), "fit", 0, wm.functions.get("_add_error_to_fit_generic")),
                                               ("xy_fit._add_error_to_fit", xy_helper, "_fit", 1, xf)):
            calls = [c for c in ast.walk(fn_) if isinstance(c, ast.Call) and isinstance(c.func, ast.Attribute) and c.func.attr in ("add_error", "add_matrix_error")
                     and isinstance(c.func.value, ast.Name) and c.func.value.id == recv]

            def lits(c, fn_=fn_):
                from .formulas import canon_cond_text
                return canon_cond_text(common.guard_conditions(fn_, c, flat=True))

            def tx(e):
                return " ".join(ast.unparse(e).split()) if e is not None else None

            cor = [c for c in calls if c.func.attr == "add_error" and common.kwarg(c, "correlation") is not None]
            mat = [c for c in calls if c.func.attr == "add_matrix_error"]
            plain = [c for c in calls if c.func.attr == "add_error" and common.kwarg(c, "correlation") is None]
            ok = len(cor) == 1 and len(mat) == 1 and len(plain) == 1
            if ok:
                c1, c2, c3 = cor[0], mat[0], plain[0]
                loops = [n for n in ast.walk(fn_) if isinstance(n, ast.For) and any(x is c1 for x in ast.walk(n))]
                arr = tx(common.kwarg(c2, "err_matrix", off))
                ok = tx(common.kwarg(c1, "correlation")) == "1.0" and "(correlated)" in lits(c1) and len(loops) == 1 and isinstance(loops[0].target, ast.Name) \
                    and tx(common.kwarg(c1, "err_val", off)) == loops[0].target.id and tx(loops[0].iter) == arr \
                    and "not (correlated)" in lits(c2) and "(%s.ndim == 2)" % arr in lits(c2) and tx(common.kwarg(c2, "matrix_type", off + 1)) == "'cov'" \
                    and "not (correlated)" in lits(c3) and "not (%s.ndim == 2)" % arr in lits(c3) and tx(common.kwarg(c3, "err_val", off)) == arr \
                    and all(tx(common.kwarg(c, "relative")) == "relative" for c in (c1, c2, c3)) \
                    and len({tx(common.kwarg(c, "reference")) for c in (c1, c2, c3)}) == 1 and common.kwarg(c1, "reference") is not None \
                    and (off == 0 or all(tx(common.kwarg(c, "axis", 0)) == "axis" for c in (c1, c2, c3)))
            R.ob("S-wrap", label, ok, (where_.file, where_.lineno),
                 "the helper must forward correlated errors as fully correlated simple errors, 2-d arrays as covariance matrices, else simple errors - each with the relative flag, the reference "
                 "(and the axis for xy fits)")

    # ---- wrapper configuration order: values given with `fixed` survive (the bulk start-value setter writes every parameter, fixed ones included)
    with R.guard("wrapper configuration order: values given with `fixed` survi"):
        R.rule("S-order", "the generic wrapper sets the start values before it fixes parameters (fix_parameter(name, value) sets the value; a later set_all_parameter_values overwrites it), "
                          "and runs the fit only after all configuration calls", 2)
        fw = wm.functions.get("_fit_wrapper_generic")
        if fw is None:
            raise AnalysisError("wrapper _fit_wrapper_generic not found")
        g = eng.cfg(fw)

        def calls(n, names):
            for part in n.ast_parts():
                for c in ast.walk(part):
                    if isinstance(c, ast.Call) and isinstance(c.func, ast.Attribute) and c.func.attr in names and isinstance(c.func.value, ast.Name) and c.func.value.id == "fit":
                        return True
            return False

        fixes = [n for n in g.nodes if calls(n, {"fix_parameter"})]
        bulk = [n for n in g.nodes if calls(n, {"set_all_parameter_values", "set_parameter_values"})]
        fits = [n for n in g.nodes if calls(n, {"do_fit"})]
        if not fixes or not bulk or not fits:
            raise AnalysisError("_fit_wrapper_generic: fix / start value / do_fit calls not found")
        bad = [1 for a in fixes for b in bulk if g.find_path(a.id, lambda m, b=b: m.id == b.id, exceptional=False)]
        R.ob("S-order", "_fit_wrapper_generic:start values before fixing", not bad, (fw.file, fw.lineno),
             "the start values are written after parameters were fixed: a value given with `fixed=(name, value)` is overwritten by p0 and the wrapper fits a different problem than the explicit calls")
        cfgcalls = [n for n in g.nodes if calls(n, {"fix_parameter", "limit_parameter", "add_parameter_constraint", "set_all_parameter_values"}) or any(
            isinstance(st, ast.Assign) and any(isinstance(t, ast.Attribute) and t.attr == "parameter_errors" for t in st.targets) for st in [n.stmt] if st is not None)]
        bad = [1 for a in fits for b in cfgcalls if g.find_path(a.id, lambda m, b=b: m.id == b.id, exceptional=False)]
        R.ob("S-order", "_fit_wrapper_generic:fit last", not bad and len(cfgcalls) >= 4, (fw.file, fw.lineno), "a configuration call can follow do_fit: the returned results belong to a different configuration")

    # ---- every constraint given to a wrapper reaches the fit: the loop runs over the sequence of specifications itself, not over a mapping keyed by parameter name
    with R.guard("every constraint given to a wrapper reaches the fit: the loo"):
        def iter_source(loop):
            """'sequence' if the loop runs over the wrapper argument (possibly wrapped into a tuple), 'mapping' if it runs over the items of a mapping, else None"""
            return kind_of(loop.iter)

        def kind_of(it):
            if isinstance(it, ast.IfExp):   # (`specs if isinstance(specs[0], (list, tuple)) else (specs,)`: a single specification wrapped into a tuple)
                kinds = {kind_of(it.body), kind_of(it.orelse)}
                return kinds.pop() if len(kinds) == 1 else None
            if isinstance(it, (ast.Tuple, ast.List)) and it.elts and all(isinstance(e, ast.Name) and e.id in ("constraints", "limits", "fixed") for e in it.elts):
                return "sequence"
            if isinstance(it, ast.Call) and isinstance(it.func, ast.Attribute) and it.func.attr in ("items", "keys", "values"):
                return "mapping"
            if isinstance(it, ast.Name) and it.id in ("constraints", "limits", "fixed"):
                return "sequence"
            if isinstance(it, ast.Call) and isinstance(it.func, ast.Name) and it.func.id in wm.functions:
                h = wm.functions[it.func.id]
                rets = [r.value for r in ast.walk(h.node) if isinstance(r, ast.Return) and r.value is not None]
                if any(isinstance(r, (ast.Dict, ast.DictComp)) or (isinstance(r, ast.Call) and isinstance(r.func, ast.Name) and r.func.id in ("dict", "OrderedDict")) for r in rets):
                    return "mapping"
                if rets and all(isinstance(r, (ast.Tuple, ast.List, ast.Name, ast.ListComp)) for r in rets):
                    return "sequence"
            return None

        for callee, arg in (("add_parameter_constraint", "constraints"),):
            loops = [l for l in ast.walk(fw.node) if isinstance(l, ast.For) and any(
                isinstance(c, ast.Call) and isinstance(c.func, ast.Attribute) and c.func.attr == callee for st in l.body for c in ast.walk(st))]
            if len(loops) != 1:
                raise AnalysisError("_fit_wrapper_generic: loop forwarding %s not found" % arg)
            src_kind = iter_source(loops[0])
            if src_kind is None:
                raise AnalysisError("_fit_wrapper_generic: what the %s loop iterates over is not understood (%s)" % (arg, ast.unparse(loops[0].iter)))
            R.ob("S-order", "_fit_wrapper_generic:every constraint forwarded", src_kind == "sequence", (fw.file, loops[0].lineno),
                 "the wrapper runs over a mapping keyed by parameter name: of several constraints on the same parameter only the last reaches the fit, while explicit calls of "
                 "add_parameter_constraint stack them (cost, ndf and results differ)")

    # ---- percent shorthand
    with R.guard("percent shorthand"):
        pe = p.resolve_name(p.module("kafe2.fit.representation.error.common_error_tools"), "process_error_sources")
        pen = eng.cnode(pe)
        src = eng.csrc(pe)
        # the two arrays: `_rel[_i] = <float(_val[:-1])>` under the '%' test, `_abs[_i] = _val` otherwise (placeholders: whatever the locals are called)
        fill_ok = src.all_like("for _i, _val in enumerate(_err):", "if isinstance(_val, str) and _val.endswith('%'):", "_abs[_i] = _val") \
            and (src.like("_rel[_i] = float(_val[:-1])") or src.all_like("_pct = float(_val[:-1])", "_rel[_i] = _pct"))
        rel_name, abs_name = src._binding.get("_rel"), src._binding.get("_abs")
        from .formulas import canon_cond_text
        cover = {("rel", True): False, ("rel", False): False, ("abs", True): False, ("abs", False): False}   # (kind, axis is None)
        forms_ok = True
        for c in ast.walk(pen):
            if isinstance(c, ast.Call) and isinstance(c.func, ast.Name) and c.func.id == "add_error_to_container" and c.args and common.const_str(c.args[0]) == "simple":
                kws = {k.arg: k.value for k in c.keywords}
                rel = kws.get("relative")
                if not isinstance(rel, ast.Constant) or "err_val" not in kws:
                    continue
                form = Normalizer({}).norm(kws["err_val"]).canon()
                kind = "rel" if rel.value is True else "abs"
                forms_ok = forms_ok and (form == norm_spec("%s / 100" % rel_name).canon() if kind == "rel" else form == abs_name)
                lits = canon_cond_text(common.guard_conditions(pen, c))
                axis_kw = "axis" in kws
                star = [k.value for k in c.keywords if k.arg is None]
                if "(_axis is None)" in lits and not axis_kw:
                    cover[(kind, True)] = True
                elif "not (_axis is None)" in lits and common.src_of(kws.get("axis")) == "_axis" if axis_kw else False:
                    cover[(kind, False)] = True
                elif len(star) == 1 and isinstance(star[0], ast.IfExp):
                    # one call for both variants: **(dict() if _axis is None else dict(axis=_axis))
                    t = " ".join(ast.unparse(star[0]).split())
                    if t in ("dict() if _axis is None else dict(axis=_axis)", "{} if _axis is None else {'axis': _axis}", "{} if _axis is None else dict(axis=_axis)"):
                        cover[(kind, True)] = cover[(kind, False)] = True
        R.ob("S-pct", "percent -> relative", fill_ok and forms_ok and cover[("rel", True)] and cover[("rel", False)], (pe.file, pe.lineno),
             "a percent string must become the relative uncertainty percent/100 (on every axis variant)")
        R.ob("S-pct", "plain -> absolute", fill_ok and forms_ok and cover[("abs", True)] and cover[("abs", False)], (pe.file, pe.lineno), "plain numbers in a shorthand list must become absolute uncertainties (on every axis variant)")
