"""R-F1 argument-slot rule: at a resolved call site a positional actual that is a parameter `a` of the caller bound to formal q != a,
while the callee has another formal named `a` that is left to its default, is passed in the wrong slot."""
import ast

from . import cache


def _strip(n):
    return n.lstrip("_")


def check_arg_slots(eng, R, rule, funcs_with_ctx):
    n_sites = 0
    for ctx, f in funcs_with_ctx:
        summ = eng.eff.summary(ctx, f)
        seen = set()
        for cs in summ.calls:
            call = cs.node
            if not isinstance(call, ast.Call) or id(call) in seen:
                continue
            seen.add(id(call))
            if any(isinstance(a, ast.Starred) for a in call.args) or not cs.targets:
                continue
            for c2, callee in cs.targets:
                params = callee.params()
                if callee.kind not in ("static", "function") and params and params[0] in ("self", "cls"):
                    # bound call: self is implicit unless called as K.m(self, ...)
                    explicit_self = isinstance(call.func, ast.Attribute) and call.args and isinstance(call.args[0], ast.Name) and call.args[0].id == "self" \
                        and not (isinstance(call.func.value, ast.Name) and call.func.value.id == "self")
                    if not explicit_self or cs.is_ctor:
                        params = params[1:]
                if cs.is_ctor and params and params[0] == "self":
                    params = params[1:]
                n_sites += 1
                kw = {k.arg for k in call.keywords if k.arg}
                bound = {}
                for i, a in enumerate(call.args):
                    if i < len(params):
                        bound[params[i]] = a
                supplied = set(bound) | kw
                caller_params = set(f.all_params())
                for q, a in bound.items():
                    # pass-through idiom only: the actual is a parameter of the caller carrying the same name as another formal of the callee
                    if isinstance(a, ast.Name) and a.id in caller_params and _strip(a.id) != _strip(q):
                        for other in params:
                            if _strip(other) == _strip(a.id) and other not in supplied:
                                R.ob(rule, "%s:%s(%s->%s)" % (f.qualname, callee.qualname, a.id, q), False, (f.file, call.lineno),
                                     "%s calls %s with `%s` in the positional slot of parameter `%s` while the callee's own parameter `%s` is left at its default: "
                                     "the argument reaches the wrong parameter" % (f.qualname, callee.qualname, a.id, q, other))
                                break
                        else:
                            continue
                        break
                else:
                    R.ob(rule, "%s:%s@%s" % (f.qualname, callee.qualname, " ".join(ast.unparse(call).split())[:60]), True, (f.file, call.lineno), "", nontrivial=bool(bound))
    return n_sites
