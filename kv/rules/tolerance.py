"""T-tol: census of tolerance comparisons (np.allclose / np.isclose / math.isclose / array_equiv) in *decision positions* of a property's anchor modules.

A tolerance in a decision (which cost function is minimised, whether a matrix counts as symmetric, whether a bin is integrated, whether a vector is
written as one number) treats inputs within atol = 1e-8 as equal - an absolute scale. For data in small units that changes the result silently. Every
such site must be in the reviewed table below (one line of reason each); an unreviewed one is reported with file, function and call."""
import ast
import json
import os

from ..effects import walk_no_nested
from ..engine import AnalysisError

TOL = {"allclose", "isclose", "array_equiv", "assert_allclose", "approx"}
REVIEWED = {
    ("kafe2/core/error.py", "MatrixGaussianError._calculate_cov_mat_from_cor_mat_and_error_array", "allclose"):
        "validates a unit diagonal of a user-supplied correlation matrix: the tolerance only widens what is accepted, the matrix itself is used unchanged",
    ("kafe2/fit/representation/error/common_error_tools.py", "MatrixYamlDumper.matrix", "allclose"):
        "result only feeds a dead branch (`_is_symmetric and False`): the full matrix is always written",
}


def _anchor_files(prop):
    path = os.path.join(os.path.dirname(os.path.dirname(os.path.dirname(os.path.abspath(__file__)))), "properties.jsonl")
    for line in open(path, encoding="utf8"):
        d = json.loads(line)
        if d["id"] == prop:
            return [f for f in d["anchors"]["files"] if f.endswith(".py")]
    raise AnalysisError("property %s not found in properties.jsonl" % prop)


def _call_name(c):
    f = c.func
    return f.attr if isinstance(f, ast.Attribute) else (f.id if isinstance(f, ast.Name) else None)


def _decision_calls(fn):
    """tolerance calls of one function that sit in a decision position"""
    out = []
    tests = []
    for n in walk_no_nested(fn):
        if isinstance(n, (ast.If, ast.While, ast.IfExp, ast.Assert)):
            tests.append(n.test)
        elif isinstance(n, ast.comprehension):
            tests.extend(n.ifs)
    test_names = {x.id for t in tests for x in ast.walk(t) if isinstance(x, ast.Name)}
    in_test = {id(x) for t in tests for x in ast.walk(t)}
    predicate = fn.name.lstrip("_").startswith(("is_", "has_", "check_", "validate"))
    for n in walk_no_nested(fn):
        if isinstance(n, ast.Call) and _call_name(n) in TOL:
            where = None
            if id(n) in in_test:
                where = "test"
            else:
                for st in walk_no_nested(fn):
                    if isinstance(st, ast.Return) and st.value is not None and any(x is n for x in ast.walk(st.value)) and predicate:
                        where = "predicate result"
                    if isinstance(st, ast.Assign) and any(x is n for x in ast.walk(st.value)):
                        tg = [t.id for t in st.targets if isinstance(t, ast.Name)]
                        if any(t in test_names for t in tg):
                            where = "flag tested later"
                    if isinstance(st, ast.Return) and st.value is not None and any(x is n for x in ast.walk(st.value)) and isinstance(st.value, (ast.Call, ast.UnaryOp, ast.BoolOp, ast.Compare)) \
                            and (st.value is n or isinstance(st.value, (ast.UnaryOp, ast.BoolOp))):
                        where = where or "returned truth value"
            if where:
                out.append((n, where))
    return out


def census(eng, R, prop):
    files = _anchor_files(prop)
    R.rule("T-tol", "no unreviewed tolerance comparison (allclose / isclose / array_equiv) decides anything in the property's anchor modules (inputs within 1e-8 would be "
                    "treated as equal on an absolute scale)", 1)
    p = eng.p
    by_file = {m.relpath: m for m in p.modules.values()}
    n_mod = 0
    for rel in files:
        m = by_file.get(rel)
        if m is None:
            continue
        n_mod += 1
        bad = []
        for f in p.all_functions():
            if f.module is not m:
                continue
            # (a census of the sites as written: read from the source tree, not from the canonical one where helpers are written out at their call sites)
            for call, where in _decision_calls(eng._source_func(f).node):
                key = (rel, f.qualname, _call_name(call))
                if key in REVIEWED:
                    R.note("reviewed tolerance %s in %s: %s" % (key[2], f.qualname, REVIEWED[key]))
                    continue
                bad.append((call.lineno, "%s in %s (%s): %s" % (_call_name(call), f.qualname, where, " ".join(ast.unparse(call).split())[:80])))
        R.ob("T-tol", "%s" % rel, not bad, (rel, bad[0][0] if bad else 0),
             "tolerance comparison decides a result: %s - values that differ by less than 1e-8 (absolute) are treated as equal, which is wrong for data in small units" % "; ".join(b for _, b in bad))
    if n_mod == 0:
        raise AnalysisError("T-tol: none of the anchor modules of %s was found" % prop)
