"""R-A validate-then-commit: no rejection point is reachable after a state write (unless the write is rolled back).

Rejection points of a function F analysed for class context C:
  (a) explicit `raise` statements of F whose exception leaves F (NotImplementedError / RuntimeError state-precondition
      failures are not "invalid specification" rejections and are not counted);
  (b) calls on the same object (self.m(), super().m(), K.m(self)) to functions that may reject, followed through
      same-object calls up to depth 2;
  (c) calls on other objects only when the callee is in the validator table (confirmed by reading).
State writes: transitive write effects of a CFG node, not counting effects inside property getters (read-only by
convention, enforced by C03) and not counting cache / scratch fields listed by the caller.
Rollback idiom: the rejection is caught in F by a handler that re-writes the fields written before and re-raises.
"""
import ast

from ..cfg import raised_name
from ..effects import is_self, walk_no_nested
from ..engine import norm_stmt, path_text
from . import cache, common

NOT_REJECTIONS = {"NotImplementedError", "RuntimeError", "AssertionError", "StopIteration"}

# callee qualnames (cross-object) that reject invalid arguments by contract
VALIDATOR_TABLE = {
    "NexusFitter.set_all_fit_parameter_values": "rejects a value list of the wrong length",
    "NexusFitter.set_fit_parameter_values": "rejects unknown parameter names",
    "NexusFitter._get_pars_from_nexus": "rejects names that are not nodes",
    "NodeCycleChecker.run": "rejects cyclic graphs",
    "XYContainer._find_axis_raise": "rejects unknown axis specifications",
    "DataContainerBase._get_error_by_name_raise": "rejects unknown source names",
    "DataContainerBase._add_error_object": "rejects sources of the wrong size / duplicate names",
    "SimpleGaussianError.__init__": "rejects negative errors, correlation outside [0,1], wrong dimension",
    "MatrixGaussianError.__init__": "rejects wrong dimension, non-unit diagonal, unknown matrix type",
    "GaussianSimpleParameterConstraint.__init__": "constructor validation",
    "GaussianMatrixParameterConstraint.__init__": "rejects non-symmetric / wrongly shaped matrices",
    "Nexus.add": "rejects duplicate names / cycles",
    "Nexus.add_dependency": "rejects unknown nodes / cycles",
}


class RA:
    def __init__(self, eng, nonstate=()):
        self.eng = eng
        self._may_reject = {}
        self.nonstate = tuple(nonstate)

    def state_writes(self, ctx, func, node):
        ws = self.eng.eff.node_effects(ctx, func, node.ast_parts(), "wx")
        return {w for w in ws if not any(w == ns or w.endswith("." + ns) or ("." + ns + ".") in ("." + w + ".") for ns in self.nonstate)}

    def escaping_raises(self, func):
        g = self.eng.cfg(func)
        out = []
        for n in g.nodes:
            for tgt, name in g.exc_succ[n.id]:
                if tgt == g.raise_exit.id and name not in NOT_REJECTIONS:
                    out.append((n, name))
        return out

    def may_reject_same_object(self, ctx, func, depth=2, _stack=()):
        """witness string if a call to func can end in an explicit raise of func or of a same-object callee (depth-bounded)"""
        key = (id(ctx), id(func), depth)
        if key in self._may_reject:
            return self._may_reject[key]
        if (id(ctx), id(func)) in _stack:
            return None
        g = self.eng.cfg(func)
        reach = g.reachable_from([g.entry.id], exceptional=False)
        res = None
        for n, name in self.escaping_raises(func):
            if n.id in reach:
                res = "%s raises %s (%s:%s)" % (func.qualname, name, func.file, n.lineno)
                break
        if res is None and depth > 0:
            for cs in self.eng.eff.summary(ctx, func).calls:
                if cs.prefix != "":
                    continue
                try:
                    cn = common.cfg_node_of(g, cs.node)
                except Exception:
                    continue
                if cn.id not in reach:
                    continue
                for c2, f2 in cs.targets:
                    w = self.may_reject_same_object(c2, f2, depth - 1, _stack + ((id(ctx), id(func)),))
                    if w:
                        exc = w.rsplit(" raises ", 1)[1].split(" ")[0]
                        if g.exception_target(cn, exc) == g.raise_exit.id:
                            res = "%s -> %s" % (func.qualname, w)
                            break
                if res:
                    break
        self._may_reject[key] = res
        return res

    def rejection_nodes(self, ctx, func):
        """{cfg node id: (description, exception name)}"""
        g = self.eng.cfg(func)
        rej = {}
        for n, name in self.escaping_raises(func):
            rej[n.id] = ("raise %s" % name, name)
        # raises caught by a handler of this function are rejection points too if the handler re-raises (rollback idiom is judged later)
        for n in g.nodes:
            for tgt, name in g.exc_succ[n.id]:
                if tgt != g.raise_exit.id and name not in NOT_REJECTIONS and n.id not in rej:
                    rej[n.id] = ("raise %s (caught in function)" % name, name)
        summ = self.eng.eff.summary(ctx, func)
        for cs in summ.calls:
            try:
                cn = common.cfg_node_of(g, cs.node)
            except Exception:
                continue
            if cn.id in rej:
                continue
            for c2, f2 in cs.targets:
                if f2 is func:
                    continue
                w = None
                if f2.qualname in VALIDATOR_TABLE or (f2.cls is not None and any("%s.%s" % (k.name, f2.name) in VALIDATOR_TABLE for k in f2.cls.mro)):
                    w = "%s (validator: %s)" % (f2.qualname, VALIDATOR_TABLE.get(f2.qualname, "by contract"))
                    exc = "ValueError"
                elif cs.prefix == "":
                    w = self.may_reject_same_object(c2, f2)
                    exc = w.rsplit(" raises ", 1)[1].split(" ")[0] if w else None
                if w:
                    rej[cn.id] = ("call %s: %s" % (cs.desc, w), exc)
                    break
        return rej

    def candidates(self, ctx, func):
        """[(write node, reject node, path, reject description, written fields)]"""
        g = self.eng.cfg(func)
        rej = self.rejection_nodes(ctx, func)
        if not rej:
            return []
        out = []
        for n in g.stmt_nodes():
            ws = self.state_writes(ctx, func, n)
            if not ws:
                continue
            if n.in_handler and isinstance(n.in_handler[-1].body[-1], ast.Raise) and n.in_handler[-1].body[-1].exc is None:
                continue  # writes of a handler that ends in a bare re-raise are the rollback itself
            for rid, (desc, exc) in sorted(rej.items()):
                if rid == n.id:
                    # same node writes and rejects: judged inside the callee, unless it sits in a loop (second iteration)
                    path = g.find_path(n.id, lambda m: m.id == n.id, exceptional=False)
                    if path is None:
                        continue
                    if not desc.startswith("call"):
                        continue
                else:
                    path = g.find_path(n.id, lambda m, rid=rid: m.id == rid, exceptional=False)
                    if path is None:
                        continue
                if self._rolled_back(ctx, func, g, n, g.nodes[rid], exc, ws):
                    continue
                if n.in_handler and exc == "?reraise" and g.nodes[rid].in_handler and g.nodes[rid].in_handler[-1] is n.in_handler[-1]:
                    continue  # writes of a handler that re-raises are the rollback itself
                out.append((n, g.nodes[rid], path, desc, sorted(ws)))
                break
        return out

    def _rolled_back(self, ctx, func, g, wnode, rnode, exc, ws):
        tgt = g.exception_target(rnode, exc or "?")
        if tgt == g.raise_exit.id:
            return False
        top = {w.split(".")[0] for w in ws}

        def restores_direct(m):
            w2 = self.state_writes(ctx, func, m)
            return top <= {w.split(".")[0] for w in w2}

        direct = {m.id for m in g.stmt_nodes() if restores_direct(m)}

        def restores(m):
            if m.id in direct:
                return True
            # all-elements idiom: `for x in saved: undo(x)` (zero iterations = nothing had been done)
            if m.kind == "for" and any(k.id in direct and _inside(m.stmt, k.stmt) for k in g.nodes if k.stmt is not None):
                return True
            # `if saved_old is not None: restore` - the other branch is the first assignment during construction (nothing to restore)
            if m.kind == "test" and isinstance(m.stmt, ast.If) and isinstance(m.expr, ast.Compare) and len(m.expr.ops) == 1 and isinstance(m.expr.ops[0], ast.IsNot) \
                    and isinstance(m.expr.comparators[0], ast.Constant) and m.expr.comparators[0].value is None and isinstance(m.expr.left, ast.Name):
                body_nodes = [k for k in g.nodes if k.stmt is not None and any(_inside(b, k.stmt) for b in m.stmt.body)]
                if any(k.id in direct for k in body_nodes):
                    return True
            return False

        # every path from the handler entry to any exit (normal or exceptional) passes a restoring node
        path = g.find_path(tgt, lambda m: m.id in (g.exit.id, g.raise_exit.id), exceptional=True, avoid=restores, strict=False)
        return path is None


def _inside(outer, inner):
    for n in ast.walk(outer):
        if n is inner:
            return True
    return False
