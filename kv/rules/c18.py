"""C18 - a plot draws the fit's numbers: role wiring of the plot adapters (axis / kind / side agreements read off the property names), what the draw
calls receive, canonical forms of the panel formulas, and the info box (refresh-before-print, live cost numbers). No matplotlib artist is inspected."""
import ast

from ..effects import is_self, self_attr, walk_no_nested
from ..engine import AnalysisError
from ..termform import Normalizer, norm_spec, return_exprs, straight_line_env
from . import common, fresh
from .formulas import check, extract, get_func

ADAPTERS = ["XYPlotAdapter", "HistPlotAdapter", "IndexedPlotAdapter", "UnbinnedPlotAdapter"]
ROLES = ["data_x", "data_y", "data_xerr", "data_yerr", "model_x", "model_y", "model_xerr", "model_yerr"]


def _txt(n):
    return common.src_of(n)


def _fit_attrs(expr):
    """attribute names read from self._fit (first attribute after _fit) and other self.<role> reads"""
    fit, own = [], []
    for a in ast.walk(expr):
        if isinstance(a, ast.Attribute):
            chain = []
            b = a
            while isinstance(b, ast.Attribute):
                chain.append(b.attr)
                b = b.value
            chain = chain[::-1]
            if isinstance(b, ast.Name) and b.id == "self" and chain:
                if chain[0] == "_fit" and len(chain) >= 2:
                    fit.append(".".join(chain[1:]))
                elif chain[0] != "_fit" and len(chain) == 1:
                    own.append(chain[0])
    # keep maximal chains only
    fit = [x for x in fit if not any(y != x and y.startswith(x + ".") for y in fit)]
    return fit, own


def _call_args(call):
    pos = [_txt(a) for a in call.args]
    kw = {k.arg: _txt(k.value) for k in call.keywords if k.arg}
    return pos, kw


def _draw_calls(f, method):
    return [c for c in walk_no_nested(f.node) if isinstance(c, ast.Call) and isinstance(c.func, ast.Attribute) and c.func.attr == method and isinstance(c.func.value, ast.Name) and c.func.value.id == "target_axes"]


def _closed_kw(f, callee, kwname, pos=None):
    """normal forms of the argument `kwname` (or positional slot `pos`) of every call of <x>.callee(...) / callee(...) in f: path-sensitive, temporaries written out"""
    from ..termform import path_exprs, subst

    def pick(st):
        own = [st] if not hasattr(st, "body") else [x for x in (getattr(st, "test", None), getattr(st, "iter", None)) if x is not None]
        out = []
        for o in own:
            for c in ast.walk(o):
                if isinstance(c, ast.Call) and (c.func.attr if isinstance(c.func, ast.Attribute) else getattr(c.func, "id", None)) == callee:
                    v = common.kwarg(c, kwname, pos)
                    if v is not None:
                        out.append(v)
        return out

    return [Normalizer({}).norm(subst(e, env)).canon() for conds, e, env in path_exprs(f.node, pick)]


def run(eng, R):
    p = eng.p
    R.rule("A-role", "adapter properties read what their names say: *_x* never reads a y attribute of the fit and vice versa (axis), *err properties read uncertainties / half widths and "
                     "value properties never do (kind), data_* reads data and model_y reads the model (side)", 20)
    R.rule("A-draw", "draw calls receive the adapter's own role properties in the documented slots (markers at data_x / data_y, horizontal bars = data_xerr, vertical bars = total "
                     "uncertainty combined in quadrature with the Poisson term)", 8)
    R.rule("H-panel", "panel formulas in canonical form: ratio = data / model (bars / model), residual = data - model, pull = (data - model) / total uncertainty; model line = model "
                      "function over the support points; band = line -/+ error band (ratio: 1 -/+ band / line; residual: -/+ band)", 10)
    R.rule("F-info", "the info box refreshes the fit's formatters before printing them (same iteration) and prints cost / ndf / goodness of fit / probability read from the same fit", 8)

    # ------------------------------------------------------------------ A-role
    with R.guard("Arole"):
        for an in ADAPTERS:
            cls = p.find_class(an)
            for role in ROLES:
                pr = cls.find_prop(role)
                if pr is None or pr.fget is None:
                    raise AnalysisError("%s.%s not found" % (an, role))
                f = pr.fget
                if f.cls.name == "PlotAdapterBase":
                    continue  # abstract
                rets = [r.value for r in ast.walk(f.node) if isinstance(r, ast.Return) and r.value is not None]
                raises = [r for r in ast.walk(f.node) if isinstance(r, ast.Raise)]
                if not rets and raises:
                    R.ob("A-role", "%s.%s" % (an, role), True, (f.file, f.lineno), "not available for this fit type (raises)")
                    continue
                axis = "x" if "_x" in role else "y"
                other = "y" if axis == "x" else "x"
                is_err = role.endswith("err")
                side = role.split("_")[0]
                problems = []
                for rv in rets:
                    fit, own = _fit_attrs(rv)
                    for a in fit:
                        head = a.split(".")[0]
                        last = a.split(".")[-1]
                        toks = set(head.split("_")) | set(last.split("_"))
                        if other in toks and axis not in toks:
                            problems.append("reads the %s attribute %s" % (other, a))
                        errish = bool({"error", "err", "errors", "widths"} & toks) or last in ("err",)
                        if is_err and not errish:
                            problems.append("an uncertainty property reads the value attribute %s" % a)
                        if not is_err and errish:
                            problems.append("a value property reads the uncertainty attribute %s" % a)
                        if role in ("data_y", "model_y") and axis == "y":
                            want = "data" if side == "data" else "model"
                            opp = "model" if side == "data" else "data"
                            if opp in toks and want not in toks:
                                problems.append("%s reads %s" % (role, a))
                    for o in own:
                        if o in ROLES:
                            oax = "x" if "_x" in o else "y"
                            if oax != axis:
                                problems.append("reads the other axis' property %s" % o)
                            if o.endswith("err") != is_err:
                                problems.append("mixes value and uncertainty property %s" % o)
                R.ob("A-role", "%s.%s" % (an, role), not problems, (f.file, f.lineno), "%s.%s: %s (returns %s)" % (an, role, "; ".join(problems), [_txt(r) for r in rets]))
        # histogram: bars span the bin
        check(eng, R, "A-role", "HistPlotAdapter", "data_xerr", "return", "self._fit.data_container.bin_widths / 2", known=["self._fit.data_container.bin_edges", "self._fit.data_container.bin_centers"], what="the horizontal bar of a histogram point is half the bin width on each side")
        check(eng, R, "A-role", "HistPlotAdapter", "data_x", "return", "self._fit.data_container.bin_centers", known=["self._fit.data_container.bin_edges", "self._fit.data_container.bin_widths", "self._fit.data_container.low", "self._fit.data_container.high"], what="histogram markers sit at the bin centres")
        # total uncertainties for the bars
        for an, role, want in (("XYPlotAdapter", "data_xerr", "self._fit.x_total_error"), ("XYPlotAdapter", "data_yerr", "self._fit.y_total_error"),
                               ("HistPlotAdapter", "data_yerr", "self._fit.total_error"), ("IndexedPlotAdapter", "data_yerr", "self._fit.total_error")):
            check(eng, R, "A-role", an, role, "return", want, known=["self._fit.x_data_error", "self._fit.y_data_error", "self._fit.data_error", "self._fit.x_model_error", "self._fit.y_model_error",
                                                                      "self._fit.model_error", "self._fit.x_total_error", "self._fit.y_total_error", "self._fit.total_error", "self._fit.x_data", "self._fit.y_data"],
                  what="error bars show the *total* pointwise uncertainty of that axis")

    # ------------------------------------------------------------------ A-draw
    with R.guard("Adraw"):
        base = "PlotAdapterBase"
        f = get_func(p, base, "_get_total_error")
        src = _txt(f.node)
        # placeholders: `_t` the accumulator, `_k` the contribution
        ok = src.all_like("_t = np.zeros_like(self.data_y)", "_t += getattr(self, _k + '_yerr') ** 2", "_t += self._fit._cost_function.get_uncertainty_gaussian_approximation(getattr(self, _k + '_y')) ** 2") \
            and (src.like("_t = np.sqrt(_t)") or src.like("np.sqrt(_t)"))
        g = eng.cfg(f)
        R.ob("A-draw", "PlotAdapterBase._get_total_error", ok, (f.file, f.lineno),
             "the plotted uncertainty must be sqrt(sum over contributions of yerr^2 + Poisson term(y)^2), each contribution with its own y values")
        f = get_func(p, "XYPlotAdapter", "plot_data")
        calls = _draw_calls(f, "errorbar")
        ok = len(calls) == 1
        if ok:
            pos, kw = _call_args(calls[0])
            ok = pos == ["self.data_x", "self.data_y"] and kw.get("xerr") == "self.data_xerr" and _closed_kw(f, "errorbar", "yerr") == [norm_spec("self._get_total_error(error_contributions)").canon()]
        R.ob("A-draw", "XYPlotAdapter.plot_data", ok, (f.file, f.lineno), "data markers at (data_x, data_y) with xerr=data_xerr and yerr=total uncertainty")
        for an in ("HistPlotAdapter", "IndexedPlotAdapter"):
            f = get_func(p, an, "plot_data")
            calls = _draw_calls(f, "errorbar")
            env = straight_line_env(f.node) if False else None
            good = []
            for c in calls:
                pos, kw = _call_args(c)
                conds = common.guard_conditions(f.node, c)
                full = "xerr" in kw
                if pos != ["self.data_x", "self.data_y"]:
                    good.append(False)
                    continue
                if full:
                    good.append(kw.get("xerr") == "self.data_xerr" and "yerr" in kw)
                else:
                    good.append("yerr" in kw)
            forms = _closed_kw(f, "errorbar", "yerr")
            gauss = "(self._fit._cost_function).get_uncertainty_gaussian_approximation(self.data_y)"
            want_full = "(%s^2 + self.data_yerr^2)^1/2" % gauss
            okf = want_full in forms and all(x in (want_full, gauss) for x in forms)
            R.ob("A-draw", "%s.plot_data" % an, bool(calls) and all(good) and okf, (f.file, f.lineno),
                 "data markers at (data_x, data_y); vertical bars = sqrt(total uncertainty^2 + Poisson term^2) (found %s)" % forms)
        f = get_func(p, "XYPlotAdapter", "plot_model_line")
        calls = _draw_calls(f, "plot")
        ok = len(calls) == 1 and _call_args(calls[0])[0] == ["self.model_line_x", "self.model_line_y"]
        R.ob("A-draw", "XYPlotAdapter.plot_model_line", ok, (f.file, f.lineno), "the model curve must be drawn at (model_line_x, model_line_y)")
        f = get_func(p, "HistPlotAdapter", "plot_model")
        src = _txt(f.node)
        ok = "x=self.model_x" in src and "height=self.model_y" in src and _closed_kw(f, "dict", "width") == [norm_spec("self.model_xerr * 2.0 * kwargs.pop('bar_width_scale_factor')").canon()]
        R.ob("A-draw", "HistPlotAdapter.plot_model", ok, (f.file, f.lineno), "model bars at model_x with height model_y and the bin width")
        f = get_func(p, "IndexedPlotAdapter", "plot_model")
        src = _txt(f.node)
        ok = "step_fill_between(target_axes, self.model_x, self.model_y, xerr=self.model_xerr, yerr=self.model_yerr" in src
        R.ob("A-draw", "IndexedPlotAdapter.plot_model", ok, (f.file, f.lineno), "model steps at (model_x, model_y)")
        f = get_func(p, "UnbinnedPlotAdapter", "plot_model_line")
        calls = _draw_calls(f, "plot")
        ok = len(calls) == 1 and _call_args(calls[0])[0] == ["self.model_line_x", "self.model_line_y"]
        R.ob("A-draw", "UnbinnedPlotAdapter.plot_model_line", ok, (f.file, f.lineno), "the density curve must be drawn at (model_line_x, model_line_y)")

    # ------------------------------------------------------------------ H-panel
    with R.guard("Hpanel"):
        def errorbar_forms(cname, fname):
            f = get_func(p, cname, fname)
            calls = _draw_calls(f, "errorbar")
            if len(calls) != 1:
                raise AnalysisError("%s.%s: expected one errorbar call" % (cname, fname))
            env = straight_line_env(f.node.body)
            N = Normalizer(env)
            c = calls[0]
            kw = {k.arg: k.value for k in c.keywords if k.arg}
            return f, [N.norm(a).canon() for a in c.args], {k: N.norm(v).canon() for k, v in kw.items()}

        try:
            f, pos, kw = errorbar_forms(base, "plot_residual")
            tot = "(self)._get_total_error(error_contributions)"
            R.ob("H-panel", "plot_residual", pos == ["self.data_x", norm_spec("self.data_y - self.model_y").canon()] and kw.get("yerr") == tot and kw.get("xerr") == "self.data_xerr", (f.file, f.lineno),
                 "residual panel must show data_y - model_y at data_x with the total uncertainty (found %s, %s)" % (pos, kw))
            f, pos, kw = errorbar_forms(base, "plot_ratio")
            R.ob("H-panel", "plot_ratio:values", pos == ["self.data_x", norm_spec("self.data_y / self.model_y").canon()] and kw.get("xerr") == "self.data_xerr", (f.file, f.lineno),
                 "ratio panel must show data_y / model_y at data_x (found %s)" % pos)
            src = _txt(f.node)
            R.ob("H-panel", "plot_ratio:bars", "_yerr = self._get_total_error(error_contributions) if _yerr is not None: _yerr /= self.model_y" in src and "yerr=_yerr" in src, (f.file, f.lineno),
                 "ratio bars must be the total uncertainty divided by the model")
            f, pos, kw = errorbar_forms(base, "plot_pull")
            want = norm_spec("(self.data_y - self.model_y) / self._get_total_error(error_contributions)").canon()
            R.ob("H-panel", "plot_pull", pos[0] == "self.data_x" and pos[1] == want, (f.file, f.lineno), "pull panel must show (data_y - model_y) / total uncertainty (found %s, expected %s)" % (pos, want))
        except KeyError as e:
            raise AnalysisError("panel formulas: %s" % e)
        check(eng, R, "H-panel", "XYPlotAdapter", "model_line_y", "return", "self._fit.eval_model_function(x=self.model_line_x)", known=["self.data_x", "self.model_x", "self._fit.x_data", "self._fit.x_model"], what="the curve is the model function at the current parameters over the support points")
        check(eng, R, "H-panel", "XYPlotAdapter", "y_error_band", "return", "self._fit.error_band(self.model_line_x)", known=["self.data_x", "self.model_x", "self._fit.x_data", "self._fit.x_model"], what="the band half-width is the propagated parameter uncertainty at the same support points")
        check(eng, R, "H-panel", "UnbinnedPlotAdapter", "model_line_y", "return", "self._fit.eval_model_function(x=self.model_line_x)", what="the curve is the model density over the support points")

        def band_forms(fname):
            f = get_func(p, "XYPlotAdapter", fname)
            calls = _draw_calls(f, "fill_between")
            if len(calls) != 1:
                raise AnalysisError("XYPlotAdapter.%s: expected one fill_between call" % fname)
            N = Normalizer(straight_line_env(f.node.body))
            # the band locals are assigned inside the `if`: inline them from there
            loc = {}
            for n in ast.walk(f.node):
                if isinstance(n, ast.Assign) and isinstance(n.targets[0], ast.Name):
                    loc[n.targets[0].id] = n.value
            N = Normalizer(loc)
            return f, [N.norm(a).canon() for a in calls[0].args]

        f, a = band_forms("plot_model_error_band")
        R.ob("H-panel", "plot_model_error_band", a == ["self.model_line_x", norm_spec("self.model_line_y - self.y_error_band").canon(), norm_spec("self.model_line_y + self.y_error_band").canon()], (f.file, f.lineno),
             "the band must span model line -/+ error band over the support points (found %s)" % a)
        f, a = band_forms("plot_ratio_error_band")
        R.ob("H-panel", "plot_ratio_error_band", a == ["self.model_line_x", norm_spec("1 - self.y_error_band / self.model_line_y").canon(), norm_spec("1 + self.y_error_band / self.model_line_y").canon()], (f.file, f.lineno),
             "the ratio band must span 1 -/+ band / model line (found %s)" % a)
        f, a = band_forms("plot_residual_error_band")
        R.ob("H-panel", "plot_residual_error_band", a == ["self.model_line_x", norm_spec("-self.y_error_band").canon(), "self.y_error_band"], (f.file, f.lineno), "the residual band must span -/+ band (found %s)" % a)

        # histogram density curve: scaled by the number of *all* filled entries (the fit's model uses n_entries, under- and overflow included)
        HA = p.find_class("HistPlotAdapter")
        md = HA.find_prop("model_density_y").fget

        def closure_reads(fn, seen):
            out = []
            for a in ast.walk(fn.node):
                if isinstance(a, ast.Attribute):
                    out.append(" ".join(ast.unparse(a).split()))
                    if isinstance(a.value, ast.Name) and a.value.id == "self":
                        pr = HA.find_prop(a.attr)
                        if pr is not None and pr.fget is not None and pr.fget.node is not fn.node and a.attr not in seen:
                            seen.add(a.attr)
                            out.extend(closure_reads(pr.fget, seen))
            return out

        seen = set()
        reads = closure_reads(md, seen)
        # helpers of the fit itself called from the adapter (self._fit.<method>()) are read through as well
        HF = p.find_class("HistFit")
        for c in [x for x in ast.walk(md.node) if isinstance(x, ast.Call) and isinstance(x.func, ast.Attribute) and " ".join(ast.unparse(x.func.value).split()) == "self._fit"]:
            hm = HF.find_method(c.func.attr)
            if hm is not None and c.func.attr != "eval_model_function_density":
                for a in ast.walk(hm.node):
                    if isinstance(a, ast.Attribute):
                        t = " ".join(ast.unparse(a).split())
                        reads.append(t)
                        if t in ("self._density", "self._param_model.density", "self.density"):
                            reads.append("self._fit.density")
        has_total = any(r.endswith(".n_entries") for r in reads)
        from_bins = sorted({r for r in reads if r in ("self.data_y", "self._fit.data", "self.model_y", "self._fit.model")})
        R.ob("H-panel", "HistPlotAdapter.model_density_y:entries", has_total and not from_bins, (md.file, md.lineno),
             "the density curve must be scaled with the container's n_entries (all filled entries; HistFit.model uses the same number); found %s - a count taken from the in-range bins "
             "is too small whenever entries lie in the under- or overflow" % (("reads " + ", ".join(from_bins)) if from_bins else "no read of n_entries"))
        R.ob("H-panel", "HistPlotAdapter.model_density_y:curve", any(r == "self._fit.eval_model_function_density" for r in reads) and any(r == "self.model_density_x" for r in reads)
             and any(r == "self._fit.density" for r in reads), (md.file, md.lineno), "the curve must be the fit's model density over model_density_x, scaled by the entries only for a density model")

    # ------------------------------------------------------------------ F-info
    with R.guard("Finfo"):
        gi = get_func(p, "Plot", "_get_fit_info")
        sites = [s for s in fresh.print_sites(p) if s[0].qualname.startswith("Plot.")]   # (the info box text may be assembled in private helpers of Plot)
        if not sites:
            raise AnalysisError("Plot._get_fit_info: print of the parameter formatters not found")
        for f, c, src, stored in sites:
            ok, why = fresh.check_site(eng, f, c)
            R.ob("F-info", "Plot._get_fit_info:refresh", ok, (f.file, c.lineno), "the info box prints stored parameter numbers: %s" % why)
        src = _txt(gi.node)
        # the quantity is read from the fit that the box describes (into a local or directly at its use)
        need = {"ndf": "plot_adapter._fit.ndf", "cost": "plot_adapter._fit.cost_function_value", "gof": "plot_adapter._fit.goodness_of_fit",
                "cost function": "plot_adapter._fit._cost_function", "probability": "ParameterFormatter('chi2', plot_adapter._fit.chi2_probability)",
                "multi ndf": "self._multifit.ndf", "multi cost": "self._multifit.cost_function_value", "multi gof": "self._multifit.goodness_of_fit",
                "multi probability": "ParameterFormatter('chi2', self._multifit.chi2_probability)"}
        for k, w in need.items():
            # (the fit / the multi fit may be held in a local first)
            ok_ = common.like_any(src, w, ["_pf = plot_adapter._fit", w.replace("plot_adapter._fit", "_pf")], ["_mf = self._multifit", w.replace("self._multifit", "_mf")])
            R.ob("F-info", "Plot._get_fit_info:%s" % k, ok_, (gi.file, gi.lineno), "the info box must read %s from the fit it describes: `%s`" % (k, w))
        n_fmt = 0
        for c in walk_no_nested(gi.node):
            if isinstance(c, ast.Call) and isinstance(c.func, ast.Attribute) and c.func.attr == "get_formatted" and "formatter" in _txt(c.func.value):
                # the numbers are read through the locals that hold them (whatever they are called): what counts is which fit they come from
                kw = {k.arg: _txt(common.resolve_local(gi.node, k.value)) for k in c.keywords if k.arg}
                multi = "_multi" in _txt(common.resolve_local(gi.node, c.func.value))
                n_fmt += 1
                val = kw.get("value")
                ndf = kw.get("n_degrees_of_freedom")
                own = "self._multifit" if multi else "plot_adapter._fit"
                okv = val in (own + ".goodness_of_fit", own + ".cost_function_value")
                okn = ndf is None or ndf == own + ".ndf"
                okpair = not (ndf is not None and val != own + ".goodness_of_fit")
                R.ob("F-info", "Plot._get_fit_info:cost text@%d" % n_fmt, okv and okn and okpair, (gi.file, c.lineno),
                     "cost text must print the %s fit's own numbers, and '/ ndf' only together with the goodness of fit (value=%s, ndf=%s)" % ("multi" if multi else "single", val, ndf))
        if n_fmt < 4:
            raise AnalysisError("Plot._get_fit_info: cost formatter calls not found (%d)" % n_fmt)
