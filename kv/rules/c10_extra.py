"""C10, two cross-checks between siblings:

H-det   the determinant term a fit takes off its cost before the chi2 probability is the node *its cost function added* (the last argument of that cost function),
        for a single fit and for every member of a MultiFit alike - a fixed node name is right only for cost functions that happen to use that node
        (a y-only XY chi2 adds `y_total_cov_mat_log_determinant`, a pointwise chi2 `total_error_squared_log_sum`).
H-pw    the pointwise twin of a covariance cost function (`pointwise_version`: used for the goodness of fit and as minimisation target when the matrix is diagonal)
        is constructed with every constructor argument of the specialisation that selects which graph nodes the cost reads (`axes_to_use`).
"""
import ast

from ..effects import is_self, self_attr
from ..engine import AnalysisError, norm_stmt
from . import common


def _txt(e):
    return " ".join(ast.unparse(e).split())


def _nexus_gets(e):
    """[(receiver text, key expr)] for `<recv>._nexus.get(K)` inside e"""
    out = []
    for c in ast.walk(e):
        if isinstance(c, ast.Call) and isinstance(c.func, ast.Attribute) and c.func.attr == "get" and isinstance(c.func.value, ast.Attribute) and c.func.value.attr == "_nexus" and c.args:
            out.append((_txt(c.func.value.value), c.args[0]))
    return out


def _is_last_arg_name(fnode, key, recv):
    """key is `<recv>._cost_function.arg_names[-1]` (locals read through)"""
    key = common.resolve_local(fnode, key)
    if not (isinstance(key, ast.Subscript) and isinstance(key.value, ast.Attribute) and key.value.attr in ("arg_names", "_arg_names")):
        return False
    idx = key.slice
    if not (isinstance(idx, ast.UnaryOp) and isinstance(idx.op, ast.USub) and isinstance(idx.operand, ast.Constant) and idx.operand.value == 1):
        return False
    owner = common.resolve_local(fnode, key.value.value)
    return _txt(owner) == "%s._cost_function" % recv


def determinant_terms(eng, R, p, get_func):
    R.rule("H-det", "the determinant term taken off the cost for the chi2 probability is the last argument of the cost function of the same fit (single fit and MultiFit members)", 2)
    for cname in ("FitBase", "MultiFit"):
        f = get_func(p, cname, "chi2_probability")
        for fnode in (f.node,):
            members = {lp.target.id for lp in ast.walk(fnode) if isinstance(lp, ast.For) and isinstance(lp.target, ast.Name) and _txt(lp.iter) in ("self._fits", "self.fits")}
            seen = 0
            for n in ast.walk(fnode):
                if not (isinstance(n, ast.AugAssign) and isinstance(n.op, ast.Sub)):
                    continue
                for recv, key in _nexus_gets(n.value):
                    own = recv in members or (recv == "self" and cname == "FitBase")
                    if not own:
                        continue   # (the MultiFit's own shared-cost node: named by the MultiFit itself, see C11)
                    seen += 1
                    ok = _is_last_arg_name(fnode, key, recv)
                    R.ob("H-det", "%s.chi2_probability:%s" % (cname, "member" if recv in members else "own"), ok, (f.file, n.lineno),
                         "%s.chi2_probability takes %s off the cost of %s: the cost function of that fit adds the node named by its last argument "
                         "(y-only XY chi2: y_total_cov_mat_log_determinant, pointwise chi2: total_error_squared_log_sum) - for those fits the probability is evaluated "
                         "at a cost that still contains one determinant and lacks another" % (cname, _txt(key), "a member" if recv in members else "the fit"))
            if not seen:
                raise AnalysisError("%s.chi2_probability: no determinant term of the fit's own cost function found" % cname)


def pointwise_twin(eng, R, p):
    R.rule("H-pw", "the pointwise twin of a cost function is constructed with every constructor argument that selects the graph nodes the cost reads", 2)
    base = p.find_class("CostFunction")
    n_checked = 0
    for S in sorted(p.all_classes(), key=lambda c: c.name):
        if not (S is base or S.is_subclass_of(base)):
            continue
        init = S.methods.get("__init__")
        pr = S.find_prop("pointwise_version")
        pv = S.find_method("pointwise_version") or (pr.fget if pr else None)
        if init is None or pv is None:
            continue
        params = {a.arg for a in init.node.args.args + init.node.args.kwonlyargs} - {"self"}
        selecting = _node_selecting_params(init, params)
        if not selecting:
            continue
        def ctor_calls_in(fn, depth=0):
            found = [c for c in ast.walk(fn.node) if isinstance(c, ast.Call) and _txt(c.func) in ("type(self)", "self.__class__", S.name)]
            if depth < 2:   # (the constructor call may sit in a private helper that the property calls: `self._new_pointwise_instance(..)`)
                for c in ast.walk(fn.node):
                    if isinstance(c, ast.Call) and isinstance(c.func, ast.Attribute) and is_self(c.func.value):
                        h = S.find_method(c.func.attr)
                        if h is not None and h is not fn:
                            found += ctor_calls_in(h, depth + 1)
            return found

        ctor_calls = ctor_calls_in(pv)
        for call in ctor_calls:
            for prm in sorted(selecting):
                n_checked += 1
                ok = False
                for k in call.keywords:
                    if k.arg == prm and not isinstance(k.value, ast.Constant):
                        ok = _stored_from_param(init, k.value, prm)
                    elif k.arg is None and self_attr(k.value) is not None:
                        ok = ok or _dict_field_has(init, self_attr(k.value), prm)
                R.ob("H-pw", "%s.pointwise_version:%s" % (S.name, prm), ok, (pv.file, call.lineno),
                     "%s selects the nodes its cost reads by the constructor argument '%s', but its pointwise twin (%s) is constructed without it: with %s != default the "
                     "fit minimises and reports the goodness of fit of a cost that reads other uncertainty nodes than the cost function the user configured"
                     % (S.name, prm, pv.qualname, prm))
    if n_checked < 2:
        raise AnalysisError("pointwise twins: fewer constructor arguments checked than confirmed by hand (%d < 2)" % n_checked)


def _node_selecting_params(init, params):
    """constructor parameters on which the value of a `self._*_NAME` attribute depends: through the test of an enclosing `if`, or through the assigned value
    (directly or via locals derived from the parameter)"""
    derived = {q: {q} for q in params}   # local name -> parameters it was computed from
    changed = True
    while changed:
        changed = False
        for s in ast.walk(init.node):
            if isinstance(s, ast.Assign):
                src = set()
                for x in ast.walk(s.value):
                    if isinstance(x, ast.Name) and x.id in derived:
                        src |= derived[x.id]
                for c, _pol in common.guard_conditions(init.node, s):   # (a local assigned under a test of the parameter)
                    for x in ast.walk(c):
                        if isinstance(x, ast.Name) and x.id in derived:
                            src |= derived[x.id]
                for t in s.targets:
                    for x in ast.walk(t):
                        if isinstance(x, ast.Name) and src - derived.get(x.id, set()):
                            derived[x.id] = derived.get(x.id, set()) | src
                            changed = True
    out = set()
    for s in ast.walk(init.node):
        if isinstance(s, ast.Assign) and any((self_attr(t) or "").endswith("_NAME") for t in s.targets):
            for x in ast.walk(s.value):
                if isinstance(x, ast.Name) and x.id in derived:
                    out |= derived[x.id]
            for c, _pol in common.guard_conditions(init.node, s):
                for x in ast.walk(c):
                    if isinstance(x, ast.Name) and x.id in derived:
                        out |= derived[x.id]
    return out & set(params)


def _stored_from_param(init, value, prm):
    """value is `self.<A>` with `self.<A> = <prm>` in __init__ (or the parameter re-derived in an equivalent way is not accepted)"""
    a = self_attr(value)
    if a is None:
        return False
    return any(isinstance(s, ast.Assign) and any(self_attr(t) == a for t in s.targets) and isinstance(s.value, ast.Name) and s.value.id == prm for s in ast.walk(init.node))


def _dict_field_has(init, attr, prm):
    for s in ast.walk(init.node):
        if isinstance(s, ast.Assign) and any(self_attr(t) == attr for t in s.targets):
            v = s.value
            if isinstance(v, ast.Call) and isinstance(v.func, ast.Name) and v.func.id == "dict":
                if any(k.arg == prm and isinstance(k.value, ast.Name) and k.value.id == prm for k in v.keywords):
                    return True
            if isinstance(v, ast.Dict):
                if any(common.const_str(k) == prm and isinstance(val, ast.Name) and val.id == prm for k, val in zip(v.keys, v.values) if k is not None):
                    return True
    return False
