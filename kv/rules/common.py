"""Small syntactic helpers shared by the rule modules."""
import ast
import re

from ..effects import is_self, self_attr, walk_no_nested
from ..srcmodel import AnalysisError, norm_stmt


def parent_map(root):
    pm = {}
    for n in ast.walk(root):
        for c in ast.iter_child_nodes(n):
            pm[id(c)] = n
    return pm


_PM_CACHE = {}


def parents_of(func_node):
    pm = _PM_CACHE.get(id(func_node))
    if pm is None:
        pm = parent_map(func_node)
        _PM_CACHE[id(func_node)] = pm
    return pm


def enclosing_stmt(func_node, node):
    pm = parents_of(func_node)
    cur = node
    while cur is not None and not isinstance(cur, ast.stmt):
        cur = pm.get(id(cur))
    return cur


def cfg_node_of(g, node):
    """CFG node at which the AST node is evaluated."""
    best = None
    for n in g.nodes:
        for part in n.ast_parts():
            for sub in walk_no_nested(part):
                if sub is node:
                    best = n
                    break
            if best:
                break
        if best:
            break
    if best is None:
        # nested closure bodies are not in the CFG: attribute the node to the statement that defines the closure
        st = enclosing_stmt(g.func, node)
        pm = parents_of(g.func)
        while st is not None:
            for n in g.nodes:
                if n.stmt is st and n.kind in ("stmt", "test", "for", "with"):
                    return n
            st = pm.get(id(st))
        raise AnalysisError("AST node at line %s not found in CFG" % getattr(node, "lineno", "?"))
    return best


def in_loop(func_node, node):
    pm = parents_of(func_node)
    cur = pm.get(id(node))
    prev = node
    while cur is not None and cur is not func_node:
        if isinstance(cur, (ast.For, ast.While)) and prev in cur.body:
            return True
        if isinstance(cur, (ast.ListComp, ast.GeneratorExp, ast.SetComp, ast.DictComp)):
            return True
        prev = cur
        cur = pm.get(id(cur))
    return False


def _exits(body):
    if not body:
        return False
    st = body[-1]
    if isinstance(st, (ast.Return, ast.Raise, ast.Continue, ast.Break)):
        return True
    return isinstance(st, ast.If) and bool(st.orelse) and _exits(st.body) and _exits(st.orelse)


def guard_conditions(func_node, node, stop=None, flat=None):
    """[(test expr, polarity)] of the enclosing if/elif/while/ifexp branches of `node` (outermost first).
    flat (default: on for canonical trees, which write `if c: return A` + rest instead of if/else): a preceding sibling `if c: <exits>` without else
    contributes (c, False) - the statement is only reached when c was false."""
    pm = parents_of(func_node)
    if flat is None:
        flat = bool(getattr(func_node, "_canonical", False))
    out = []
    prev = node
    cur = pm.get(id(node))
    while cur is not None and cur is not stop:
        if flat:
            for fld in ("body", "orelse", "finalbody"):
                blk = getattr(cur, fld, None)
                if isinstance(blk, list) and any(prev is s for s in blk):
                    pre = []
                    for s in blk:
                        if s is prev:
                            break
                        if isinstance(s, ast.If) and not s.orelse and _exits(s.body):
                            pre.append((s.test, False))
                    out.extend(pre[::-1])
        if isinstance(cur, ast.If):
            if any(prev is s for s in cur.body):
                out.append((cur.test, True))
            elif any(prev is s for s in cur.orelse):
                out.append((cur.test, False))
        elif isinstance(cur, ast.While):
            if any(prev is s for s in cur.body):
                out.append((cur.test, True))
        elif isinstance(cur, ast.IfExp):
            if prev is cur.body:
                out.append((cur.test, True))
            elif prev is cur.orelse:
                out.append((cur.test, False))
        if cur is func_node:
            break
        prev = cur
        cur = pm.get(id(cur))
    return out[::-1]


def guard_conditions_inside(outer, node):
    pm = parent_map(outer)
    out = []
    prev = node
    cur = pm.get(id(node))
    while cur is not None and cur is not outer:
        if isinstance(cur, ast.If):
            if any(prev is s for s in cur.body):
                out.append((cur.test, True))
            elif any(prev is s for s in cur.orelse):
                out.append((cur.test, False))
        elif isinstance(cur, ast.IfExp):
            out.append((cur.test, prev is cur.body))
        prev = cur
        cur = pm.get(id(cur))
    return out[::-1]


def _atom(e):
    a = self_attr(e)
    if a is not None:
        return a.lstrip("_")
    if isinstance(e, ast.Name):
        return e.id.lstrip("_")
    return "?" + norm_stmt(e)


def literals(e, pol=True):
    """Set of (atom, polarity) if e (with polarity) is a conjunction of possibly negated atoms, else {('?text', pol)}."""
    if isinstance(e, ast.UnaryOp) and isinstance(e.op, ast.Not):
        return literals(e.operand, not pol)
    if isinstance(e, ast.BoolOp):
        if (isinstance(e.op, ast.And) and pol) or (isinstance(e.op, ast.Or) and not pol):
            out = set()
            for v in e.values:
                out |= literals(v, pol)
            return out
        return {("?" + norm_stmt(e), pol)}
    if isinstance(e, ast.Compare) and len(e.ops) == 1 and isinstance(e.comparators[0], ast.Constant):
        c = e.comparators[0].value
        if isinstance(e.ops[0], (ast.Is, ast.Eq)) and c in (True, False):
            return literals(e.left, pol if c else not pol)
        if isinstance(e.ops[0], (ast.IsNot, ast.NotEq)) and c in (True, False):
            return literals(e.left, (not pol) if c else pol)
    return {(_atom(e), pol)}


def conj_normal_form(conds):
    out = set()
    for e, pol in conds:
        out |= literals(e, pol)
    return out


def const_str(e):
    return e.value if isinstance(e, ast.Constant) and isinstance(e.value, str) else None


def call_name(call):
    f = call.func
    if isinstance(f, ast.Attribute):
        return f.attr
    if isinstance(f, ast.Name):
        return f.id
    return None


def kwarg(call, name, pos=None):
    for k in call.keywords:
        if k.arg == name:
            return k.value
    if pos is not None and len(call.args) > pos:
        return call.args[pos]
    return None


# ---------------------------------------------------------------- alpha-tolerant statement text
_LOCAL = re.compile(r"(?<![\w.'\"])_[A-Za-z]\w*")


class Src(str):
    """Whitespace-normalised source text whose `in` tolerates a consistent renaming of local names.

    An identifier of the *pattern* that starts with an underscore and is not an attribute (kafe2's convention for locals and nested helpers) is a placeholder:
    it matches any local name - the same one at each occurrence, different ones for different placeholders, and **the same one in every pattern that has been
    found in this text so far** (the patterns are solved jointly, so exchanging two locals between statements is not equivalent to the reference).
    Everything else is literal. Keyword names (`f(_x=1)`) are literal too.
    Plain `in` / `count` stay exact (they are also used to *select* constructs, where a placeholder would select too much); rules opt in with `like` / `all_like`."""

    _rx_cache = {}

    def __new__(cls, value=""):
        obj = super().__new__(cls, value)
        obj._accepted = []
        obj._binding = {}
        return obj

    @staticmethod
    def _pieces(pattern):
        """[literal, name, literal, name, ..., literal]"""
        pc = Src._rx_cache.get(pattern)
        if pc is None:
            pc, pos = [], 0
            for m in _LOCAL.finditer(pattern):
                if pattern[m.end():m.end() + 1] == "=" and pattern[m.end():m.end() + 2] != "==" and m.start() > 0 and pattern[m.start() - 1] in "(, *":
                    # keyword argument name only if directly followed by '=' without spaces (unparse style) and preceded by '(' or ', '
                    if not (m.start() >= 2 and pattern[m.start() - 2:m.start()] in ("; ",)):
                        if pattern[m.start() - 1] in "(" or pattern[max(0, m.start() - 2):m.start()] == ", ":
                            continue
                pc.append(pattern[pos:m.start()])
                pc.append(m.group(0))
                pos = m.end()
            pc.append(pattern[pos:])
            Src._rx_cache[pattern] = pc
        return pc

    def _candidates(self, pattern, binding):
        """bindings (extensions of `binding`) under which the pattern occurs in the text"""
        pc = Src._pieces(pattern)
        names = pc[1::2]
        if not names:
            if re.search(re.escape(pattern) + ("(?!\\w)" if pattern[-1:].isalnum() or pattern[-1:] == "_" else ""), self):
                yield binding
            return
        out, groups = [], {}
        for i, piece in enumerate(pc):
            if i % 2 == 0:
                out.append(re.escape(piece))
                continue
            if piece in binding:
                out.append("(?<![\\w.])%s(?!\\w)" % re.escape(binding[piece]))
            elif piece in groups:
                out.append("(?P=%s)" % groups[piece])
            else:
                groups[piece] = "g%d" % len(groups)
                out.append("(?<![\\w.])(?P<%s>(?!(?:self|np|cls|None|True|False|not|and|or|in|is|if|else|for|lambda|return)\\b)[A-Za-z_]\\w*)(?!\\w)" % groups[piece])
        if pattern[-1:].isalnum() or pattern[-1:] == "_":
            out.append("(?!\\w)")  # `.cov_mat` does not match `.cov_mat_rel`
        rx = re.compile("".join(out))
        seen = set()
        used = set(binding.values())
        pos = 0
        while True:
            m = rx.search(self, pos)
            if m is None:
                break
            pos = m.start() + 1
            vals = {n: m.group(g) for n, g in groups.items()}
            key = tuple(sorted(vals.items()))
            if key in seen:
                continue
            seen.add(key)
            if len(set(vals.values())) != len(vals) or set(vals.values()) & used:
                continue
            nb = dict(binding)
            nb.update(vals)
            yield nb

    def _solve(self, patterns, binding=None, i=0):
        binding = binding or {}
        if i == len(patterns):
            return binding
        for nb in self._candidates(patterns[i], binding):
            r = self._solve(patterns, nb, i + 1)
            if r is not None:
                return r
        return None

    def like(self, pattern):
        """`pattern in self` up to a consistent renaming of locals (joint with every pattern accepted before on this text)"""
        if not hasattr(self, "_accepted"):
            return str.__contains__(self, pattern)
        if not Src._pieces(pattern)[1::2]:
            return any(True for _ in self._candidates(pattern, {}))
        # fast path: consistent with the binding found so far
        for nb in self._candidates(pattern, self._binding):
            self._accepted.append(pattern)
            self._binding = nb
            return True
        if len(self._accepted) > 14:
            return False
        r = self._solve(self._accepted + [pattern])
        if r is None:
            return False
        self._accepted.append(pattern)
        self._binding = r
        return True

    def all_like(self, *patterns):
        return all(self.like(p_) for p_ in patterns)

    def count_like(self, pattern, *a):
        c = str.count(self, pattern, *a)
        if c or a or not hasattr(self, "_accepted"):
            return c
        pc = Src._pieces(pattern)
        if not pc[1::2]:
            return c
        best = 0
        for nb in self._candidates(pattern, self._binding):
            inst = "".join(nb.get(x, x) if i % 2 else x for i, x in enumerate(pc))
            best = max(best, str.count(self, inst))
        return best


def resolve_local(fn_node, expr, depth=3):
    """`expr` with a local name that is assigned exactly once in the function replaced by what it was assigned (a few levels deep): reads through temporaries that the
    canonical form keeps because their value may have effects (`_view = self._get_iminuit().fixed`)"""
    if depth <= 0 or expr is None:
        return expr
    defs = {}
    for n in ast.walk(fn_node):
        if isinstance(n, ast.Assign) and len(n.targets) == 1 and isinstance(n.targets[0], ast.Name):
            defs.setdefault(n.targets[0].id, []).append(n.value)
        elif isinstance(n, (ast.AugAssign, ast.For, ast.comprehension)):
            for x in ast.walk(n.target):
                if isinstance(x, ast.Name):
                    defs.setdefault(x.id, []).extend([None, None])
    import copy

    class T(ast.NodeTransformer):
        def visit_Name(self, n):
            if isinstance(n.ctx, ast.Load) and len(defs.get(n.id, [])) == 1 and defs[n.id][0] is not None:
                return resolve_local(fn_node, copy.deepcopy(defs[n.id][0]), depth - 1)
            return n

    return T().visit(copy.deepcopy(expr))


def like_any(src, *alternatives):
    """True if all patterns of one of the alternatives (lists of patterns) are found, each alternative with its own binding of the placeholders"""
    for alt in alternatives:
        if Src(str(src)).all_like(*([alt] if isinstance(alt, str) else alt)):
            return True
    return False


def src_of(node):
    return Src(" ".join(ast.unparse(node).split()))


def bool_key(t):
    """order-independent key of a test: and / or over sets of sub-keys, negations pushed to the leaves"""
    from ..canon import positive

    def key(x):
        if isinstance(x, ast.BoolOp):
            return ("and" if isinstance(x.op, ast.And) else "or", frozenset(key(v) for v in x.values))
        return " ".join(ast.unparse(x).split())

    return key(positive(t))


def results_by_path(fn_node):
    """[(path condition (one test: the conjunction of the decisions on the way, negations pushed to the leaves; None = unconditional), returned expression with the
    temporaries of that path written out)] - one entry per path to a `return`. Independent of whether the function branches with if/else, early returns, a conditional
    expression, or updates a temporary under a condition."""
    from ..canon import negate, positive
    from ..termform import path_exprs, subst

    out = []
    for conds, e, env in path_exprs(fn_node, lambda st: [st.value] if isinstance(st, ast.Return) and st.value is not None else []):
        tests = [positive(t) if pol else negate(positive(t)) for t, pol in conds]
        cond = None
        for t in tests:
            cond = t if cond is None else ast.BoolOp(op=ast.And(), values=[cond, t])
        out.append((positive(cond) if cond is not None else None, subst(e, env)))
    return out


def call_args_by_path(fn_node, is_call, arg=lambda c: c.args[0] if c.args else None):
    """[(path conditions [(test text, polarity)], argument expression with the temporaries of that path written out)] for every evaluation of a call selected by
    `is_call` (a `*x` argument counts as x). Whether the argument was prepared by rebinding a name under an `if`, by a conditional expression or in a helper that
    was written out does not matter."""
    from ..canon import _own_nodes
    from ..termform import path_exprs, subst

    def pick(st):
        out = []
        for n in _own_nodes(st):
            if isinstance(n, ast.Call) and is_call(n):
                a = arg(n)
                if a is not None:
                    out.append(a.value if isinstance(a, ast.Starred) else a)
        return out

    res = []

    def split(conds, e):
        # (a temporary holding a conditional expression is two paths as well)
        if isinstance(e, ast.IfExp):
            t = " ".join(ast.unparse(e.test).split())
            if (t, False) not in conds:
                split(conds + [(t, True)], e.body)
            if (t, True) not in conds:
                split(conds + [(t, False)], e.orelse)
        else:
            res.append((conds, e))

    for conds, e, env in path_exprs(fn_node, pick):
        split([(" ".join(ast.unparse(t).split()), pol) for t, pol in conds], subst(e, env))
    return res


def zeroed_determinant(fn_node):
    """CostFunction.goodness_of_fit: the cost is evaluated at the arguments with the last one (the determinant) replaced by 0.0 exactly when the determinant cost is on"""
    seen = set()
    for conds, e in call_args_by_path(fn_node, lambda c: isinstance(c.func, ast.Name) and c.func.id == "self" and len(c.args) == 1 and isinstance(c.args[0], ast.Starred)):
        det = [pol for t, pol in conds if t == "self._add_determinant_cost"]
        if not det or len(set(det)) != 1:
            return False
        t = " ".join(ast.unparse(e).split())
        if t != ("args[:-1] + (0.0,)" if det[0] else "args"):
            return False
        seen.add(det[0])
    return seen == {True, False}


def alpha_expr(e):
    """copy of an expression with the variables bound by its comprehensions / lambdas renamed _q1, _q2, ... in order of binding"""
    import copy

    e = copy.deepcopy(e)
    ren = {}
    for n in ast.walk(e):
        if isinstance(n, ast.comprehension):
            for t in ast.walk(n.target):
                if isinstance(t, ast.Name) and t.id not in ren:
                    ren[t.id] = "_q%d" % (len(ren) + 1)
        elif isinstance(n, ast.Lambda):
            for a in n.args.args:
                if a.arg not in ren:
                    ren[a.arg] = "_q%d" % (len(ren) + 1)
    for n in ast.walk(e):
        if isinstance(n, ast.Name) and n.id in ren:
            n.id = ren[n.id]
        elif isinstance(n, ast.arg) and n.arg in ren:
            n.arg = ren[n.arg]
    return e


def optional_selection(paths, source, selected):
    """paths: [(conds [(text, pol)], value expr)] of a quantity that must be `selected` when `source` is not None and None otherwise (`x = S; if x is not None: x = x[..]`,
    `None if S is None else S[..]`, a helper doing the same ...). True when every path agrees and both cases occur."""
    seen = set()
    for conds, e in paths:
        some = ((source + " is not None", True) in conds) or ((source + " is None", False) in conds)
        none = ((source + " is None", True) in conds) or ((source + " is not None", False) in conds)
        t = " ".join(ast.unparse(alpha_expr(e)).split())
        if some and not none and t == selected:
            seen.add("some")
        elif none and not some and t in ("None", source):
            seen.add("none")
        else:
            return False
    return seen == {"some", "none"}


def expand_ifexp(e, limit=16):
    """all readings of an expression with each conditional sub-expression replaced by one of its branches (the conditions are dropped): [expr]"""
    import copy

    class Pick(ast.NodeTransformer):
        def __init__(self, choice):
            self.choice, self.i = choice, 0

        def visit_IfExp(self, n):
            k = self.i
            self.i += 1
            take = self.choice[k] if k < len(self.choice) else True
            return self.visit(n.body if take else n.orelse)

    n_if = sum(1 for x in ast.walk(e) if isinstance(x, ast.IfExp))
    if n_if == 0:
        return [e]
    out, seen = [], set()
    import itertools

    for choice in itertools.islice(itertools.product((True, False), repeat=n_if), limit * 4):
        r = Pick(choice).visit(copy.deepcopy(e))
        t = ast.unparse(r)
        if t not in seen:
            seen.add(t)
            out.append(r)
        if len(out) >= limit:
            break
    return out


def returned_for_class(cls, name, depth=0):
    """the expression `name()` returns for an instance of exactly `cls` (a one-return method), with calls of other one-return methods on self - looked up in the method
    resolution order of `cls`, so an override in `cls` counts - written out; None if it is not of that shape"""
    from ..termform import subst

    m = cls.find_method(name)
    if m is None or not hasattr(m, "node") or depth > 3:
        return None
    node = m.node
    rets = [r for r in ast.walk(node) if isinstance(r, ast.Return)]
    if len(rets) != 1 or rets[0].value is None:
        return None
    env = {}
    for st in node.body:
        if isinstance(st, ast.Return):
            break
        if isinstance(st, ast.Assign) and len(st.targets) == 1 and isinstance(st.targets[0], ast.Name):
            env[st.targets[0].id] = subst(st.value, env)
        elif not (isinstance(st, ast.Expr) and isinstance(st.value, ast.Constant)):
            return None
    e = subst(rets[0].value, env)

    class T(ast.NodeTransformer):
        def visit_Call(self, c):
            self.generic_visit(c)
            if isinstance(c.func, ast.Attribute) and isinstance(c.func.value, ast.Name) and c.func.value.id == "self" and not c.keywords:
                h = cls.find_method(c.func.attr)
                if h is not None and hasattr(h, "node") and c.func.attr.startswith("_"):
                    inner = returned_for_class(cls, c.func.attr, depth + 1)
                    params = [a.arg for a in h.node.args.args][1:]
                    if inner is not None and len(params) == len(c.args):
                        return subst(inner, dict(zip(params, c.args)))
            return c

    import copy

    return T().visit(copy.deepcopy(e))


def read_through(fn_node, simple_calls=("abs", "min", "max", "float", "int", "len")):
    """copy of the function with every local that is assigned exactly once to a *simple* value (names, attribute reads, literals, arithmetic, abs / min / max ...)
    written out at its uses - also where the canonical form keeps the local because the value reads a computed property more than once. For rules that ask which
    quantities enter a formula, not when they are read."""
    import copy

    from ..canon import _Drop, _SubstAll

    fn = copy.deepcopy(fn_node)
    for _ in range(4):
        stores, value = {}, {}
        for n in ast.walk(fn):
            if isinstance(n, ast.Name) and isinstance(n.ctx, (ast.Store, ast.Del)):
                stores[n.id] = stores.get(n.id, 0) + 1
            elif isinstance(n, ast.arg):
                stores[n.arg] = stores.get(n.arg, 0) + 2
        for n in ast.walk(fn):
            if isinstance(n, ast.Assign) and len(n.targets) == 1 and isinstance(n.targets[0], ast.Name):
                value[n.targets[0].id] = n.value

        def simple(v):
            for x in ast.walk(v):
                if isinstance(x, ast.Call) and not (isinstance(x.func, ast.Name) and x.func.id in simple_calls):
                    return False
                if isinstance(x, (ast.Lambda, ast.ListComp, ast.GeneratorExp, ast.DictComp, ast.SetComp, ast.Yield, ast.Await, ast.NamedExpr, ast.IfExp, ast.Subscript,
                                  ast.List, ast.Dict, ast.Set)):   # (a display creates a new container: a name for it is not an alias of anything)
                    return False
            return True

        sel = {k: v for k, v in value.items() if stores.get(k) == 1 and simple(v) and not any(isinstance(x, ast.Name) and x.id == k for x in ast.walk(v))}
        # a value that mentions another selected name is resolved in the next round
        sel = {k: v for k, v in sel.items() if not any(isinstance(x, ast.Name) and x.id in sel for x in ast.walk(v))}
        if not sel:
            break
        fn = _Drop(sel).visit(fn)
        t = _SubstAll(sel)
        t._top = fn
        fn = t.visit(fn)
        ast.fix_missing_locations(fn)
    return fn


def member_forwarding(cls, method):
    """calls `<m>.<callee>(..)` inside `for m in self._fits` loops of `cls.method`: [(callee, first argument text, skip-test texts)]"""
    f = cls.methods.get(method)
    out = []
    if f is None:
        return f, out
    for lp in ast.walk(f.node):
        if isinstance(lp, ast.For) and isinstance(lp.target, ast.Name) and " ".join(ast.unparse(lp.iter).split()) in ("self._fits", "self.fits"):
            m = lp.target.id
            for c in ast.walk(lp):
                if isinstance(c, ast.Call) and isinstance(c.func, ast.Attribute) and isinstance(c.func.value, ast.Name) and c.func.value.id == m:
                    arg0 = " ".join(ast.unparse(c.args[0]).split()) if c.args else (" ".join(ast.unparse(c.keywords[0].value).split()) if c.keywords else "")
                    out.append((c.func.attr, arg0))
    return f, out


def undo_pairs_forwarded(R, rule, p, pairs=(("fix_parameter", "release_parameter"),)):
    """MultiFit: an operation that is forwarded to the members that depend on the parameter is undone on the same members"""
    mf = p.find_class("MultiFit")
    for do, undo in pairs:
        fd, fwd_do = member_forwarding(mf, do)
        fu, fwd_undo = member_forwarding(mf, undo)
        if fd is None or fu is None:
            raise AnalysisError("MultiFit.%s / %s not found" % (do, undo))
        if not any(c == do for c, _ in fwd_do):
            continue   # (not forwarded at all: nothing to undo on the members)
        pname = fu.node.args.args[1].arg if len(fu.node.args.args) > 1 else None
        ok = any(c == undo and a == pname for c, a in fwd_undo)
        R.ob(rule, "MultiFit.%s:members" % undo, ok, (fu.file, fu.lineno),
             "MultiFit.%s forwards to the members that depend on the parameter (their fitters record it), MultiFit.%s does not call %s on them: after fix, release and a new fit "
             "the members still list the parameter as fixed - their error bands drop its row and column of the covariance, their ndf is off by one" % (do, undo, undo))
