"""Small syntactic helpers shared by the rule modules."""
import ast
import re

from ..effects import is_self, self_attr, walk_no_nested
from ..srcmodel import AnalysisError, norm_stmt


def parent_map(root):
    pm = {}
    for n in ast.walk(root):
        for c in ast.iter_child_nodes(n):
            pm[id(c)] = n
    return pm


_PM_CACHE = {}


def parents_of(func_node):
    pm = _PM_CACHE.get(id(func_node))
    if pm is None:
        pm = parent_map(func_node)
        _PM_CACHE[id(func_node)] = pm
    return pm


def enclosing_stmt(func_node, node):
    pm = parents_of(func_node)
    cur = node
    while cur is not None and not isinstance(cur, ast.stmt):
        cur = pm.get(id(cur))
    return cur


def cfg_node_of(g, node):
    """CFG node at which the AST node is evaluated."""
    best = None
    for n in g.nodes:
        for part in n.ast_parts():
            for sub in walk_no_nested(part):
                if sub is node:
                    best = n
                    break
            if best:
                break
        if best:
            break
    if best is None:
        # nested closure bodies are not in the CFG: attribute the node to the statement that defines the closure
        st = enclosing_stmt(g.func, node)
        pm = parents_of(g.func)
        while st is not None:
            for n in g.nodes:
                if n.stmt is st and n.kind in ("stmt", "test", "for", "with"):
                    return n
            st = pm.get(id(st))
        raise AnalysisError("AST node at line %s not found in CFG" % getattr(node, "lineno", "?"))
    return best


def in_loop(func_node, node):
    pm = parents_of(func_node)
    cur = pm.get(id(node))
    prev = node
    while cur is not None and cur is not func_node:
        if isinstance(cur, (ast.For, ast.While)) and prev in cur.body:
            return True
        if isinstance(cur, (ast.ListComp, ast.GeneratorExp, ast.SetComp, ast.DictComp)):
            return True
        prev = cur
        cur = pm.get(id(cur))
    return False


def guard_conditions(func_node, node, stop=None):
    """[(test expr, polarity)] of the enclosing if/elif/while/ifexp branches of `node` (outermost first)."""
    pm = parents_of(func_node)
    out = []
    prev = node
    cur = pm.get(id(node))
    while cur is not None and cur is not stop:
        if isinstance(cur, ast.If):
            if any(prev is s for s in cur.body):
                out.append((cur.test, True))
            elif any(prev is s for s in cur.orelse):
                out.append((cur.test, False))
        elif isinstance(cur, ast.While):
            if any(prev is s for s in cur.body):
                out.append((cur.test, True))
        elif isinstance(cur, ast.IfExp):
            if prev is cur.body:
                out.append((cur.test, True))
            elif prev is cur.orelse:
                out.append((cur.test, False))
        if cur is func_node:
            break
        prev = cur
        cur = pm.get(id(cur))
    return out[::-1]


def guard_conditions_inside(outer, node):
    pm = parent_map(outer)
    out = []
    prev = node
    cur = pm.get(id(node))
    while cur is not None and cur is not outer:
        if isinstance(cur, ast.If):
            if any(prev is s for s in cur.body):
                out.append((cur.test, True))
            elif any(prev is s for s in cur.orelse):
                out.append((cur.test, False))
        elif isinstance(cur, ast.IfExp):
            out.append((cur.test, prev is cur.body))
        prev = cur
        cur = pm.get(id(cur))
    return out[::-1]


def _atom(e):
    a = self_attr(e)
    if a is not None:
        return a.lstrip("_")
    if isinstance(e, ast.Name):
        return e.id.lstrip("_")
    return "?" + norm_stmt(e)


def literals(e, pol=True):
    """Set of (atom, polarity) if e (with polarity) is a conjunction of possibly negated atoms, else {('?text', pol)}."""
    if isinstance(e, ast.UnaryOp) and isinstance(e.op, ast.Not):
        return literals(e.operand, not pol)
    if isinstance(e, ast.BoolOp):
        if (isinstance(e.op, ast.And) and pol) or (isinstance(e.op, ast.Or) and not pol):
            out = set()
            for v in e.values:
                out |= literals(v, pol)
            return out
        return {("?" + norm_stmt(e), pol)}
    if isinstance(e, ast.Compare) and len(e.ops) == 1 and isinstance(e.comparators[0], ast.Constant):
        c = e.comparators[0].value
        if isinstance(e.ops[0], (ast.Is, ast.Eq)) and c in (True, False):
            return literals(e.left, pol if c else not pol)
        if isinstance(e.ops[0], (ast.IsNot, ast.NotEq)) and c in (True, False):
            return literals(e.left, (not pol) if c else pol)
    return {(_atom(e), pol)}


def conj_normal_form(conds):
    out = set()
    for e, pol in conds:
        out |= literals(e, pol)
    return out


def const_str(e):
    return e.value if isinstance(e, ast.Constant) and isinstance(e.value, str) else None


def call_name(call):
    f = call.func
    if isinstance(f, ast.Attribute):
        return f.attr
    if isinstance(f, ast.Name):
        return f.id
    return None


def kwarg(call, name, pos=None):
    for k in call.keywords:
        if k.arg == name:
            return k.value
    if pos is not None and len(call.args) > pos:
        return call.args[pos]
    return None


# ---------------------------------------------------------------- alpha-tolerant statement text
_LOCAL = re.compile(r"(?<![\w.'\"])_[A-Za-z]\w*")


class Src(str):
    """Whitespace-normalised source text whose `in` / `count` tolerate a consistent renaming of local names: every identifier of the
    *pattern* that starts with an underscore and is not an attribute (kafe2's convention for locals and nested helpers) matches any
    identifier, the same one at each occurrence and different ones for different pattern names. Everything else is literal."""

    _cache = {}
    # Off: with independent bindings per pattern a swap of two locals between statements is alpha-equivalent to the reference and six catalogue
    # mutants were missed. Exact text is kept (a pure renaming of locals in a shape-rule function is then reported - documented in DESIGN 10.2).
    TOLERANT = False

    @staticmethod
    def _regex(pattern):
        rx = Src._cache.get(pattern)
        if rx is None:
            out, pos, names = [], 0, {}
            for m in _LOCAL.finditer(pattern):
                out.append(re.escape(pattern[pos:m.start()]))
                nm = m.group(0)
                if nm in names:
                    out.append("(?P=%s)" % names[nm])
                else:
                    names[nm] = "g%d" % len(names)
                    out.append("(?<![\\w.])(?P<%s>(?!(?:self|np|cls|None|True|False)\\b)[A-Za-z_]\\w*)" % names[nm])
                pos = m.end()
                out.append("(?!\\w)")
            out.append(re.escape(pattern[pos:]))
            rx = (re.compile("".join(out)), len(names))
            Src._cache[pattern] = rx
        return rx

    def _matches(self, pattern):
        rx, n = Src._regex(pattern)
        if n == 0:
            return
        for m in rx.finditer(self):
            vals = list(m.groupdict().values())
            if len(set(vals)) == len(vals):
                yield m

    def __contains__(self, pattern):
        if str.__contains__(self, pattern):
            return True
        if not Src.TOLERANT:
            return False
        for _ in self._matches(pattern):
            return True
        return False

    def count(self, pattern, *a):
        c = str.count(self, pattern, *a)
        if c or a or not Src.TOLERANT:
            return c
        return sum(1 for _ in self._matches(pattern))


def src_of(node):
    return Src(" ".join(ast.unparse(node).split()))
