"""C17 - displayed numbers are faithful to the fit state: refresh-before-print, fixed flag, live sources of report / preface / result dictionary,
decimal-place formulas of ScalarFormatter, and the LaTeX exponent rewrite (language rule on the regular expression literal)."""
import ast

from ..effects import is_self, self_attr, walk_no_nested
from ..engine import AnalysisError
from ..termform import Normalizer, assigned_exprs, norm_spec, return_exprs
from .. import rxlang
from . import common, fresh
from .formulas import check, get_func


def _txt(n):
    return common.src_of(n)


def run(eng, R):
    p = eng.p
    R.rule("F-fresh", "every print of stored parameter values / uncertainties (report, plot info box) is dominated by the refresh of that fit's formatters in the same iteration; "
                      "function formatters never print stored parameter values without it", 3)
    R.rule("S-sync", "_update_parameter_formatters copies value <- parameter_values and error <- parameter_errors position by position over the fit's own parameter formatters "
                     "(asymmetric errors likewise; the symmetric fallback is (-err, +err))", 4)
    R.rule("S-fixed", "fix_parameter / release_parameter set the fixed flag of the formatter at the parameter's own index; get_formatted tests the flag before any rounding", 4)
    R.rule("T-live", "report, preface comment and result dictionary read the live properties of the fit under the documented keys", 20)
    R.rule("H-dec", "ScalarFormatter: decimals = n - 1 - floor(log10 sigma) (recomputed after rounding sigma), significant digits of the value = decimals + floor(log10|x|) + 1; "
                    "uncertainties are printed with exactly n significant digits", 5)
    R.rule("H-exp", "LaTeX exponent rewrite: the part of the pattern after 'e' can consume every exponent that %g / %e produce for a double (language rule on the regex literal)", 2)

    # ------------------------------------------------------------------ F-fresh
    with R.guard("Ffresh"):
        sites = fresh.print_sites(p)
        for f, c, src, stored in sites:
            if not stored:
                R.note("print site %s:%d passes an explicit value with with_errors=False: no stored number is shown" % (f.qualname, c.lineno))
                continue
            # inside a formatter class the stored numbers are printed on behalf of the caller: obligation lies on callers passing with_par_values
            if f.cls is not None and f.cls.name.endswith("Formatter"):
                continue
            ok, why = fresh.check_site(eng, f, c)
            R.ob("F-fresh", "%s:get_formatted over %s" % (f.qualname, _txt(src)), ok, (f.file, c.lineno), "%s prints stored parameter numbers: %s" % (f.qualname, why))
        n_fp = 0
        for f in p.all_functions():
            if f.cls is not None and f.cls.name.endswith("Formatter"):
                continue
            for c in walk_no_nested(f.node):
                if isinstance(c, ast.Call) and isinstance(c.func, ast.Attribute) and c.func.attr in ("get_formatted", "get_formatted_model_function"):
                    recv = _txt(c.func.value)
                    if "formatter" not in recv and c.func.attr == "get_formatted":
                        continue
                    if c.func.attr == "get_formatted" and not recv.endswith("model_function.formatter") and not recv.endswith("_model_function.formatter"):
                        continue
                    n_fp += 1
                    wpv = fresh._kw(c, "with_par_values")
                    star = any(k.arg is None for k in c.keywords)
                    if star:
                        # pass-through wrapper: obligations are at its callers (which are enumerated as get_formatted_model_function sites)
                        continue
                    ok = wpv is None or (isinstance(wpv, ast.Constant) and wpv.value is False)
                    if not ok:
                        ok, why = fresh.check_site(eng, f, c)
                    R.ob("F-fresh", "%s:function formatter@%s" % (f.qualname, recv), ok, (f.file, c.lineno),
                         "%s prints the model function with stored parameter values without refreshing the formatters first" % f.qualname)
        if n_fp < 3:
            raise AnalysisError("function-formatter print sites not found (%d)" % n_fp)

    # ------------------------------------------------------------------ S-sync
    with R.guard("Ssync"):
        f = get_func(p, "FitBase", "_update_parameter_formatters")
        src = _txt(f.node)
        # placeholders: `_f` a formatter, `_v` / `_e` / `_x` what it receives, `_a` the asymmetric errors
        ok = src.like("for _f, _v, _e in zip(self._get_model_function_parameter_formatters(), self.parameter_values, self.parameter_errors): _f.value = _v _f.error = _e")
        R.ob("S-sync", "FitBase._update_parameter_formatters:values", ok, (f.file, f.lineno), "values and errors must be copied position by position from parameter_values / parameter_errors")
        s2 = common.Src(str(src))
        ok = s2.all_like("_a = self.asymmetric_parameter_errors", "for _f, _x in zip(self._get_model_function_parameter_formatters(), _a): _f.asymmetric_error = _x")
        R.ob("S-sync", "FitBase._update_parameter_formatters:asymmetric", ok, (f.file, f.lineno), "asymmetric errors must be copied position by position from asymmetric_parameter_errors")
        ok = s2.like("if _a is None: _a = np.stack([-self.parameter_errors, self.parameter_errors], axis=1)")
        R.ob("S-sync", "FitBase._update_parameter_formatters:fallback", ok, (f.file, f.lineno), "without asymmetric errors the formatters must get (-err, +err)")
        f = get_func(p, "MultiFit", "_update_parameter_formatters")
        src = _txt(f.node)
        ok = common.like_any(src, "for _m in self._fits: _m._update_parameter_formatters(update_asymmetric_errors)", "for _m in self._fits: _m._update_parameter_formatters(update_asymmetric_errors=update_asymmetric_errors)")
        R.ob("S-sync", "MultiFit._update_parameter_formatters", ok, (f.file, f.lineno), "MultiFit must refresh every member with the same flag")
        f = get_func(p, "FitBase", "do_fit")
        g = eng.cfg(f)
        rets = [n for n in g.nodes if n.kind == "stmt" and isinstance(n.stmt, ast.Return)]
        ok = bool(rets) and all(g.dominated_by(r.id, lambda n: any(isinstance(c, ast.Call) and isinstance(c.func, ast.Attribute) and c.func.attr == fresh.REFRESH and is_self(c.func.value)
                                                                   for part in n.ast_parts() for c in walk_no_nested(part)))[0] for r in rets)
        R.ob("S-sync", "FitBase.do_fit:refresh", ok, (f.file, f.lineno), "do_fit must refresh the formatters before it returns the results")

    # ------------------------------------------------------------------ S-fixed
    with R.guard("Sfixed"):
        for fn, val in (("fix_parameter", "True"), ("release_parameter", "False")):
            f = get_func(p, "FitBase", fn)
            src = _txt(f.node)
            ok = common.like_any(src, "self._get_model_function_parameter_formatters()[self.parameter_names.index(name)].fixed = %s" % val,
                                 ["_i = self.parameter_names.index(name)", "self._get_model_function_parameter_formatters()[_i].fixed = %s" % val])
            g = eng.cfg(f)
            if ok:
                ok, _ = g.all_paths_pass(g.entry.id, lambda n: n.kind == "stmt" and isinstance(n.stmt, ast.Assign) and _txt(n.stmt.targets[0]).endswith(".fixed"))
            R.ob("S-fixed", "FitBase.%s" % fn, ok, (f.file, f.lineno), "%s must set the formatter's fixed flag to %s at the index of that parameter name, on every normal path" % (fn, val))
        f = get_func(p, "ParameterFormatter", "get_formatted")
        wv = [n for n in f.node.body if isinstance(n, ast.If) and _txt(n.test) == "with_value"]
        ok = False
        if len(wv) == 1:
            chain = [s for s in wv[0].body if isinstance(s, ast.If) and _txt(s.test) == "self.fixed"]
            if len(chain) == 1:
                body = _txt(ast.Module(body=chain[0].body, type_ignores=[]))
                # the fixed branch is the first alternative: everything that rounds is in its orelse
                later = _txt(ast.Module(body=chain[0].orelse, type_ignores=[]))
                ok = body.count("(fixed)") == 2 and "ScalarFormatter" in later and "ScalarFormatter" not in body
        R.ob("S-fixed", "ParameterFormatter.get_formatted:fixed first", ok, (f.file, f.lineno), "a fixed parameter must be printed as '<value> (fixed)' (plain and LaTeX) before any error formatting is attempted")
        pr = p.find_class("ParameterFormatter").find_prop("fixed")
        ok = pr is not None and pr.fset is not None and "self._fixed = fixed" in _txt(pr.fset.node) and "return self._fixed" in _txt(pr.fget.node)
        R.ob("S-fixed", "ParameterFormatter.fixed", ok, (f.file, f.lineno), "the fixed property must store and return the flag")

    # ------------------------------------------------------------------ T-live
    with R.guard("Tlive"):
        f = get_func(p, "FitBase", "get_result_dict")
        stores = {}
        for n in ast.walk(f.node):
            if isinstance(n, ast.Assign) and isinstance(n.targets[0], ast.Subscript) and _txt(n.targets[0].value) == "_result_dict":
                k = common.const_str(n.targets[0].slice)
                stores.setdefault(k, []).append(n)
        locs = {}
        for n in ast.walk(f.node):
            if isinstance(n, ast.Assign) and isinstance(n.targets[0], ast.Name):
                locs.setdefault(n.targets[0].id, []).append(_txt(n.value))
        want = {"did_fit": "self.did_fit", "cost": "float(self.cost_function_value)", "ndf": "self.ndf", "goodness_of_fit": "self.goodness_of_fit", "chi2_probability": "self.chi2_probability",
                "parameter_values": "self.parameter_name_value_dict", "parameter_cov_mat": "self.parameter_cov_mat", "parameter_cor_mat": "self.parameter_cor_mat"}
        for k, w in want.items():
            vals = []
            for n in stores.get(k, []):
                v = _txt(n.value)
                if isinstance(n.value, ast.Name) and n.value.id in locs:
                    v = locs[n.value.id][-1]
                if v != "None":
                    vals.append(v)
            R.ob("T-live", "FitBase.get_result_dict:%s" % k, vals == [w], (f.file, f.lineno), "result key '%s' must be %s (found %s)" % (k, w, vals))
        src = _txt(f.node)
        ok = common.like_any(src, ["_g = self.goodness_of_fit", "_n = self.ndf", "_result_dict['gof/ndf'] = _g if _g is None else _g / _n"],
                             ["_g = self.goodness_of_fit", "_n = self.ndf", "_result_dict['gof/ndf'] = _g / _n if _g is not None else _g"])
        R.ob("T-live", "FitBase.get_result_dict:gof/ndf", ok, (f.file, f.lineno), "gof/ndf must be the quotient of the same two numbers (the goodness of fit and the ndf written to the dictionary)")
        # (the canonical form writes a dictionary filled in a loop over zip(names, values) as OrderedDict(zip(names, values)))
        R.ob("T-live", "FitBase.get_result_dict:parameter_errors", common.like_any(src, "_result_dict['parameter_errors'] = OrderedDict(zip(self.parameter_names, self.parameter_errors))",
                                                                                   "_result_dict['parameter_errors'] = dict(zip(self.parameter_names, self.parameter_errors))"),
             (f.file, f.lineno), "parameter_errors must map each name to the uncertainty at the same position")
        R.ob("T-live", "FitBase.get_result_dict:asymmetric", common.like_any(src, ["_a = OrderedDict(zip(self.parameter_names, _a))", "_result_dict['asymmetric_parameter_errors'] = _a"],
                                                                            ["_a = dict(zip(self.parameter_names, _a))", "_result_dict['asymmetric_parameter_errors'] = _a"]),
             (f.file, f.lineno), "asymmetric errors must be keyed by the name at the same position")
        f = get_func(p, "FitBase", "_report_fit_results")
        src = _txt(f.node)
        fmt = [{k.arg: _txt(k.value) for k in c.keywords if k.arg} for c in ast.walk(f.node) if isinstance(c, ast.Call) and isinstance(c.func, ast.Attribute) and c.func.attr == "get_formatted"]
        gof_locals = {n.targets[0].id for n in ast.walk(f.node) if isinstance(n, ast.Assign) and isinstance(n.targets[0], ast.Name) and _txt(n.value) == "self.goodness_of_fit"}
        prob_locals = {n.targets[0].id for n in ast.walk(f.node) if isinstance(n, ast.Assign) and isinstance(n.targets[0], ast.Name) and _txt(n.value) == "self.chi2_probability"}
        checks = {
            "cost": any(k.get("value") == "self.cost_function_value" and k.get("with_name") == "False" and k.get("format_as_latex") == "False" for k in fmt),
            "gof": bool(gof_locals) or any(k.get("value") == "self.goodness_of_fit" for k in fmt),
            "gof print": any((k.get("value") in gof_locals or k.get("value") == "self.goodness_of_fit") and k.get("n_degrees_of_freedom") == "self.ndf" and k.get("with_value_per_ndf") == "True"
                             and k.get("with_name") == "False" for k in fmt),
            "probability": bool(prob_locals) or "self.chi2_probability" in src,
            "probability print": any(src.like("'%%schi2 probability = %%#.3g\\n\\n' %% (indent * (indentation_level + 2), %s)" % v) for v in sorted(prob_locals) + ["self.chi2_probability"]),
            "correlations": common.like_any(src, "for _n, _r in zip(par_display_names, self.parameter_cor_mat.T): _d[_n] = np.atleast_1d(np.squeeze(np.asarray(_r)))",
                                            ["_pdn = [_q.name for _q in self._get_model_function_parameter_formatters()]", "for _n, _r in zip(_pdn, self.parameter_cor_mat.T): _d[_n] = np.atleast_1d(np.squeeze(np.asarray(_r)))"]),
            "names": common.like_any(src, "par_display_names = [_q.name for _q in self._get_model_function_parameter_formatters()]", "_pdn = [_q.name for _q in self._get_model_function_parameter_formatters()]"),
        }
        for k, ok in checks.items():
            R.ob("T-live", "FitBase._report_fit_results:%s" % k, ok, (f.file, f.lineno), "the report must print %s from the live fit" % k)
        f = get_func(p, "FitYamlWriter", "_get_preface_comment")
        # a local that names the written fit (`_fit = self._kafe_object`, taken once - possibly before the call of the base class, where the canonical form keeps it)
        # is read as that field: the rules below are about *which object's* numbers are written
        import copy as _copy
        fnode = _copy.deepcopy(f.node)
        objs = [a for a in ast.walk(fnode) if isinstance(a, ast.Assign) and len(a.targets) == 1 and isinstance(a.targets[0], ast.Name) and _txt(a.value) == "self._kafe_object"]
        for a in objs:
            nm = a.targets[0].id
            if sum(1 for x in ast.walk(fnode) if isinstance(x, ast.Name) and x.id == nm and isinstance(x.ctx, ast.Store)) == 1:
                for x in ast.walk(fnode):
                    for fld, val in ast.iter_fields(x):
                        if isinstance(val, ast.Name) and val.id == nm and isinstance(val.ctx, ast.Load):
                            setattr(x, fld, ast.Attribute(value=ast.Name(id="self", ctx=ast.Load()), attr="_kafe_object", ctx=ast.Load()))
                        elif isinstance(val, list):
                            for i_, v_ in enumerate(val):
                                if isinstance(v_, ast.Name) and v_.id == nm and isinstance(v_.ctx, ast.Load):
                                    val[i_] = ast.Attribute(value=ast.Name(id="self", ctx=ast.Load()), attr="_kafe_object", ctx=ast.Load())
        f = type(f)(f.name, f.cls, f.module, fnode, f.kind, f.prop)
        src = _txt(f.node)
        gc = [c for c in ast.walk(f.node) if isinstance(c, ast.Call) and isinstance(c.func, ast.Name) and c.func.id == "get_compact_representation"]
        slot = {"names": ("parameter_names", 0), "values": ("parameter_values", 1), "errors": ("parameter_errors", 2), "correlations": ("parameter_cor_mat", 3)}
        for k, (pn, pos) in slot.items():
            ok = len(gc) == 1 and _txt(common.kwarg(gc[0], pn, pos)) == "self._kafe_object.%s" % pn
            R.ob("T-live", "FitYamlWriter._get_preface_comment:%s" % k, ok, (f.file, f.lineno), "the preface comment must take %s from the live fit (self._kafe_object.%s)" % (k, pn))
        need = {"gof": ["_g = self._kafe_object.goodness_of_fit"], "cost": ["_c = self._kafe_object.cost_function_value"], "ndf": ["_n = self._kafe_object.ndf"],
                "gof/ndf": ["_g = self._kafe_object.goodness_of_fit", "_n = self._kafe_object.ndf", "round(_g / _n, _round_gof_per_ndf_sig)"],
                "gof line": ["_g = self._kafe_object.goodness_of_fit", "'# %s: %s\\n' % (_gof_name, _g)"], "ndf line": ["_n = self._kafe_object.ndf", "'# ndf: %s\\n' % _n"]}
        for k, w in need.items():
            R.ob("T-live", "FitYamlWriter._get_preface_comment:%s" % k, common.like_any(src, w), (f.file, f.lineno), "the preface comment must take %s from the live fit: `%s`" % (k, w[-1]))
        f = get_func(p, None, "kafe2.tools:get_compact_representation")
        src = _txt(f.node)
        # placeholders: `_n` / `_v` / `_e` name, value and uncertainty of one row, `_se` / `_sv` their decimals, `_rows` the correlation row strings
        # the row loop: name, value, uncertainty and correlation row of one position; per path through its body the value is rounded to at least as many decimals as the
        # uncertainty (written with temporaries, a conditional expression or a helper - all the same)
        rows_ok = False
        for lp in [n for n in ast.walk(f.node) if isinstance(n, ast.For)]:
            it, tg = lp.iter, lp.target
            if isinstance(it, ast.Call) and _txt(it.func) == "enumerate" and it.args and isinstance(tg, ast.Tuple) and len(tg.elts) == 2:
                it, tg = it.args[0], tg.elts[1]
            it = common.resolve_local(f.node, it)
            if not (isinstance(it, ast.Call) and _txt(it.func) == "zip" and [_txt(a) for a in it.args[:3]] == ["parameter_names", "parameter_values", "parameter_errors"]
                    and isinstance(tg, ast.Tuple) and len(tg.elts) >= 3 and all(isinstance(x, ast.Name) for x in tg.elts[:3])):
                continue
            vn, vv, ve = (x.id for x in tg.elts[:3])
            body = ast.Module(body=lp.body, type_ignores=[])
            is_round = lambda c, who: isinstance(c.func, ast.Name) and c.func.id == "round" and len(c.args) == 2 and _txt(c.args[0]) == who  # noqa: E731
            dv = common.call_args_by_path(body, lambda c: is_round(c, vv), arg=lambda c: c.args[1])
            de = common.call_args_by_path(body, lambda c: is_round(c, ve), arg=lambda c: c.args[1])
            good = bool(dv) and bool(de)
            for c, e in dv:
                # (the decimals of the uncertainty on the same path: the path of the value may have taken further decisions)
                ses = {_txt(e2) for c2, e2 in de if set(c2) <= set(c)}
                t = _txt(e)
                good = good and len(ses) == 1 and any(t == se or t.startswith("max(%s, " % se) for se in ses)
            # the row starts with the name and receives both rounded numbers
            bs = common.src_of(body)
            named = bs.like("_row = [%s]" % vn) or bs.like("_row = [%s, round(%s, _sv), round(%s, _se)]" % (vn, vv, ve)) or bs.like("_row.append(%s)" % vn)
            rows_ok = rows_ok or (good and bool(named))
        R.ob("T-live", "get_compact_representation:rows", rows_ok, (f.file, f.lineno), "each row must show name, value and uncertainty of the same position; the value is rounded to at least the decimals of the uncertainty")

        # every log10 in the compact table is taken of a quantity that was tested against zero / nan on the way there
        f = get_func(p, None, "kafe2.tools:get_compact_representation")
        n_log = 0
        # the function itself and the private module-level helpers it calls (a digit computation may live in one of them, guarded there on its own parameter)
        scopes = [f.node]
        for c_ in ast.walk(f.node):
            if isinstance(c_, ast.Call) and isinstance(c_.func, ast.Name) and c_.func.id.startswith("_") and c_.func.id in f.module.functions:
                scopes.append(f.module.functions[c_.func.id].node)
        for scope, c in [(sc, c) for sc in scopes for c in ast.walk(sc)]:
            if isinstance(c, ast.Call) and _txt(c.func) in ("np.log10", "math.log10", "log10") and c.args:
                names = [x.id for x in ast.walk(c.args[0]) if isinstance(x, ast.Name) and x.id not in ("np", "math")]
                if len(names) != 1:
                    continue
                n_log += 1
                # a written-out helper's parameter stands for the argument it was called with
                rv = common.resolve_local(scope, ast.Name(id=names[0], ctx=ast.Load()))
                v = rv.id if isinstance(rv, ast.Name) else names[0]
                conds = common.guard_conditions(scope, c, flat=True)
                guarded = False
                for t, pol in conds:
                    for cmp_ in ast.walk(t):
                        if isinstance(cmp_, ast.Compare) and isinstance(cmp_.left, ast.Name) and cmp_.left.id == v and isinstance(cmp_.comparators[0], ast.Constant) and cmp_.comparators[0].value in (0, 0.0):
                            guarded = True
                R.ob("T-live", "get_compact_representation:log10(%s)" % v, guarded, (f.file, c.lineno),
                     "the number of digits is computed from log10(|%s|) without excluding %s == 0: writing a fit whose %s is exactly zero raises OverflowError" % (v, v, v))
        if n_log < 3:
            raise AnalysisError("get_compact_representation: digit computations not found")

        # a reloaded fit shows its numbers under the right names: positional mappings keep their order in the file
        from .c09 import check_order_carrying

        check_order_carrying(eng, R, "T-live")

    # ------------------------------------------------------------------ H-dec
    with R.guard("Hdec"):
        SF = "kafe2.fit._base.format:ScalarFormatter"
        f = get_func(p, SF, "__init__")
        from .formulas import extract
        from ..termform import path_exprs, subst

        def closed(fn, pick):
            # (a conditional expression inside the formula is one more branching: `floor(log10(r) if r else -1)`)
            return [Normalizer({}).norm(e2).canon() for conds, e, env in path_exprs(fn.node, pick) for e2 in common.expand_ifexp(subst(e, env))]

        def calls_in_stmt(st, name):
            own = [st] if not hasattr(st, "body") else [x for x in (getattr(st, "test", None), getattr(st, "iter", None)) if x is not None]
            return [c for o in own for c in ast.walk(o) if isinstance(c, ast.Call) and (c.func.attr if isinstance(c.func, ast.Attribute) else getattr(c.func, "id", None)) == name]

        # (the constructor stores its two arguments in plain fields first: reading the field or the argument afterwards is the same number)
        stored_first = [_txt(st) for st in f.node.body[:2]]
        same = sorted(stored_first) == ["self._n_significant_digits = n_significant_digits", "self._sigma = sigma"]

        def arg_form(t):
            return t.replace("(self)._sigma", "sigma").replace("(self)._n_significant_digits", "n_significant_digits").replace("self._sigma", "sigma").replace("self._n_significant_digits", "n_significant_digits") if same else t

        want = arg_form(norm_spec("int(-floor(log10(self._sigma))) + self._n_significant_digits - 1").canon())
        forms = [arg_form(x) for x in closed(f, lambda st: [c.args[1] for c in calls_in_stmt(st, "around") if len(c.args) > 1])]
        R.ob("H-dec", "%s.__init__:first estimate" % SF, forms == [want], (f.file, f.lineno), "decimals = n - 1 - floor(log10 sigma) (found %s)" % forms)
        forms = [arg_form(x.canon()) for ct, x, _ in extract(f, "store", "self._sig", node=f.node)]
        want2 = arg_form(norm_spec("int(-floor(log10(around(self._sigma, int(-floor(log10(self._sigma))) + self._n_significant_digits - 1)))) + self._n_significant_digits - 1").canon())
        R.ob("H-dec", "%s.__init__:after rounding" % SF, forms == [want2], (f.file, f.lineno), "decimals must be recomputed from sigma rounded to the first estimate (0.99 -> 1.0 shifts the decimal place); found %s" % forms)
        f = get_func(p, SF, "__call__")
        src = _txt(f.node)
        # the number of significant digits handed to the %#.<digits>g template, per path (value rounds to zero / not)
        digs = sorted(closed(f, lambda st: [k.value for c in calls_in_stmt(st, "format") for k in c.keywords if k.arg == "significance"]))
        R_X = "abs(around(x, self._sig))"
        exp = sorted([norm_spec("max(int(self._sig + int(floor(-1)) + 1), 0)").canon(), norm_spec("max(int(self._sig + int(floor(log10(abs(%s)))) + 1), 0)" % R_X).canon()])
        R.ob("H-dec", "%s.__call__:value digits" % SF, digs == exp, (f.file, f.lineno),
             "significant digits of the value = decimals + floor(log10|x|) + 1, clipped at 0, independent of the digits shown for the uncertainty (found %s)" % digs)
        R_X = "abs(np.around(x, self._sig))"
        # the magnitude handed to floor(), per path: log10 of the rounded value when that is non-zero, -1 otherwise; the result is the %#.<digits>g template applied to x
        mags = set()
        for conds, e in common.call_args_by_path(f.node, lambda c: _txt(c.func) in ("np.floor", "floor", "math.floor")):
            rz = [pol for t, pol in conds if t == R_X]
            mags.add((rz[0] if len(set(rz)) == 1 else None, _txt(e)))
        rets = [e for _c, e in common.results_by_path(f.node)]
        tmpl = all(isinstance(e, ast.BinOp) and isinstance(e.op, ast.Mod) and _txt(e.right) == "x" and isinstance(e.left, ast.Call) and _txt(e.left.func) == "'%#.{significance}g'.format"
                   and [k.arg for k in e.left.keywords] == ["significance"] and not e.left.args for e in rets)
        ok = mags == {(True, "np.log10(np.abs(%s))" % R_X), (False, "-1")} and bool(rets) and tmpl
        R.ob("H-dec", "%s.__call__:magnitude" % SF, ok, (f.file, f.lineno), "the magnitude must be taken from the value rounded to the decimals (9.996 -> 10.0), with a fallback for zero, and the value printed with %#.<digits>g")
        f = get_func(p, "ParameterFormatter", "get_formatted")
        src = _txt(common.read_through(f.node))   # (|error_up| / |error_down| held in locals are read as the quantities they are)
        ok = (src.all_like("_vf = ScalarFormatter(_me, n_significant_digits)", "_v = _vf(value)", "_e = '%#.{n}g'.format(n=n_significant_digits) % self.error")
              or src.all_like("_vf = ScalarFormatter(_me, n_significant_digits)", "_v = _vf(value)", "_t = '%#.{n}g'.format(n=n_significant_digits)", "_e = _t % self.error")) \
            and common.like_any(src, "_me = min(abs(self.error_up), abs(self.error_down)) if asymmetric_error else self.error", ["_me = min(abs(self.error_up), abs(self.error_down))", "_me = self.error"])
        R.ob("H-dec", "ParameterFormatter.get_formatted:rounding", ok, (f.file, f.lineno),
             "the value must be rounded by a ScalarFormatter built from the (smaller) uncertainty and n; the uncertainty printed with exactly n significant digits")
        # (`_vf` / `_t` are the formatter and the n-digit template bound by the rule above when they are held in locals)
        T_ = "_t" if "_t" in src._binding else "'%#.{n}g'.format(n=n_significant_digits)"
        ok = src.like("if abs(self.error_down) <= abs(self.error_up): _eu = _vf(abs(self.error_up)) _ed = %s %% abs(self.error_down) else: _ed = _vf(abs(self.error_down)) _eu = %s %% abs(self.error_up)" % (T_, T_))
        R.ob("H-dec", "ParameterFormatter.get_formatted:asymmetric", ok, (f.file, f.lineno), "the smaller asymmetric uncertainty gets n significant digits, the larger one the same decimals")
        f = get_func(p, "CostFunctionFormatter", "get_formatted")
        src = _txt(f.node)
        ok = src.like("_vs = '%.4g' % value") and common.like_any(src, "_vs = '%s / %d' % (_vs, n_degrees_of_freedom)", "_vs += ' / %d' % (n_degrees_of_freedom,)", "_vs += ' / %d' % n_degrees_of_freedom") \
            and common.like_any(src, "_vs = '%s = %.4g' % (_vs, float(value) / n_degrees_of_freedom)", "_vs += ' = %.4g' % (float(value) / n_degrees_of_freedom,)",
                                ["_q = float(value) / n_degrees_of_freedom", "_vs += ' = %.4g' % (_q,)"])
        if not ok:
            # the same three formatting operations found structurally: which value goes into which %-field
            import re as _re

            def field_args(spec_re):
                out = []
                for n in ast.walk(f.node):
                    if isinstance(n, (ast.BinOp, ast.AugAssign)) and isinstance(n.op, ast.Mod) or (isinstance(n, ast.AugAssign) and isinstance(n.op, ast.Add) and isinstance(n.value, ast.BinOp)):
                        b = n.value if isinstance(n, ast.AugAssign) else n
                        if not (isinstance(b, ast.BinOp) and isinstance(b.op, ast.Mod) and isinstance(b.left, ast.Constant) and isinstance(b.left.value, str)):
                            continue
                        specs = _re.findall(r"%[#0-9.]*[a-zA-Z]", b.left.value.replace("%%", ""))
                        args = list(b.right.elts) if isinstance(b.right, ast.Tuple) else [b.right]
                        if len(specs) == len(args):
                            out += [_txt(common.resolve_local(f.node, a)) for sp, a in zip(specs, args) if _re.fullmatch(spec_re, sp)]
                return out

            ok = "value" in field_args(r"%\.4g") and "float(value) / n_degrees_of_freedom" in field_args(r"%\.4g") and field_args(r"%d") == ["n_degrees_of_freedom"] \
                and set(field_args(r"%\.4g")) == {"value", "float(value) / n_degrees_of_freedom"}
        R.ob("H-dec", "CostFunctionFormatter.get_formatted", ok, (f.file, f.lineno), "the cost is printed with 4 significant digits, the ndf as integer, the quotient as value / ndf")

    # ------------------------------------------------------------------ H-exp
    with R.guard("Hexp"):
        fm = p.module("kafe2.fit._base.format")
        n_rx = 0
        domain = ["+%02d" % k for k in range(0, 309)] + ["-%02d" % k for k in range(1, 325)]
        consts = {}
        for n in ast.walk(fm.tree if hasattr(fm, "tree") else fm.node):
            if isinstance(n, ast.Assign) and isinstance(n.targets[0], ast.Name) and isinstance(n.value, ast.Call) and _txt(n.value.func) == "re.compile" and n.value.args and common.const_str(n.value.args[0]):
                consts[n.targets[0].id] = (common.const_str(n.value.args[0]), n.lineno)
        for n in ast.walk(fm.tree if hasattr(fm, "tree") else fm.node):
            if not isinstance(n, ast.Call) or not isinstance(n.func, ast.Attribute) or n.func.attr != "sub":
                continue
            pat, repl = None, None
            if _txt(n.func.value) == "re" and len(n.args) >= 2:
                pat, repl = common.const_str(n.args[0]), common.const_str(n.args[1])
            elif isinstance(n.func.value, ast.Name) and n.func.value.id in consts and n.args:
                pat, repl = consts[n.func.value.id][0], common.const_str(n.args[0])
            if pat is None or repl is None or "10^{" not in repl:
                continue
            n_rx += 1
            items = rxlang.parse(pat)
            before, after = rxlang.split_at_literal(items, "e")
            bad = []
            for e in domain:
                if len(e) not in rxlang.ends(after, e, {0}):
                    bad.append(e)
            R.ob("H-exp", "format.py:exponent rewrite@%d" % n_rx, not bad, (fm.relpath, n.lineno),
                 "the pattern %r cannot consume the exponent of e.g. %s: digits are left behind the closing brace and the displayed power of ten is wrong" % (pat, ["1e" + b for b in bad[:4]]))
            # mantissa: every %g mantissa with trailing zeros is consumed up to the 'e'
            mant = ["1", "1.5", "1.50", "2.00000", "-1.05", "-9.99999", "0.5", "1.0"]
            badm = [m for m in mant if len(m) not in rxlang.ends(before, m, {0, 1} if m.startswith("-") else {0})]
            R.ob("H-exp", "format.py:mantissa@%d" % n_rx, not badm, (fm.relpath, n.lineno), "the pattern %r cannot consume the mantissa %s in front of the exponent" % (pat, badm))
        if n_rx < 1:
            raise AnalysisError("LaTeX exponent rewrites not found in format.py")
        # both number-printing formatters apply a rewrite (directly or through a module-level helper) when LaTeX output is requested
        def has_rewrite(node):
            for c in ast.walk(node):
                if isinstance(c, ast.Call) and isinstance(c.func, ast.Attribute) and c.func.attr == "sub":
                    a = [common.const_str(x) for x in c.args[:2]]
                    if any(x and "10^{" in x for x in a):
                        return True
            return False

        helpers = {name for name, fn in fm.functions.items() if has_rewrite(fn.node)}
        for cname in ("ParameterFormatter", "CostFunctionFormatter"):
            f = get_func(p, cname, "get_formatted")
            ok = False
            for i in ast.walk(f.node):
                if isinstance(i, ast.If) and _txt(i.test) == "format_as_latex":
                    body = ast.Module(body=i.body, type_ignores=[])
                    if has_rewrite(body) or any(isinstance(c, ast.Call) and isinstance(c.func, ast.Name) and c.func.id in helpers for c in ast.walk(body)):
                        ok = True
            R.ob("H-exp", "%s.get_formatted:rewrite applied" % cname, ok, (f.file, f.lineno), "%s.get_formatted must rewrite scientific notation as a power of ten for LaTeX output" % cname)
