"""C17 - displayed numbers are faithful to the fit state: refresh-before-print, fixed flag, live sources of report / preface / result dictionary,
decimal-place formulas of ScalarFormatter, and the LaTeX exponent rewrite (language rule on the regular expression literal)."""
import ast

from ..effects import is_self, self_attr, walk_no_nested
from ..engine import AnalysisError
from ..termform import Normalizer, assigned_exprs, norm_spec, return_exprs
from .. import rxlang
from . import common, fresh
from .formulas import check, get_func


def _txt(n):
    return common.src_of(n)


def run(eng, R):
    p = eng.p
    R.rule("F-fresh", "every print of stored parameter values / uncertainties (report, plot info box) is dominated by the refresh of that fit's formatters in the same iteration; "
                      "function formatters never print stored parameter values without it", 3)
    R.rule("S-sync", "_update_parameter_formatters copies value <- parameter_values and error <- parameter_errors position by position over the fit's own parameter formatters "
                     "(asymmetric errors likewise; the symmetric fallback is (-err, +err))", 4)
    R.rule("S-fixed", "fix_parameter / release_parameter set the fixed flag of the formatter at the parameter's own index; get_formatted tests the flag before any rounding", 4)
    R.rule("T-live", "report, preface comment and result dictionary read the live properties of the fit under the documented keys", 20)
    R.rule("H-dec", "ScalarFormatter: decimals = n - 1 - floor(log10 sigma) (recomputed after rounding sigma), significant digits of the value = decimals + floor(log10|x|) + 1; "
                    "uncertainties are printed with exactly n significant digits", 5)
    R.rule("H-exp", "LaTeX exponent rewrite: the part of the pattern after 'e' can consume every exponent that %g / %e produce for a double (language rule on the regex literal)", 2)

    # ------------------------------------------------------------------ F-fresh
    sites = fresh.print_sites(p)
    for f, c, src, stored in sites:
        if not stored:
            R.note("print site %s:%d passes an explicit value with with_errors=False: no stored number is shown" % (f.qualname, c.lineno))
            continue
        # inside a formatter class the stored numbers are printed on behalf of the caller: obligation lies on callers passing with_par_values
        if f.cls is not None and f.cls.name.endswith("Formatter"):
            continue
        ok, why = fresh.check_site(eng, f, c)
        R.ob("F-fresh", "%s:get_formatted over %s" % (f.qualname, _txt(src)), ok, (f.file, c.lineno), "%s prints stored parameter numbers: %s" % (f.qualname, why))
    n_fp = 0
    for f in p.all_functions():
        if f.cls is not None and f.cls.name.endswith("Formatter"):
            continue
        for c in walk_no_nested(f.node):
            if isinstance(c, ast.Call) and isinstance(c.func, ast.Attribute) and c.func.attr in ("get_formatted", "get_formatted_model_function"):
                recv = _txt(c.func.value)
                if "formatter" not in recv and c.func.attr == "get_formatted":
                    continue
                if c.func.attr == "get_formatted" and not recv.endswith("model_function.formatter") and not recv.endswith("_model_function.formatter"):
                    continue
                n_fp += 1
                wpv = fresh._kw(c, "with_par_values")
                star = any(k.arg is None for k in c.keywords)
                if star:
                    # pass-through wrapper: obligations are at its callers (which are enumerated as get_formatted_model_function sites)
                    continue
                ok = wpv is None or (isinstance(wpv, ast.Constant) and wpv.value is False)
                if not ok:
                    ok, why = fresh.check_site(eng, f, c)
                R.ob("F-fresh", "%s:function formatter@%s" % (f.qualname, recv), ok, (f.file, c.lineno),
                     "%s prints the model function with stored parameter values without refreshing the formatters first" % f.qualname)
    if n_fp < 3:
        raise AnalysisError("function-formatter print sites not found (%d)" % n_fp)

    # ------------------------------------------------------------------ S-sync
    f = get_func(p, "FitBase", "_update_parameter_formatters")
    src = _txt(f.node)
    ok = "for _fpf, _pv, _pe in zip(self._get_model_function_parameter_formatters(), self.parameter_values, self.parameter_errors): _fpf.value = _pv _fpf.error = _pe" in src
    R.ob("S-sync", "FitBase._update_parameter_formatters:values", ok, (f.file, f.lineno), "values and errors must be copied position by position from parameter_values / parameter_errors")
    ok = "for _fpf, _ape in zip(self._get_model_function_parameter_formatters(), _asymmetric_parameter_errors): _fpf.asymmetric_error = _ape" in src \
        and "_asymmetric_parameter_errors = self.asymmetric_parameter_errors" in src
    R.ob("S-sync", "FitBase._update_parameter_formatters:asymmetric", ok, (f.file, f.lineno), "asymmetric errors must be copied position by position from asymmetric_parameter_errors")
    ok = "if _asymmetric_parameter_errors is None: _asymmetric_parameter_errors = np.stack([-self.parameter_errors, self.parameter_errors], axis=1)" in src
    R.ob("S-sync", "FitBase._update_parameter_formatters:fallback", ok, (f.file, f.lineno), "without asymmetric errors the formatters must get (-err, +err)")
    f = get_func(p, "MultiFit", "_update_parameter_formatters")
    src = _txt(f.node)
    ok = "for _fit in self._fits: _fit._update_parameter_formatters(update_asymmetric_errors=update_asymmetric_errors)" in src
    R.ob("S-sync", "MultiFit._update_parameter_formatters", ok, (f.file, f.lineno), "MultiFit must refresh every member with the same flag")
    f = get_func(p, "FitBase", "do_fit")
    g = eng.cfg(f)
    rets = [n for n in g.nodes if n.kind == "stmt" and isinstance(n.stmt, ast.Return)]
    ok = bool(rets) and all(g.dominated_by(r.id, lambda n: any(isinstance(c, ast.Call) and isinstance(c.func, ast.Attribute) and c.func.attr == fresh.REFRESH and is_self(c.func.value)
                                                               for part in n.ast_parts() for c in walk_no_nested(part)))[0] for r in rets)
    R.ob("S-sync", "FitBase.do_fit:refresh", ok, (f.file, f.lineno), "do_fit must refresh the formatters before it returns the results")

    # ------------------------------------------------------------------ S-fixed
    for fn, val in (("fix_parameter", "True"), ("release_parameter", "False")):
        f = get_func(p, "FitBase", fn)
        src = _txt(f.node)
        ok = "_par_index = self.parameter_names.index(name)" in src and "self._get_model_function_parameter_formatters()[_par_index].fixed = %s" % val in src
        g = eng.cfg(f)
        if ok:
            ok, _ = g.all_paths_pass(g.entry.id, lambda n: n.kind == "stmt" and isinstance(n.stmt, ast.Assign) and _txt(n.stmt.targets[0]).endswith(".fixed"))
        R.ob("S-fixed", "FitBase.%s" % fn, ok, (f.file, f.lineno), "%s must set the formatter's fixed flag to %s at the index of that parameter name, on every normal path" % (fn, val))
    f = get_func(p, "ParameterFormatter", "get_formatted")
    wv = [n for n in f.node.body if isinstance(n, ast.If) and _txt(n.test) == "with_value"]
    ok = False
    if len(wv) == 1:
        chain = [s for s in wv[0].body if isinstance(s, ast.If) and _txt(s.test) == "self.fixed"]
        if len(chain) == 1:
            body = _txt(ast.Module(body=chain[0].body, type_ignores=[]))
            # the fixed branch is the first alternative: everything that rounds is in its orelse
            later = _txt(ast.Module(body=chain[0].orelse, type_ignores=[]))
            ok = body.count("(fixed)") == 2 and "ScalarFormatter" in later and "ScalarFormatter" not in body
    R.ob("S-fixed", "ParameterFormatter.get_formatted:fixed first", ok, (f.file, f.lineno), "a fixed parameter must be printed as '<value> (fixed)' (plain and LaTeX) before any error formatting is attempted")
    pr = p.find_class("ParameterFormatter").find_prop("fixed")
    ok = pr is not None and pr.fset is not None and "self._fixed = fixed" in _txt(pr.fset.node) and "return self._fixed" in _txt(pr.fget.node)
    R.ob("S-fixed", "ParameterFormatter.fixed", ok, (f.file, f.lineno), "the fixed property must store and return the flag")

    # ------------------------------------------------------------------ T-live
    f = get_func(p, "FitBase", "get_result_dict")
    stores = {}
    for n in ast.walk(f.node):
        if isinstance(n, ast.Assign) and isinstance(n.targets[0], ast.Subscript) and _txt(n.targets[0].value) == "_result_dict":
            k = common.const_str(n.targets[0].slice)
            stores.setdefault(k, []).append(n)
    locs = {}
    for n in ast.walk(f.node):
        if isinstance(n, ast.Assign) and isinstance(n.targets[0], ast.Name):
            locs.setdefault(n.targets[0].id, []).append(_txt(n.value))
    want = {"did_fit": "self.did_fit", "cost": "float(self.cost_function_value)", "ndf": "self.ndf", "goodness_of_fit": "self.goodness_of_fit", "chi2_probability": "self.chi2_probability",
            "parameter_values": "self.parameter_name_value_dict", "parameter_cov_mat": "self.parameter_cov_mat", "parameter_cor_mat": "self.parameter_cor_mat"}
    for k, w in want.items():
        vals = []
        for n in stores.get(k, []):
            v = _txt(n.value)
            if isinstance(n.value, ast.Name) and n.value.id in locs:
                v = locs[n.value.id][-1]
            if v != "None":
                vals.append(v)
        R.ob("T-live", "FitBase.get_result_dict:%s" % k, vals == [w], (f.file, f.lineno), "result key '%s' must be %s (found %s)" % (k, w, vals))
    src = _txt(f.node)
    R.ob("T-live", "FitBase.get_result_dict:gof/ndf", "_result_dict['gof/ndf'] = _gof / _ndf if _gof is not None else _gof" in src, (f.file, f.lineno), "gof/ndf must be the quotient of the same two numbers")
    R.ob("T-live", "FitBase.get_result_dict:parameter_errors", "for _pn, _pe in zip(self.parameter_names, self.parameter_errors): _parameter_errors[_pn] = _pe" in src
         and "_result_dict['parameter_errors'] = _parameter_errors" in src, (f.file, f.lineno), "parameter_errors must map each name to the uncertainty at the same position")
    R.ob("T-live", "FitBase.get_result_dict:asymmetric", "for _pn, _ape in zip(self.parameter_names, _asymm_errs)" in src, (f.file, f.lineno), "asymmetric errors must be keyed by the name at the same position")
    f = get_func(p, "FitBase", "_report_fit_results")
    src = _txt(f.node)
    need = {"cost": "_pf.get_formatted(value=self.cost_function_value, with_name=False, format_as_latex=False)", "gof": "_gof_value = self.goodness_of_fit",
            "gof print": "_pf.get_formatted(value=_gof_value, n_degrees_of_freedom=self.ndf, with_name=False, with_value_per_ndf=True, format_as_latex=False)",
            "probability": "_chi2_prob = self.chi2_probability", "probability print": "'%schi2 probability = %#.3g\\n\\n' % (indent * (indentation_level + 2), _chi2_prob)",
            "correlations": "for _par_name, _row in zip(par_display_names, self.parameter_cor_mat.T): _cor_mat_as_dict[_par_name] = np.atleast_1d(np.squeeze(np.asarray(_row)))",
            "names": "par_display_names = [_pf.name for _pf in self._get_model_function_parameter_formatters()]"}
    for k, w in need.items():
        R.ob("T-live", "FitBase._report_fit_results:%s" % k, w in src, (f.file, f.lineno), "the report must print %s from the live fit: `%s`" % (k, w))
    f = get_func(p, "FitYamlWriter", "_get_preface_comment")
    src = _txt(f.node)
    need = {"gof": "_gof = self._kafe_object.goodness_of_fit", "cost": "_cost = self._kafe_object.cost_function_value", "ndf": "_ndf = self._kafe_object.ndf",
            "names": "parameter_names=self._kafe_object.parameter_names", "values": "parameter_values=self._kafe_object.parameter_values", "errors": "parameter_errors=self._kafe_object.parameter_errors",
            "correlations": "parameter_cor_mat=self._kafe_object.parameter_cor_mat", "gof/ndf": "round(_gof / _ndf, _round_gof_per_ndf_sig)", "gof line": "'# %s: %s\\n' % (_gof_name, _gof)",
            "ndf line": "'# ndf: %s\\n' % _ndf"}
    for k, w in need.items():
        R.ob("T-live", "FitYamlWriter._get_preface_comment:%s" % k, w in src, (f.file, f.lineno), "the preface comment must take %s from the live fit: `%s`" % (k, w))
    f = get_func(p, None, "kafe2.tools:get_compact_representation")
    src = _txt(f.node)
    ok = "zip(parameter_names, parameter_values, parameter_errors, _cor_mat_row_strs)" in src and "_row.append(round(_par_val, _sig_fig_val))" in src and "_row.append(round(_par_err, _sig_fig_err))" in src \
        and "_sig_fig_val = max(_sig_fig_err," in src
    R.ob("T-live", "get_compact_representation:rows", ok, (f.file, f.lineno), "each row must show name, value and uncertainty of the same position; the value is rounded to at least the decimals of the uncertainty")

    # every log10 in the compact table is taken of a quantity that was tested against zero / nan on the way there
    f = get_func(p, None, "kafe2.tools:get_compact_representation")
    n_log = 0
    for c in ast.walk(f.node):
        if isinstance(c, ast.Call) and _txt(c.func) in ("np.log10", "math.log10", "log10") and c.args:
            names = [x.id for x in ast.walk(c.args[0]) if isinstance(x, ast.Name) and x.id not in ("np", "math")]
            if len(names) != 1:
                continue
            n_log += 1
            v = names[0]
            conds = common.guard_conditions(f.node, c)
            guarded = False
            for t, pol in conds:
                for cmp_ in ast.walk(t):
                    if isinstance(cmp_, ast.Compare) and isinstance(cmp_.left, ast.Name) and cmp_.left.id == v and isinstance(cmp_.comparators[0], ast.Constant) and cmp_.comparators[0].value in (0, 0.0):
                        guarded = True
            R.ob("T-live", "get_compact_representation:log10(%s)" % v, guarded, (f.file, c.lineno),
                 "the number of digits is computed from log10(|%s|) without excluding %s == 0: writing a fit whose %s is exactly zero raises OverflowError" % (v, v, v))
    if n_log < 3:
        raise AnalysisError("get_compact_representation: digit computations not found")

    # a reloaded fit shows its numbers under the right names: positional mappings keep their order in the file
    from .c09 import check_order_carrying

    check_order_carrying(eng, R, "T-live")

    # ------------------------------------------------------------------ H-dec
    SF = "kafe2.fit._base.format:ScalarFormatter"
    f = get_func(p, SF, "__init__")
    forms = {ct: x.canon() for ct, x, _ in __import__("kv.rules.formulas", fromlist=["extract"]).extract(f, "assign", "_sig")}
    want = norm_spec("int(-floor(log10(self._sigma))) + self._n_significant_digits - 1").canon()
    R.ob("H-dec", "%s.__init__:first estimate" % SF, list(forms.values()) == [want], (f.file, f.lineno), "decimals = n - 1 - floor(log10 sigma) (found %s)" % forms)
    forms = [x.canon() for ct, x, _ in __import__("kv.rules.formulas", fromlist=["extract"]).extract(f, "assign", "self._sig")]
    want2 = norm_spec("int(-floor(log10(around(self._sigma, int(-floor(log10(self._sigma))) + self._n_significant_digits - 1)))) + self._n_significant_digits - 1").canon()
    R.ob("H-dec", "%s.__init__:after rounding" % SF, forms == [want2], (f.file, f.lineno), "decimals must be recomputed from sigma rounded to the first estimate (0.99 -> 1.0 shifts the decimal place); found %s" % forms)
    f = get_func(p, SF, "__call__")
    src = _txt(f.node)
    vs = [n for n in ast.walk(f.node) if isinstance(n, ast.Assign) and _txt(n.targets[0]) == "_val_sig"]
    ok = len(vs) == 2 and Normalizer({}).norm(vs[0].value).canon() == norm_spec("int(self._sig + int(floor(_log_abs_x)) + 1)").canon() and _txt(vs[1].value) == "max(_val_sig, 0)"
    R.ob("H-dec", "%s.__call__:value digits" % SF, ok, (f.file, f.lineno),
         "significant digits of the value = decimals + floor(log10|x|) + 1, clipped at 0, independent of the digits shown for the uncertainty (found %s)" % [_txt(v.value) for v in vs])
    ok = "_rounded_x = abs(np.around(x, self._sig))" in src and "_log_abs_x = -1 if _rounded_x: _log_abs_x = np.log10(np.abs(_rounded_x))" in src \
        and "_template = '%#.{significance}g'.format(significance=_val_sig) return _template % x" in src
    R.ob("H-dec", "%s.__call__:magnitude" % SF, ok, (f.file, f.lineno), "the magnitude must be taken from the value rounded to the decimals (9.996 -> 10.0), with a fallback for zero, and the value printed with %#.<digits>g")
    f = get_func(p, "ParameterFormatter", "get_formatted")
    src = _txt(f.node)
    ok = "val_formatter = ScalarFormatter(_min_err, n_significant_digits=n_significant_digits)" in src and "_val = val_formatter(value)" in src \
        and "_err = '%#.{n}g'.format(n=n_significant_digits) % self.error" in src and "_min_err = min(abs(self.error_up), abs(self.error_down))" in src and "_min_err = self.error" in src
    R.ob("H-dec", "ParameterFormatter.get_formatted:rounding", ok, (f.file, f.lineno),
         "the value must be rounded by a ScalarFormatter built from the (smaller) uncertainty and n; the uncertainty printed with exactly n significant digits")
    ok = "_err_u = val_formatter(abs(self.error_up)) _err_d = '%#.{n}g'.format(n=n_significant_digits) % abs(self.error_down)" in src \
        and "_err_d = val_formatter(abs(self.error_down)) _err_u = '%#.{n}g'.format(n=n_significant_digits) % abs(self.error_up)" in src and "if abs(self.error_down) <= abs(self.error_up):" in src
    R.ob("H-dec", "ParameterFormatter.get_formatted:asymmetric", ok, (f.file, f.lineno), "the smaller asymmetric uncertainty gets n significant digits, the larger one the same decimals")
    f = get_func(p, "CostFunctionFormatter", "get_formatted")
    src = _txt(f.node)
    ok = "_value_string = '%.4g' % value" in src and "_value_string = '%s / %d' % (_value_string, n_degrees_of_freedom)" in src \
        and "_value_string = '%s = %.4g' % (_value_string, float(value) / n_degrees_of_freedom)" in src
    R.ob("H-dec", "CostFunctionFormatter.get_formatted", ok, (f.file, f.lineno), "the cost is printed with 4 significant digits, the ndf as integer, the quotient as value / ndf")

    # ------------------------------------------------------------------ H-exp
    fm = p.module("kafe2.fit._base.format")
    n_rx = 0
    domain = ["+%02d" % k for k in range(0, 309)] + ["-%02d" % k for k in range(1, 325)]
    consts = {}
    for n in ast.walk(fm.tree if hasattr(fm, "tree") else fm.node):
        if isinstance(n, ast.Assign) and isinstance(n.targets[0], ast.Name) and isinstance(n.value, ast.Call) and _txt(n.value.func) == "re.compile" and n.value.args and common.const_str(n.value.args[0]):
            consts[n.targets[0].id] = (common.const_str(n.value.args[0]), n.lineno)
    for n in ast.walk(fm.tree if hasattr(fm, "tree") else fm.node):
        if not isinstance(n, ast.Call) or not isinstance(n.func, ast.Attribute) or n.func.attr != "sub":
            continue
        pat, repl = None, None
        if _txt(n.func.value) == "re" and len(n.args) >= 2:
            pat, repl = common.const_str(n.args[0]), common.const_str(n.args[1])
        elif isinstance(n.func.value, ast.Name) and n.func.value.id in consts and n.args:
            pat, repl = consts[n.func.value.id][0], common.const_str(n.args[0])
        if pat is None or repl is None or "10^{" not in repl:
            continue
        n_rx += 1
        items = rxlang.parse(pat)
        before, after = rxlang.split_at_literal(items, "e")
        bad = []
        for e in domain:
            if len(e) not in rxlang.ends(after, e, {0}):
                bad.append(e)
        R.ob("H-exp", "format.py:exponent rewrite@%d" % n_rx, not bad, (fm.relpath, n.lineno),
             "the pattern %r cannot consume the exponent of e.g. %s: digits are left behind the closing brace and the displayed power of ten is wrong" % (pat, ["1e" + b for b in bad[:4]]))
        # mantissa: every %g mantissa with trailing zeros is consumed up to the 'e'
        mant = ["1", "1.5", "1.50", "2.00000", "-1.05", "-9.99999", "0.5", "1.0"]
        badm = [m for m in mant if len(m) not in rxlang.ends(before, m, {0, 1} if m.startswith("-") else {0})]
        R.ob("H-exp", "format.py:mantissa@%d" % n_rx, not badm, (fm.relpath, n.lineno), "the pattern %r cannot consume the mantissa %s in front of the exponent" % (pat, badm))
    if n_rx < 1:
        raise AnalysisError("LaTeX exponent rewrites not found in format.py")
    # both number-printing formatters apply a rewrite (directly or through a module-level helper) when LaTeX output is requested
    def has_rewrite(node):
        for c in ast.walk(node):
            if isinstance(c, ast.Call) and isinstance(c.func, ast.Attribute) and c.func.attr == "sub":
                a = [common.const_str(x) for x in c.args[:2]]
                if any(x and "10^{" in x for x in a):
                    return True
        return False

    helpers = {name for name, fn in fm.functions.items() if has_rewrite(fn.node)}
    for cname in ("ParameterFormatter", "CostFunctionFormatter"):
        f = get_func(p, cname, "get_formatted")
        ok = False
        for i in ast.walk(f.node):
            if isinstance(i, ast.If) and _txt(i.test) == "format_as_latex":
                body = ast.Module(body=i.body, type_ignores=[])
                if has_rewrite(body) or any(isinstance(c, ast.Call) and isinstance(c.func, ast.Name) and c.func.id in helpers for c in ast.walk(body)):
                    ok = True
        R.ob("H-exp", "%s.get_formatted:rewrite applied" % cname, ok, (f.file, f.lineno), "%s.get_formatted must rewrite scientific notation as a power of ten for LaTeX output" % cname)
