"""C08 - inspecting results never moves the fit: excursion brackets (R-F3), adapter cache invalidation (C-min), did-fit discipline."""
import ast

from ..effects import is_self, self_attr, walk_no_nested
from ..engine import AnalysisError, norm_stmt, path_text
from ..cfg import CFG
from . import cache, common

ADAPTERS = ["MinimizerIMinuit", "MinimizerScipyOptimize"]
# primitives that move the backend / the graph away from the optimum (receiver self unless noted)
MOVER_METHODS = {"set", "set_several", "fix", "fix_several", "_find_cost_cut", "_get_cost_value", "_get_profile_bound", "_get_arrow_specs",
                 "_calc_fun_with_constraints", "_calculate_tangential_angle"}
BACKEND_MOVERS = {"mncontour", "mnprofile", "minos", "hesse", "migrad"}
RESTORES = {"_load_state", "minimize"}
QUERIES = ["contour", "profile", "_calculate_asymmetric_parameter_errors", "hessian.fget", "hessian_inv.fget", "cov_mat.fget", "cor_mat.fget",
           "_contour_heuristic_grid", "_contour_beacon", "asymmetric_parameter_errors.fget", "function_value.fget"]


def _call_kind(eng, call):
    f = call.func
    if isinstance(f, ast.Attribute):
        if is_self(f.value):
            if f.attr in MOVER_METHODS:
                return "move", f.attr
            if f.attr in RESTORES:
                return "restore", f.attr
            if f.attr == "_save_state":
                return "save", f.attr
            if f.attr == "_func_wrapper_unpack_args" and call.args:
                a = ast.unparse(call.args[0])
                if a in ("self._par_val", "self.parameter_values"):
                    return "restore", "write-back of the stored optimum"
        if f.attr in BACKEND_MOVERS:
            return "move", "backend." + f.attr
        if f.attr == "release" and is_self(f.value):
            return "release", "release"
    # nd.Hessian(self._func_wrapper_unpack_args)(x) / nd.Gradient(...)(x): evaluates the objective at displaced points
    if isinstance(f, ast.Call) and isinstance(f.func, ast.Attribute) and f.func.attr in ("Hessian", "Gradient", "Derivative"):
        return "move", "numerical derivative (evaluates the objective at displaced points)"
    return None, None


def _classify_nodes(eng, g):
    kinds = {}
    for n in g.stmt_nodes():
        for c in eng.calls_in_parts(n.ast_parts()):
            k, what = _call_kind(eng, c)
            if k:
                kinds.setdefault(n.id, []).append((k, what, c))
    return kinds


def run(eng, R):
    p = eng.p
    R.rule("F3", "in every post-fit query of the minimizer adapters each primitive that moves the backend or the graph away from the optimum is followed on all "
                 "normal paths by a restore (return to minimum / _load_state / write-back of the stored optimum)", 12)
    R.rule("F3s", "_save_state() is taken before anything has moved and dominates every _load_state()", 4)
    R.rule("F3f", "a temporary fix(p) inside a query is released on every normal path", 2)
    R.rule("Cmin", "every adapter operation that changes the problem (set/fix/release/limit/minimize, value/error/tolerance/errordef setters) invalidates the derived caches", 16)
    R.rule("Cmin2", "_invalidate_cache clears every lazily computed field; reset additionally clears the did-fit flag; did-fit is cleared only by mutators", 6)
    R.rule("Csl", "_save_state and _load_state of each adapter handle the same fields (what is restored was saved); every save overwrites every entry", 3)
    R.rule("Cwb", "NexusFitter re-evaluates the objective at the final parameters after minimizing and sets the did-fit flag only then", 2)

    MB = p.find_class("MinimizerBase")
    for an in ADAPTERS:
        ctx = p.find_class(an)
        for q in QUERIES:
            if "." in q:
                pr = ctx.find_prop(q.split(".")[0])
                f = pr.fget if pr else None
            else:
                f = ctx.find_method(q)
            if f is None:
                continue
            g = eng.cfg(f)
            kinds = _classify_nodes(eng, g)
            movers = [nid for nid, ks in kinds.items() if any(k == "move" for k, _, _ in ks)]
            restores = {nid for nid, ks in kinds.items() if any(k == "restore" for k, _, _ in ks)}
            saves = [nid for nid, ks in kinds.items() if any(k == "save" for k, _, _ in ks)]
            loads = [nid for nid, ks in kinds.items() if any(w == "_load_state" for _, w, _ in ks)]
            if not movers:
                R.ob("F3", "%s:%s" % (an, f.qualname), True, eng.where(f), "%s moves nothing" % f.qualname, nontrivial=False)
            for nid in movers:
                n = g.nodes[nid]
                what = [w for k, w, _ in kinds[nid] if k == "move"][0]
                # a node that both moves and restores (e.g. `x = self._find_cost_cut(...)` then restore later) needs a later restore
                need = restores
                # after a snapshot was taken, only loading it brings the backend back (a write-back of values alone does not)
                if saves and all(g.dominated_by(nid, lambda m: m.id in saves)[0] for _ in (0,)):
                    need = set(loads)
                ok, wit = g.all_paths_pass(nid, lambda m: m.id in need and m.id != nid)
                R.ob("F3", "%s:%s:%s" % (an, f.qualname, what), ok, eng.where(f, n.stmt),
                     "%s (as %s): after `%s` (%s) a normal path reaches the end of the query without returning to the optimum: %s - parameter values, cost and "
                     "cached results of the fit are left at the excursion point" % (f.qualname, an, norm_stmt(n.stmt)[:70], what, path_text(f, wit or [])[:8]))
            if saves or loads:
                for nid in loads:
                    ok, _ = g.dominated_by(nid, lambda m: m.id in saves)
                    R.ob("F3s", "%s:%s:load dominated by save" % (an, f.qualname), ok, eng.where(f, g.nodes[nid].stmt), "%s restores a state that was not saved in this query" % f.qualname)
                for nid in saves:
                    # no mover may be reachable before the save
                    pth = g.find_path(g.entry.id, lambda m: m.id == nid, exceptional=False, strict=False)
                    before = [m for m in movers if m != nid and g.find_path(m, lambda k: k.id == nid, exceptional=False) is not None
                              and g.find_path(g.entry.id, lambda k, m=m: k.id == m, exceptional=False, avoid=lambda k: k.id == nid, strict=False) is not None]
                    R.ob("F3s", "%s:%s:save first" % (an, f.qualname), not before, eng.where(f, g.nodes[nid].stmt),
                         "%s (as %s) takes the snapshot after `%s` has already moved the minimizer: the state restored later is the excursion point, not the optimum" % (
                             f.qualname, an, norm_stmt(g.nodes[before[0]].stmt)[:70] if before else ""))
        # Cmin: mutators invalidate
        for name in ("set", "fix", "release", "limit", "unlimit", "minimize", "parameter_values.fset", "parameter_errors.fset", "tolerance.fset", "errordef.fset"):
            if "." in name:
                pr = ctx.find_prop(name.split(".")[0])
                f = pr.fset if pr else None
            else:
                f = ctx.find_method(name)
            if f is None:
                raise AnalysisError("%s.%s not found" % (an, name))

            def invalidates(n):
                return eng.node_calls_self_method(n, {"_invalidate_cache", "reset"})

            if name in ("limit", "unlimit") and an == "MinimizerScipyOptimize":
                # bounds are read only by the next minimize(); no cached result depends on them (an optimum inside new limits stays valid)
                R.ob("Cmin", "%s.%s" % (an, name), True, eng.where(f), "bounds are consumed only by the next minimization", nontrivial=False)
                continue
            ok = eng.must_call(ctx, f, invalidates)
            R.ob("Cmin", "%s.%s" % (an, name), ok, eng.where(f), "%s.%s changes the problem but keeps the cached function value / Hessian / covariance / asymmetric errors" % (an, name))
        # save/load symmetry
        sv, ld = ctx.find_method("_save_state"), ctx.find_method("_load_state")
        saved = {common.const_str(s.slice) for n in ast.walk(sv.node) if isinstance(n, ast.Assign) for s in n.targets if isinstance(s, ast.Subscript) and self_attr(s.value) == "_save_state_dict"}
        loaded = {common.const_str(s.slice) for s in ast.walk(ld.node) if isinstance(s, ast.Subscript) and self_attr(s.value) == "_save_state_dict" and isinstance(s.ctx, ast.Load)}
        R.ob("Csl", "%s:save/load keys" % an, loaded <= saved and bool(loaded), eng.where(ld), "%s._load_state reads %s which _save_state does not store" % (an, sorted(loaded - saved)))
        for which, f in (("_save_state", sv), ("_load_state", ld)):
            sup = any(isinstance(c, ast.Call) and isinstance(c.func, ast.Attribute) and c.func.attr == which and isinstance(c.func.value, ast.Call) and isinstance(c.func.value.func, ast.Name) and c.func.value.func.id == "super" for c in ast.walk(f.node))
            R.ob("Csl", "%s.%s:super" % (an, which), sup, eng.where(f), "%s.%s does not chain to the base class (generic caches are not %s)" % (an, which, "saved" if which == "_save_state" else "restored"))

    check_snapshot_complete(eng, R, "Csl")

    # ---- _load_state writes the restored parameter values back to the graph on every path (seed s122)
    with R.guard("_load_state writes the restored values back on every path"):
        R.rule("Cwb-load", "every path through _load_state of the base class hands the restored parameter values to the objective wrapper (graph and backend "
               "agree after an excursion that only called set()); every adapter's _load_state reaches the base class on every path", 3)
        WB = {"_func_wrapper_unpack_args", "_func_wrapper", "_func_handle"}
        for an in ["MinimizerBase"] + list(ADAPTERS):
            cls = p.find_class(an)
            f = cls.methods.get("_load_state")
            if f is None:
                continue
            g = eng.cfg(f)

            def is_wb_load(n, base=(an == "MinimizerBase")):
                for c in eng.calls_in_parts(n.ast_parts()):
                    if not isinstance(c.func, ast.Attribute):
                        continue
                    if base and c.func.attr in WB and is_self(c.func.value):
                        return True
                    if not base and c.func.attr == "_load_state" and isinstance(c.func.value, ast.Call) and isinstance(c.func.value.func, ast.Name) and c.func.value.func.id == "super":
                        return True
                return False

            ok, _ = g.all_paths_pass(g.entry.id, is_wb_load)
            R.ob("Cwb-load", "%s._load_state:write-back" % an, ok, eng.where(f),
                 "%s._load_state has a path that does not %s: after an excursion that moved the graph without re-minimising (asymmetric errors of a single free "
                 "parameter with the scipy adapter call only set()) the backend is back at the optimum and the graph stays at the last probed point"
                 % (an, "call the objective wrapper with the restored parameter values" if an == "MinimizerBase" else "reach MinimizerBase._load_state"))

    # ---- the snapshot shares no mutable object with the live state
    with R.guard("the snapshot shares no mutable object with the live state"):
        from . import c08_alias
        R.rule("Calias", "a field that an adapter changes in place is copied into the snapshot by _save_state and copied out of it by _load_state: no store "
               "after a save / load can write into the snapshot", 5)
        c08_alias.check(eng, R, "Calias", ["MinimizerBase"] + list(ADAPTERS))

    # ---- nobody keeps a reference to a fit's fitter / minimizer: the fit replaces them (MultiFit members, first shared error) and a kept one still writes into the shared nodes
    with R.guard("nobody keeps a reference to a fit's fitter / minimizer: the "):
        R.rule("Cref", "objects working on a fit (profiler, plots, wrappers) reach its fitter / minimizer through the fit at the time of the query; none stores the reference", 1)
        fitbase = p.find_class("FitBase")
        n_cls = 0
        for m in p.modules.values():
            for cls in m.classes.values():
                if fitbase in cls.mro or cls.name in ("NexusFitter",) or cls.name.startswith("Minimizer"):
                    continue
                uses = any("_fitter" in ast.unparse(fn.node) for fn in cls.methods.values())
                if not uses:
                    continue
                n_cls += 1
                bad = []
                for fn in cls.methods.values():
                    for a in ast.walk(fn.node):
                        if isinstance(a, ast.Assign) and any(self_attr(t) for t in a.targets):
                            v = a.value
                            chain = []
                            while isinstance(v, ast.Attribute):
                                chain.append(v.attr)
                                v = v.value
                            if any(x in ("_fitter", "_minimizer", "minimizer") for x in chain):
                                bad.append("%s: %s" % (fn.qualname, " ".join(ast.unparse(a).split())[:70]))
                R.ob("Cref", cls.name, not bad, (m.relpath, 0),
                     "%s keeps a reference to a fit's fitter / minimizer (%s): after the fit replaced it, queries go to the discarded object, which accepts them and writes its old "
                     "minimum back into the fit's parameter nodes" % (cls.name, "; ".join(bad)))
        if n_cls < 1:
            raise AnalysisError("Cref: no class outside the fit hierarchy uses a fit's fitter")

    # ---- generic helpers of MinimizerBase (analysed for both adapters' contexts through the queries above) + fix/release pairing
    with R.guard("generic helpers of MinimizerBase (analysed for both adapters"):
        for fn in ("_get_cost_value",):
            f = p.method(MB, fn)
            _fix_release(eng, R, f, f.node)
        fc = p.method(MB, "_find_cost_cut")
        nested = [n for n in fc.node.body if isinstance(n, ast.FunctionDef)]
        if not nested:
            raise AnalysisError("_find_cost_cut: nested profile function not found")
        _fix_release(eng, R, fc, nested[0])

    # ---- Cmin2
    with R.guard("Cmin2"):
        inv = p.method(MB, "_invalidate_cache")
        cleared = {self_attr(t) for n in ast.walk(inv.node) if isinstance(n, ast.Assign) and isinstance(n.value, ast.Constant) and n.value.value is None for t in n.targets}
        lazy = set()
        for pr in MB.props.values():
            if pr.fget is None:
                continue
            for n in ast.walk(pr.fget.node):
                if isinstance(n, ast.If) and isinstance(n.test, ast.Compare) and isinstance(n.test.ops[0], ast.Is) and isinstance(n.test.comparators[0], ast.Constant) and n.test.comparators[0].value is None:
                    a = self_attr(n.test.left)
                    if a:
                        lazy.add(a)
        R.ob("Cmin2", "MinimizerBase._invalidate_cache", lazy <= cleared and len(lazy) >= 5, eng.where(inv), "_invalidate_cache does not clear the lazily computed fields %s" % sorted(lazy - cleared))
        rs = p.method(MB, "reset")
        src = ast.unparse(rs.node)
        R.ob("Cmin2", "MinimizerBase.reset", "self._invalidate_cache()" in src and "self._did_fit = False" in src, eng.where(rs), "reset must invalidate the caches and clear the did-fit flag")
        im = p.find_class("MinimizerIMinuit")
        iinv = p.method(im, "_invalidate_cache")
        src = ast.unparse(iinv.node)
        R.ob("Cmin2", "MinimizerIMinuit._invalidate_cache", all(x in src for x in ("self._par_val = None", "self._par_err = None", "self._fmin_struct = None", "_invalidate_cache()")), eng.where(iinv),
             "the iminuit adapter's _invalidate_cache must clear its own value/error/fmin caches and chain to the base class")
        irs = p.method(im, "reset")
        src = ast.unparse(irs.node)
        R.ob("Cmin2", "MinimizerIMinuit.reset", "reset()" in src and "__iminuit = None" in src, eng.where(irs), "the iminuit adapter's reset must drop the backend object and chain to the base class")
        # did-fit cleared only by mutators / restored by _load_state
        for an in ADAPTERS + ["MinimizerBase"]:
            ctx = p.find_class(an)
            for f in cache.visible_functions(ctx):
                if f.cls is not ctx:
                    continue
                for n in ast.walk(f.node):
                    if isinstance(n, ast.Assign) and any(self_attr(t) == "_did_fit" for t in n.targets):
                        val = ast.unparse(n.value)
                        allowed = f.name in ("__init__", "reset", "minimize", "_load_state")
                        R.ob("Cmin2", "%s:_did_fit=%s" % (f.qualname, val[:30]), allowed, eng.where(f, n), "%s writes the did-fit flag (%s) outside reset/minimize/_load_state" % (f.qualname, val))

    # ---- NexusFitter write-back
    with R.guard("NexusFitter writeback"):
        NF = p.find_class("NexusFitter")
        mn = p.method(NF, "_minimize")
        g = eng.cfg(mn)

        def is_min(n):
            return any(isinstance(c.func, ast.Attribute) and c.func.attr == "minimize" and self_attr(c.func.value) == "_minimizer" for c in eng.calls_in_parts(n.ast_parts()))

        def is_wb(n):
            return any(isinstance(c.func, ast.Attribute) and c.func.attr == "_fcn_wrapper" and is_self(c.func.value) for c in eng.calls_in_parts(n.ast_parts()))

        def sets_flag(n):
            st = n.stmt
            return n.kind == "stmt" and isinstance(st, ast.Assign) and any(self_attr(t) == "__state_is_from_minimizer" for t in st.targets) and isinstance(st.value, ast.Constant) and st.value.value is True

        mins = [n for n in g.stmt_nodes() if is_min(n)]
        ok = bool(mins) and all(g.all_paths_pass(n.id, is_wb)[0] for n in mins)
        R.ob("Cwb", "NexusFitter._minimize:write-back", ok, eng.where(mn), "after minimizing the graph is not re-evaluated at the minimizer's final parameter values (graph and backend can disagree)")
        flags = [n for n in g.stmt_nodes() if sets_flag(n)]
        ok = bool(flags) and all(g.dominated_by(n.id, is_min)[0] for n in flags)
        R.ob("Cwb", "NexusFitter._minimize:flag", ok, eng.where(mn), "the did-fit flag must be set only after the minimization")
        wb = p.method(NF, "_fcn_wrapper")
        src = ast.unparse(wb.node)
        R.ob("Cwb", "NexusFitter._fcn_wrapper", "_par.value = _new_value" in src and "zip(self._fit_pars, fit_par_value_list)" in src and "return self._min_par.value" in src, eng.where(wb),
             "the objective wrapper must assign every fit parameter node and return the value of the node being minimised")

def _fix_release(eng, R, f, node):
    g = CFG(node)
    fixes, rels = [], set()
    for n in g.stmt_nodes():
        for c in eng.calls_in_parts(n.ast_parts()):
            if isinstance(c.func, ast.Attribute) and is_self(c.func.value):
                if c.func.attr == "fix":
                    fixes.append((n, ast.unparse(c.args[0]) if c.args else ""))
                elif c.func.attr == "release":
                    rels.add((n.id, ast.unparse(c.args[0]) if c.args else ""))
    if not fixes:
        raise AnalysisError("%s: temporary fix() not found" % f.qualname)
    for n, arg in fixes:
        rel_ids = {nid for nid, a in rels if a == arg}
        ok, wit = g.all_paths_pass(n.id, lambda m: m.id in rel_ids)
        R.ob("F3f", "%s:fix(%s)" % (f.qualname, arg), ok, (f.file, n.lineno), "%s fixes `%s` for the excursion and can return without releasing it: the parameter stays fixed in the fit" % (f.qualname, arg))


def check_snapshot_complete(eng, R, rule):
    """Every entry of the snapshot dictionary is (over)written by every save: a store that can be skipped (e.g. only when the cache is not None) leaves the
    entry of an earlier save in place, and the next load revives results of an earlier fit state."""
    p = eng.p
    n_stores = 0
    for an in ["MinimizerBase"] + list(ADAPTERS):
        cls = p.find_class(an)
        sv = cls.lookup("_save_state")
        f = cls.find_method("_save_state")
        if f is None or f.cls is not cls:
            continue
        g = eng.cfg(f)
        stores = []
        for n in g.nodes:
            st = n.stmt
            if n.kind == "stmt" and isinstance(st, ast.Assign):
                for t in st.targets:
                    if isinstance(t, ast.Subscript) and self_attr(t.value) == "_save_state_dict":
                        stores.append((n, " ".join(ast.unparse(t.slice).split())))
        for n, key in stores:
            n_stores += 1
            same = {m.id for m, k in stores if k == key}
            loops = [l for l in ast.walk(f.node) if isinstance(l, (ast.For, ast.While)) and any(x is n.stmt for x in ast.walk(l))]
            if loops:
                head = [m for m in g.nodes if m.kind == "for" and m.stmt is loops[-1]]
                if not head:
                    raise AnalysisError("%s._save_state: loop head not found" % an)
                # every path through one iteration (head -> head) passes a store of this key
                path = g.find_path(head[0].id, lambda m: m.id == head[0].id, exceptional=False, avoid=lambda m: m.id in same)
                ok = path is None or len(path) <= 1
            else:
                ok, _ = g.all_paths_pass(g.entry.id, lambda m: m.id in same)
            R.ob(rule, "%s._save_state:%s" % (an, key), ok, (f.file, n.lineno),
                 "%s._save_state can skip the entry %s: the entry of an earlier snapshot survives and the next _load_state restores results of an earlier fit state" % (an, key))
    if n_stores < 10:
        raise AnalysisError("snapshot stores not found (%d)" % n_stores)
