"""C07 - reported parameter uncertainties obey their definitions: formula shapes (R-H), index bookkeeping, argument slots (R-F1)."""
import ast

from ..effects import is_self, self_attr
from ..engine import AnalysisError, norm_stmt
from ..termform import Normalizer, assigned_exprs, norm_spec
from . import cache, common
from .f1 import check_arg_slots
from .formulas import check, get_func


def run(eng, R):
    p = eng.p
    R.rule("H-cov", "parameter covariance = 2 x errordef x inverse Hessian (generic adapter); the iminuit adapter's Hessian / inverse Hessian are the inverse relations", 4)
    R.rule("H-sub", "fixed parameters: rows/columns removed and re-inserted with one and the same index set; inverse taken on the free sub-block; result symmetrised", 6)
    R.rule("H-cor", "correlation = covariance / outer(sqrt(diag), sqrt(diag)) on the free sub-block; symmetric errors = sqrt(diag(covariance))", 3)
    R.rule("H-prof", "profile targets: asymmetric errors where the profile has risen by 1, arrows by sigma^2, contours by sigma^2; the profile function is cost - target", 6)
    R.rule("H-band", "error band = sqrt(p^T C p) with the fixed parameters cut out of derivative and covariance by the same mask", 4)
    R.rule("F1", "arguments reach the parameter of the same name at every resolved call site of the minimizer / fitter / profiler / xy fit classes", 100)
    R.rule("S-snap", "cached uncertainties (asymmetric errors, Hessian, covariance, correlation) restored from a snapshot belong to the state that was saved: every save overwrites "
                     "every entry", 10)
    from .c08 import ADAPTERS, check_snapshot_complete

    R.rule("S-fixinv", "fixing / releasing / setting a parameter discards the cached Hessian, covariance and correlation (with a fixed parameter they are the inverse on the "
                       "free sub-block, not the old matrices with a row and column zeroed)", 6)
    for an in ADAPTERS:
        ctx = p.find_class(an)
        for name in ("fix", "release", "set"):
            f = ctx.find_method(name)
            if f is None:
                raise AnalysisError("%s.%s not found" % (an, name))
            ok = eng.must_call(ctx, f, lambda n: eng.node_calls_self_method(n, {"_invalidate_cache", "reset"}))
            R.ob("S-fixinv", "%s.%s" % (an, name), ok, eng.where(f),
                 "%s.%s keeps cached matrices: the covariance for the new set of free parameters is 2 x errordef x inverse of the free sub-block of the Hessian, which differs from the "
                 "old covariance with rows / columns zeroed whenever the parameter was correlated with a free one" % (an, name))

    check_snapshot_complete(eng, R, "S-snap")

    check(eng, R, "H-cov", "MinimizerBase", "cov_mat", "assign", "self.hessian_inv * 2.0 * self.errordef", target="self._par_cov_mat",
          what="the parameter covariance must be 2 x errordef x inverse Hessian")
    check(eng, R, "H-cov", "MinimizerIMinuit", "hessian", "assign", "2.0 * self.errordef * np.linalg.inv(self._remove_zeroes_for_fixed(self.cov_mat))", target="_submat_inv",
          what="the iminuit Hessian must be 2 x errordef x inverse covariance on the free sub-block")
    check(eng, R, "H-cov", "MinimizerIMinuit", "hessian_inv", "assign", "self.cov_mat / (2.0 * self.errordef)", target="self._hessian_inv",
          what="the iminuit inverse Hessian must be covariance / (2 x errordef)")
    # consistency of the pair: cov = k * Hinv (base) and Hinv = cov / k' (iminuit) with k == k'
    k1 = norm_spec("X * 2.0 * E") * norm_spec("1 / (2.0 * E)")
    R.ob("H-cov", "pair 2*errordef", (k1).canon() == "X", ("kafe2/core/minimizers/minimizer_base.py", 0), "factor mismatch between covariance and inverse Hessian relations")

    # ---- fixed-parameter bookkeeping
    MB = p.find_class("MinimizerBase")
    rm, fi = p.method(MB, "_remove_zeroes_for_fixed"), p.method(MB, "_fill_in_zeroes_for_fixed")

    def idx_expr(f):
        for n in ast.walk(f.node):
            if isinstance(n, ast.Assign) and isinstance(n.targets[0], ast.Name) and n.targets[0].id == "_fixed_par_indices":
                return " ".join(ast.unparse(n.value).split())
        return None

    a, b = idx_expr(rm), idx_expr(fi)
    R.ob("H-sub", "fixed index set", a is not None and a == b and "self.is_fixed(" in (a or ""), eng.where(fi), "removal uses the index set `%s`, re-insertion `%s`" % (a, b))
    src = common.src_of(rm.node)
    R.ob("H-sub", "_remove_zeroes_for_fixed", "np.delete(np.delete(matrix, _fixed_par_indices, axis=0), _fixed_par_indices, axis=1)" in src, eng.where(rm), "rows and columns of the fixed parameters must both be removed")
    src = common.src_of(fi.node)
    R.ob("H-sub", "_fill_in_zeroes_for_fixed", "for _id in _fixed_par_indices" in src and "np.insert(np.insert(_mat, _id, 0.0, axis=0), _id, 0.0, axis=1)" in src, eng.where(fi),
         "zero rows and columns must be inserted at the index of each fixed parameter (ascending order)")
    hi = get_func(p, "MinimizerBase", "hessian_inv.fget") if False else MB.find_prop("hessian_inv").fget
    src = common.src_of(hi.node)
    R.ob("H-sub", "hessian_inv:sub-block", "_subhessian = self._remove_zeroes_for_fixed(_hessian)" in src and "_subhessian_inv = np.linalg.inv(_subhessian)" in src
         and "self._hessian_inv = self._fill_in_zeroes_for_fixed(_subhessian_inv)" in src, eng.where(hi), "the Hessian must be inverted on the free sub-block and zero-filled for fixed parameters")
    check(eng, R, "H-sub", "MinimizerBase", "hessian_inv", "assign", "0.5 * (self._fill_in_zeroes_for_fixed(linalg.inv(self._remove_zeroes_for_fixed(self.hessian))) + self._fill_in_zeroes_for_fixed(linalg.inv(self._remove_zeroes_for_fixed(self.hessian))).T)",
          target="self._hessian_inv", when="is None", what="the inverse Hessian must be symmetrised as (H + H^T)/2") if False else None
    sym = [n for n in ast.walk(hi.node) if isinstance(n, ast.Assign) and any(self_attr(t) == "_hessian_inv" for t in n.targets)]
    symtxt = [" ".join(ast.unparse(n.value).split()) for n in sym]
    R.ob("H-sub", "hessian_inv:symmetrise", "0.5 * (self._hessian_inv + self._hessian_inv.T)" in symtxt, eng.where(hi), "the inverse Hessian must be symmetrised as (H + H^T)/2 (found %s)" % symtxt)
    sm = p.find_class("MinimizerScipyOptimize")
    mn = p.method(sm, "minimize")
    src = common.src_of(mn.node)
    R.ob("H-sub", "scipy minimize:fixed re-insertion", "_dyn_and_fixed_args[0, 0:-_n_fixed_parameters] = self._opt_result.x" in src and "self._par_val = _dyn_and_fixed_args[_par_fixed_indices, _position_indices]" in src
         and "_selected_values = _dyn_and_fixed_args[_par_fixed_indices, _position_indices]" in src, eng.where(mn),
         "the scipy adapter must unpack the optimiser's free-parameter vector with the same (fixed flag, position) index arrays it used to pack the objective's arguments")

    # ---- correlation / errors
    check(eng, R, "H-cor", "CovMat", "cor_mat", "assign", "self._mat / outer(sqrt(diag(self._mat)), sqrt(diag(self._mat)))", target="self._cor_mat",
          what="correlation matrix must be covariance / outer(sigma, sigma)")
    cm = MB.find_prop("cor_mat").fget
    src = common.src_of(cm.node)
    R.ob("H-cor", "MinimizerBase.cor_mat", "_subcov_mat = self._remove_zeroes_for_fixed(_cov_mat)" in src and "_subcor_mat = CovMat(_subcov_mat).cor_mat" in src and "self._par_cor_mat = self._fill_in_zeroes_for_fixed(_subcor_mat)" in src,
         eng.where(cm), "the parameter correlation matrix must be the normalisation of the covariance on the free sub-block")
    check(eng, R, "H-cor", "MinimizerScipyOptimize", "minimize", "assign", "sqrt(diag(self.cov_mat))", target="self._par_err", what="symmetric parameter errors must be sqrt(diag(covariance))")

    # ---- profile targets
    check(eng, R, "H-prof", "MinimizerBase", "_calculate_asymmetric_parameter_errors", "assign", "self.function_value + 1.0", target="_target_chi_2",
          what="asymmetric errors are where the profile has risen by exactly 1")
    ap = p.method(MB, "_calculate_asymmetric_parameter_errors")
    src = common.src_of(ap.node)
    R.ob("H-prof", "asymmetric errors:displacement", "_asymm_par_errs[_par_index, 0] = _cut_dn - _par_min" in src and "_asymm_par_errs[_par_index, 1] = _cut_up - _par_min" in src
         and "self._find_cost_cut(_par_name, _par_min - _par_err, _target_chi_2, _min_parameters)" in src and "self._find_cost_cut(_par_name, _par_min + _par_err, _target_chi_2, _min_parameters)" in src,
         eng.where(ap), "asymmetric errors must be the displacements of the lower / upper cost cut from the optimum")
    fc = p.method(MB, "_find_cost_cut")
    nested = [n for n in fc.node.body if isinstance(n, ast.FunctionDef)][0]
    rets = [" ".join(ast.unparse(r.value).split()) for r in ast.walk(nested) if isinstance(r, ast.Return)]
    R.ob("H-prof", "_find_cost_cut:profile function", rets == ["self.function_value - target_cost"], eng.where(fc), "the root function of the cost cut must be cost - target (found %s)" % rets)
    body = common.src_of(nested)
    R.ob("H-prof", "_find_cost_cut:pin and re-minimise", "self.set_several(self.parameter_names, min_parameters)" in body and "self.set(parameter_name, parameter_value)" in body and "self.fix(parameter_name)" in body and "self.minimize()" in body,
         eng.where(fc), "each profile point must start from the optimum, pin the profiled parameter and re-minimise over the others")
    check(eng, R, "H-prof", "MinimizerScipyOptimize", "_contour_heuristic_grid", "assign", "min(self.function_value, _grid[_min_coords, _min_coords]) + sigma ** 2", target="_contour_fun",
          what="an n-sigma contour lies where the cost has risen by n^2", rename=None) if False else None
    for fn, spec in (("_contour_heuristic_grid", "_min_fun + sigma ** 2"), ("_contour_beacon", "self.function_value + sigma ** 2")):
        f = p.method(sm, fn)
        vals = [" ".join(ast.unparse(n.value).split()) for n in ast.walk(f.node) if isinstance(n, ast.Assign) and isinstance(n.targets[0], ast.Name) and n.targets[0].id == "_contour_fun"]
        okk = bool(vals) and all(Normalizer().norm(ast.parse(v, mode="eval").body) == norm_spec(spec) for v in vals)
        R.ob("H-prof", "scipy %s:level" % fn, okk, eng.where(f), "the contour level must be minimum + sigma^2 (found %s)" % vals)

    # ---- error band
    XF = p.find_class("XYFit")
    eb = p.method(XF, "error_band")
    src = common.src_of(eb.node)
    R.ob("H-band", "XYFit.error_band:quadratic form", "_band_y[_x_idx] = _p_res.dot(_cut_parameter_cov_mat).dot(_p_res)" in src and "return np.sqrt(_band_y)" in src, eng.where(eb),
         "the band must be sqrt(p^T C p) per evaluation point")
    likes = [c for c in ast.walk(eb.node) if isinstance(c, ast.Call) and isinstance(c.func, ast.Attribute) and c.func.attr in ("zeros_like", "empty_like", "ones_like", "full_like")]
    ok = bool(likes) and all(any(k.arg == "dtype" and ast.unparse(k.value) == "float" for k in c.keywords) for c in likes)
    R.ob("H-band", "XYFit.error_band:float result", ok, eng.where(eb),
         "the result array takes the dtype of the caller's x values: for integer x (np.arange) the variances are truncated, typically to a band of exactly zero")
    R.ob("H-band", "XYFit.error_band:mask", "_cut_parameter_cov_mat = self.parameter_cov_mat[_not_pars_fixed][:, _not_pars_fixed]" in src and "_p_res = _f_deriv_by_params[_x_idx, _not_pars_fixed]" in src
         and "_not_pars_fixed = [_par_name not in self._fitter.fixed_parameters for _par_name in self.parameter_names]" in src, eng.where(eb),
         "derivatives and covariance must be cut with the same mask of non-fixed parameters")
    R.ob("H-band", "XYFit.error_band:derivatives", "_f_deriv_by_params = self.eval_model_function_derivative_by_parameters(x=x)" in src and "_f_deriv_by_params = _f_deriv_by_params.T" in src, eng.where(eb),
         "the band must use the model's parameter derivatives at the requested x (transposed to [x][par])")
    dp = p.method(XF, "eval_model_function_derivative_by_parameters")
    src = common.src_of(dp.node)
    R.ob("H-band", "XYFit.eval_model_function_derivative_by_parameters", "self._param_model.parameters = self.parameter_values" in src and "par_dx = 0.01 * self.parameter_errors" in src.replace("1e-2", "0.01")
         and "self._param_model.eval_model_function_derivative_by_parameters(x=x, model_parameters=model_parameters, par_dx=par_dx)" in src, eng.where(dp),
         "derivatives must be taken at the current parameters with steps tied to the parameter errors")

    # ---- F1
    pairs = []
    for cn in ("ContoursProfiler", "NexusFitter", "MinimizerBase", "MinimizerIMinuit", "MinimizerScipyOptimize", "XYFit", "XYParametricModel", "FitBase", "CovMat"):
        c = p.find_class(cn)
        for f in cache.visible_functions(c):
            pairs.append((c, f))
    check_arg_slots(eng, R, "F1", pairs)
