"""C07 - reported parameter uncertainties obey their definitions: formula shapes (R-H), index bookkeeping, argument slots (R-F1)."""
import ast

from ..effects import is_self, self_attr
from ..engine import AnalysisError, norm_stmt
from ..termform import Normalizer, assigned_exprs, norm_spec
from . import cache, common
from .f1 import check_arg_slots
from .formulas import check, get_func


def run(eng, R):
    p = eng.p
    R.rule("H-cov", "parameter covariance = 2 x errordef x inverse Hessian (generic adapter); the iminuit adapter's Hessian / inverse Hessian are the inverse relations", 4)
    R.rule("H-sub", "fixed parameters: rows/columns removed and re-inserted with one and the same index set; inverse taken on the free sub-block; result symmetrised", 6)
    R.rule("H-cor", "correlation = covariance / outer(sqrt(diag), sqrt(diag)) on the free sub-block; symmetric errors = sqrt(diag(covariance))", 3)
    R.rule("H-prof", "profile targets: asymmetric errors where the profile has risen by 1, arrows by sigma^2, contours by sigma^2; the profile function is cost - target", 6)
    R.rule("H-band", "error band = sqrt(p^T C p) with the fixed parameters cut out of derivative and covariance by the same mask", 4)
    R.rule("F1", "arguments reach the parameter of the same name at every resolved call site of the minimizer / fitter / profiler / xy fit classes", 100)
    R.rule("S-snap", "cached uncertainties (asymmetric errors, Hessian, covariance, correlation) restored from a snapshot belong to the state that was saved: every save overwrites "
                     "every entry", 10)
    from .c08 import ADAPTERS, check_snapshot_complete

    R.rule("S-fixinv", "fixing / releasing / setting a parameter discards the cached Hessian, covariance and correlation (with a fixed parameter they are the inverse on the "
                       "free sub-block, not the old matrices with a row and column zeroed)", 6)
    for an in ADAPTERS:
        ctx = p.find_class(an)
        for name in ("fix", "release", "set"):
            f = ctx.find_method(name)
            if f is None:
                raise AnalysisError("%s.%s not found" % (an, name))
            ok = eng.must_call(ctx, f, lambda n: eng.node_calls_self_method(n, {"_invalidate_cache", "reset"}))
            R.ob("S-fixinv", "%s.%s" % (an, name), ok, eng.where(f),
                 "%s.%s keeps cached matrices: the covariance for the new set of free parameters is 2 x errordef x inverse of the free sub-block of the Hessian, which differs from the "
                 "old covariance with rows / columns zeroed whenever the parameter was correlated with a free one" % (an, name))

    check_snapshot_complete(eng, R, "S-snap")

    check(eng, R, "H-cov", "MinimizerBase", "cov_mat", "assign", "self.hessian_inv * 2.0 * self.errordef", target="self._par_cov_mat",
          what="the parameter covariance must be 2 x errordef x inverse Hessian")
    from .formulas import extract, get_func as _gf
    _hf = _gf(p, "MinimizerIMinuit", "hessian")
    HSPEC = "self._fill_in_zeroes_for_fixed(2.0 * self.errordef * np.linalg.inv(self._remove_zeroes_for_fixed(self.cov_mat)))"
    if any("ifelse(" in x.canon() for _, x, _ in extract(_hf, "store", "self._hessian", node=eng.cnode(_hf, inline=False))):
        # `None if no covariance else ...` written as one conditional value
        check(eng, R, "H-cov", "MinimizerIMinuit", "hessian", "store", "None if self.cov_mat is None else " + HSPEC, target="self._hessian", not_none=False,
              what="the iminuit Hessian must be 2 x errordef x inverse covariance on the free sub-block", inline_helpers=False)
    else:
        check(eng, R, "H-cov", "MinimizerIMinuit", "hessian", "store", HSPEC, target="self._hessian", when=["not (self.cov_mat is None)"],
              what="the iminuit Hessian must be 2 x errordef x inverse covariance on the free sub-block", inline_helpers=False)
    check(eng, R, "H-cov", "MinimizerIMinuit", "hessian_inv", "assign", "self.cov_mat / (2.0 * self.errordef)", target="self._hessian_inv",
          what="the iminuit inverse Hessian must be covariance / (2 x errordef)")
    # consistency of the pair: cov = k * Hinv (base) and Hinv = cov / k' (iminuit) with k == k'
    k1 = norm_spec("X * 2.0 * E") * norm_spec("1 / (2.0 * E)")
    R.ob("H-cov", "pair 2*errordef", (k1).canon() == "X", ("kafe2/core/minimizers/minimizer_base.py", 0), "factor mismatch between covariance and inverse Hessian relations")

    # ---- fixed-parameter bookkeeping
    with R.guard("fixedparameter bookkeeping"):
        MB = p.find_class("MinimizerBase")
        rm, fi = p.method(MB, "_remove_zeroes_for_fixed"), p.method(MB, "_fill_in_zeroes_for_fixed")

        # canonical forms; `_fx` (index list of the fixed parameters), `_i`, `_n`, `_m`, `_k` are placeholders for whatever the locals are called
        FX = "[_i for _i, _n in enumerate(self._par_names) if self.is_fixed(_n)]"
        srm, sfi = eng.csrc(rm), eng.csrc(fi)
        a = srm.like("_fx = " + FX) or srm.like(FX)
        b = sfi.like("for _k in %s:" % FX) or sfi.all_like("_fx = " + FX, "for _k in _fx:")
        R.ob("H-sub", "fixed index set", bool(a and b), eng.where(fi), "removal and re-insertion must both use the indices of the parameters for which is_fixed(name) holds, in ascending order")
        R.ob("H-sub", "_remove_zeroes_for_fixed", srm.like("return np.delete(np.delete(matrix, _fx, axis=0), _fx, axis=1)"), eng.where(rm), "rows and columns of the fixed parameters must both be removed")
        R.ob("H-sub", "_fill_in_zeroes_for_fixed", sfi.all_like("_m = np.insert(np.insert(_m, _k, 0.0, axis=0), _k, 0.0, axis=1)", "return _m") and common.like_any(sfi, ["_m = submatrix"]), eng.where(fi),
             "zero rows and columns must be inserted at the index of each fixed parameter (ascending order)")
        hi = MB.find_prop("hessian_inv").fget
        shi = eng.csrc(hi)
        SUB = "np.delete(np.delete(%s, _fx, axis=0), _fx, axis=1)"
        ok = common.like_any(shi, ["_fx = " + FX, "self._hessian_inv = self._fill_in_zeroes_for_fixed(np.linalg.inv(%s))" % (SUB % "self.hessian")],
                             ["_h = self.hessian", "_fx = " + FX, "self._hessian_inv = self._fill_in_zeroes_for_fixed(np.linalg.inv(%s))" % (SUB % "_h")],
                             ["self._hessian_inv = self._fill_in_zeroes_for_fixed(np.linalg.inv(self._remove_zeroes_for_fixed(self.hessian)))"])
        R.ob("H-sub", "hessian_inv:sub-block", ok, eng.where(hi), "the Hessian must be inverted on the free sub-block and zero-filled for fixed parameters")
        sym = [n for n in ast.walk(eng.cnode(hi)) if isinstance(n, ast.Assign) and any(self_attr(t) == "_hessian_inv" for t in n.targets)]
        symtxt = [" ".join(ast.unparse(n.value).split()) for n in sym]
        R.ob("H-sub", "hessian_inv:symmetrise", "0.5 * (self._hessian_inv + self._hessian_inv.T)" in symtxt, eng.where(hi), "the inverse Hessian must be symmetrised as (H + H^T)/2 (found %s)" % symtxt)
        sm = p.find_class("MinimizerScipyOptimize")
        mn = p.method(sm, "minimize")
        src = eng.csrc(mn)
        R.ob("H-sub", "scipy minimize:fixed re-insertion", src.all_like("def _fn(_args): _dyn[0, 0:-_nfix] = _args return self._func_wrapper_unpack_args(_dyn[_sel, _pos])",
                                                                    "_dyn[0, 0:-_nfix] = self._opt_result.x self._par_val = _dyn[_sel, _pos]"), eng.where(mn),
             "the scipy adapter must unpack the optimiser's free-parameter vector with the same (fixed flag, position) index arrays it used to pack the objective's arguments")

    # ---- correlation / errors
    with R.guard("correlation / errors"):
        check(eng, R, "H-cor", "CovMat", "cor_mat", "assign", "self._mat / outer(sqrt(diag(self._mat)), sqrt(diag(self._mat)))", target="self._cor_mat",
              what="correlation matrix must be covariance / outer(sigma, sigma)")
        cm = MB.find_prop("cor_mat").fget
        src = eng.csrc(cm)
        ok = common.like_any(src, ["_fx = " + FX, "self._par_cor_mat = self._fill_in_zeroes_for_fixed(CovMat(%s).cor_mat)" % (SUB % "self.cov_mat")],
                             ["_cm = self.cov_mat", "_fx = " + FX, "self._par_cor_mat = self._fill_in_zeroes_for_fixed(CovMat(%s).cor_mat)" % (SUB % "_cm")],
                             ["_cm = self.cov_mat", "_cm2 = _cm", "_fx = " + FX, "self._par_cor_mat = self._fill_in_zeroes_for_fixed(CovMat(%s).cor_mat)" % (SUB % "_cm2")],
                             ["self._par_cor_mat = self._fill_in_zeroes_for_fixed(CovMat(self._remove_zeroes_for_fixed(self.cov_mat)).cor_mat)"],
                             ["_cm = self.cov_mat", "self._par_cor_mat = self._fill_in_zeroes_for_fixed(CovMat(self._remove_zeroes_for_fixed(_cm)).cor_mat)"])
        R.ob("H-cor", "MinimizerBase.cor_mat", ok, eng.where(cm), "the parameter correlation matrix must be the normalisation of the covariance on the free sub-block")
        check(eng, R, "H-cor", "MinimizerScipyOptimize", "minimize", "assign", "sqrt(diag(self.cov_mat))", target="self._par_err", what="symmetric parameter errors must be sqrt(diag(covariance))")

    # ---- profile targets
    with R.guard("profile targets"):
        ap = p.method(MB, "_calculate_asymmetric_parameter_errors")
        apn = eng.cnode(ap)
        loops = [n for n in ast.walk(apn) if isinstance(n, ast.For) and " ".join(ast.unparse(n.iter).split()) == "enumerate(self.parameter_names)" and isinstance(n.target, ast.Tuple)
                 and all(isinstance(e, ast.Name) for e in n.target.elts)]
        if len(loops) != 1:
            raise AnalysisError("_calculate_asymmetric_parameter_errors: the loop over enumerate(self.parameter_names) was not found")
        iv, nv = loops[0].target.elts[0].id, loops[0].target.elts[1].id
        from ..termform import path_exprs
        M, E = "self.parameter_values[%s]" % iv, "self.parameter_errors[%s]" % iv
        KA = ["self.parameter_values", "self.parameter_errors", "self.function_value", iv, nv, "()self._find_cost_cut"]
        check(eng, R, "H-prof", "MinimizerBase", "_calculate_asymmetric_parameter_errors", "arg", "self.function_value + 1.0", target="_find_cost_cut:2", known=KA,
              what="asymmetric errors are where the profile has risen by exactly 1")

        def pick_side(k):
            def pick(st):
                if isinstance(st, ast.Assign) and len(st.targets) == 1 and isinstance(st.targets[0], ast.Subscript) and isinstance(st.targets[0].slice, ast.Tuple) and len(st.targets[0].slice.elts) == 2 \
                        and " ".join(ast.unparse(st.targets[0].slice.elts[0]).split()) == iv and " ".join(ast.unparse(st.targets[0].slice.elts[1]).split()) == str(k):
                    return [st.value]
                return []
            return pick

        from ..termform import subst
        good = True
        found = []
        for k, sign in ((0, "-"), (1, "+")):
            spec = "self._find_cost_cut(%s, %s %s %s, self.function_value + 1.0, self.parameter_values) - %s" % (nv, M, sign, E, M)
            forms = [Normalizer({}).norm(subst(e, env)).canon() for conds, e, env in path_exprs(apn, pick_side(k))]
            found.append(forms)
            good = good and len(forms) == 1 and forms[0] == norm_spec(spec).canon()
        R.ob("H-prof", "asymmetric errors:displacement", good, eng.where(ap), "asymmetric errors must be the displacements of the lower / upper cost cut (started one error below / above) from the optimum (found %s)" % found)
        # the optimum and the target are read before the first cut moves the parameters
        g = eng.ccfg(ap)
        cuts = [n for n in g.stmt_nodes() if eng.node_calls_self_method(n, {"_find_cost_cut"})]
        reads = [n for n in g.stmt_nodes() if n not in cuts and any(isinstance(x, ast.Attribute) and self_attr(x) in ("parameter_values", "function_value", "parameter_errors")
                                                                     for part in n.ast_parts() for x in ast.walk(part)) and loops[0] is not n.stmt and common.in_loop(apn, n.stmt)]
        ok = bool(cuts) and all(g.find_path(c.id, lambda m, r=r: m.id == r.id, exceptional=False, avoid=lambda m: eng.node_calls_self_method(m, {"_load_state"})) is None for c in cuts for r in reads)
        R.ob("H-prof", "asymmetric errors:optimum read first", ok, eng.where(ap), "the optimum, its error and the target cost must be read before a cost cut moves the parameters (or after the state was restored)")
        fc = p.method(MB, "_find_cost_cut")
        nested = [n for n in eng.cnode(fc).body if isinstance(n, ast.FunctionDef)][0]
        rets = [" ".join(ast.unparse(r.value).split()) for r in ast.walk(nested) if isinstance(r, ast.Return)]
        R.ob("H-prof", "_find_cost_cut:profile function", rets == ["self.function_value - target_cost"], eng.where(fc), "the root function of the cost cut must be cost - target (found %s)" % rets)
        body = common.src_of(nested)
        R.ob("H-prof", "_find_cost_cut:pin and re-minimise", "self.set_several(self.parameter_names, min_parameters)" in body and "self.set(parameter_name, parameter_value)" in body and "self.fix(parameter_name)" in body and "self.minimize()" in body,
             eng.where(fc), "each profile point must start from the optimum, pin the profiled parameter and re-minimise over the others")
        check(eng, R, "H-prof", "MinimizerScipyOptimize", "_contour_heuristic_grid", "assign", "min(self.function_value, _grid[_min_coords, _min_coords]) + sigma ** 2", target="_contour_fun",
              what="an n-sigma contour lies where the cost has risen by n^2", rename=None) if False else None
        for fn, spec in (("_contour_heuristic_grid", "_min_fun + sigma ** 2"), ("_contour_beacon", "self.function_value + sigma ** 2")):
            f = p.method(sm, fn)
            # the level is whatever local is compared with the function values: the one whose defining expression mentions sigma ** 2
            # (read from the source as written and from the canonical form, where the local may have been written out at its uses)
            vals = set()
            for tree in (f.node, eng.cnode(f)):
                for n in ast.walk(tree):
                    if isinstance(n, ast.BinOp) and isinstance(n.op, ast.Add) and any(isinstance(x, ast.Name) and x.id == "sigma" for x in ast.walk(n.right)) \
                            and not any(isinstance(x, ast.Name) and x.id == "sigma" for x in ast.walk(n.left)) and " ".join(ast.unparse(n.left).split()) in ("_min_fun", "self.function_value") \
                            and not any(isinstance(x, ast.BinOp) and isinstance(x.op, ast.Mult) for x in ast.walk(n.right)):  # (scaled levels are search tolerances, not the contour)
                        vals.add(" ".join(ast.unparse(n).split()))
            vals = sorted(vals)
            okk = bool(vals) and all(Normalizer().norm(ast.parse(v, mode="eval").body) == norm_spec(spec) for v in vals)
            R.ob("H-prof", "scipy %s:level" % fn, okk, eng.where(f), "the contour level must be minimum + sigma^2 (found %s)" % vals)

    # ---- error band
    with R.guard("error band"):
        XF = p.find_class("XYFit")
        eb = p.method(XF, "error_band")
        src = eng.csrc(eb)
        ebn = eng.cnode(eb)
        MASK = "[_p not in self._fitter.fixed_parameters for _p in self.parameter_names]"
        # `_d` derivatives [x][par], `_b` the band, `_k` the index of the evaluation point, `_p` the comprehension variable
        quad = "_b[_k] = _d[_k, %s].dot(self.parameter_cov_mat[%s][:, %s]).dot(_d[_k, %s])" % (MASK, MASK, MASK, MASK)
        quad_tmp = ["_mask = " + MASK, "_c = self.parameter_cov_mat[_mask][:, _mask]", "_b[_k] = _d[_k, _mask].dot(_c).dot(_d[_k, _mask])"]
        ok = common.like_any(src, [quad, "return np.sqrt(_b)"], quad_tmp + ["return np.sqrt(_b)"])
        R.ob("H-band", "XYFit.error_band:quadratic form", ok, eng.where(eb), "the band must be sqrt(p^T C p) per evaluation point")
        likes = [c for c in ast.walk(ebn) if isinstance(c, ast.Call) and isinstance(c.func, ast.Attribute) and c.func.attr in ("zeros_like", "empty_like", "ones_like", "full_like")]
        ok = bool(likes) and all(any(k.arg == "dtype" and ast.unparse(k.value) == "float" for k in c.keywords) for c in likes)
        R.ob("H-band", "XYFit.error_band:float result", ok, eng.where(eb),
             "the result array takes the dtype of the caller's x values: for integer x (np.arange) the variances are truncated, typically to a band of exactly zero")
        R.ob("H-band", "XYFit.error_band:mask", common.like_any(src, [quad], quad_tmp), eng.where(eb), "derivatives and covariance must be cut with the same mask of non-fixed parameters")
        ok = common.like_any(src, ["_d = self.eval_model_function_derivative_by_parameters(x)", "_d = _d.T", "for _k, _v in enumerate(x):"],
                             ["_d = self.eval_model_function_derivative_by_parameters(x).T", "for _k, _v in enumerate(x):"])
        R.ob("H-band", "XYFit.error_band:derivatives", ok, eng.where(eb), "the band must use the model's parameter derivatives at the requested x (transposed to [x][par])")
        dp = p.method(XF, "eval_model_function_derivative_by_parameters")
        src = eng.csrc(dp)
        R.ob("H-band", "XYFit.eval_model_function_derivative_by_parameters", "self._param_model.parameters = self.parameter_values" in src and "par_dx = 0.01 * self.parameter_errors" in src.replace("1e-2", "0.01")
             and "self._param_model.eval_model_function_derivative_by_parameters(model_parameters=model_parameters, par_dx=par_dx, x=x)" in src, eng.where(dp),
             "derivatives must be taken at the current parameters with steps tied to the parameter errors")

    # ---- F1
    with R.guard("F1"):
        pairs = []
        for cn in ("ContoursProfiler", "NexusFitter", "MinimizerBase", "MinimizerIMinuit", "MinimizerScipyOptimize", "XYFit", "XYParametricModel", "FitBase", "CovMat"):
            c = p.find_class(cn)
            for f in cache.visible_functions(c):
                pairs.append((c, f))
        check_arg_slots(eng, R, "F1", pairs)

    # ---- MINOS rows: the interval of a parameter lands in the row of that parameter
    with R.guard("MINOS rows"):
        R.rule("H-minos", "MinimizerIMinuit: the MINOS interval of a free parameter is stored in the row of that parameter (row index = position of the name in "
                          "parameter_names), rows of fixed parameters stay (0, 0); the result is filled row by row, not assembled by inserting rows at a list of positions", 1)
        fm = get_func(p, "MinimizerIMinuit", "_calculate_asymmetric_parameter_errors")
        fn = common.read_through(eng.cnode(fm), simple_calls=("abs", "min", "max", "float", "int", "len", "index"))
        rets = [r.value for r in ast.walk(fn) if isinstance(r, ast.Return) and r.value is not None and not (isinstance(r.value, ast.Constant) and r.value.value is None)]
        res = {r.id for r in rets if isinstance(r, ast.Name)}
        ok_shape = len(res) == 1 and len(rets) == len([r for r in rets if isinstance(r, ast.Name)])
        why = "the result is not one array that is filled in place"
        stores_ok = False
        if ok_shape:
            (rn,) = res
            inits = [a.value for a in ast.walk(fn) if isinstance(a, ast.Assign) and any(isinstance(t, ast.Name) and t.id == rn for t in a.targets)]
            ok_shape = len(inits) == 1 and isinstance(inits[0], ast.Call) and common.call_name(inits[0]) == "zeros"
            why = "the result array is not created by np.zeros and filled in place (found %s)" % [" ".join(ast.unparse(i).split())[:60] for i in inits]
            if ok_shape:
                loops = [l for l in ast.walk(fn) if isinstance(l, ast.For) and " ".join(ast.unparse(l.iter).split()) in ("self.parameter_names", "enumerate(self.parameter_names)")]
                good, n_read = bool(loops), 0
                for s_ in ast.walk(fn):
                    if not (isinstance(s_, ast.Assign) and isinstance(s_.targets[0], ast.Subscript) and isinstance(s_.targets[0].value, ast.Name) and s_.targets[0].value.id == rn):
                        continue
                    lp = next((l for l in loops if any(x is s_ for x in ast.walk(l))), None)
                    if lp is None:
                        good = False
                        continue
                    if isinstance(lp.target, ast.Tuple):
                        iv, nv = lp.target.elts[0].id, lp.target.elts[1].id
                    else:
                        iv, nv = None, lp.target.id
                    sl = s_.targets[0].slice
                    row = sl.elts[0] if isinstance(sl, ast.Tuple) else sl
                    row_t = " ".join(ast.unparse(common.resolve_local(fn, row)).split())
                    good = good and row_t in ("self.parameter_names.index(%s)" % nv, iv or "")
                # the MINOS result read inside the loop is the one of the loop's own name (v1: keyed by name; v2: position among the free parameters) - whether
                # it is read in the store or into locals first
                for lp in loops:
                    nv = lp.target.elts[1].id if isinstance(lp.target, ast.Tuple) else lp.target.id
                    for x in ast.walk(lp):
                        if isinstance(x, ast.Subscript) and isinstance(x.ctx, ast.Load) and "minos" in ast.unparse(common.resolve_local(fn, x.value)).lower():
                            n_read += 1
                            ke = common.resolve_local(fn, x.slice)
                            key = " ".join(ast.unparse(ke).split())
                            by_free_position = False
                            if isinstance(ke, ast.Call) and isinstance(ke.func, ast.Attribute) and ke.func.attr == "index" and [" ".join(ast.unparse(a).split()) for a in ke.args] == [nv]:
                                # ... position in the list of the *free* names: [n for n in self.parameter_names if not self.is_fixed(n)] (possibly pre-set to None)
                                recv = ke.func.value
                                defs = [a.value for a in ast.walk(fn) if isinstance(a, ast.Assign) and any(isinstance(t, ast.Name) and isinstance(recv, ast.Name) and t.id == recv.id for t in a.targets)]
                                defs = defs or [recv]
                                comps = [d for d in defs if isinstance(d, ast.ListComp)]
                                by_free_position = len(comps) == 1 and all(isinstance(d, ast.ListComp) or (isinstance(d, ast.Constant) and d.value is None) for d in defs) \
                                    and " ".join(ast.unparse(comps[0].generators[0].iter).split()) == "self.parameter_names" \
                                    and any("is_fixed" in ast.unparse(c) for c in comps[0].generators[0].ifs)
                            good = good and (key == nv or by_free_position or key in ("'lower'", "'upper'"))
                stores_ok = good and n_read >= 2
                why = "a store into the result is not in the row of the parameter whose MINOS interval it holds"
        R.ob("H-minos", "MinimizerIMinuit._calculate_asymmetric_parameter_errors:rows", ok_shape and stores_ok, (fm.file, fm.lineno),
             "asymmetric errors of the iminuit backend: %s" % why)

    with R.guard("members of a MultiFit follow fix / release"):
        R.rule("H-members", "the member fits of a MultiFit (whose own fixed-parameter bookkeeping their error bands read) are released when the MultiFit releases a parameter it fixed on them", 1)
        common.undo_pairs_forwarded(R, "H-members", p)
