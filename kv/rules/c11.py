"""C11 - a multi-fit is the sum of its parts / the joint fit with shared errors: cost partition, parameter unification, block assembly,
results pushed into the members, fix/release mirrored. Structural clauses only (no numerical equivalence)."""
import ast

from ..effects import is_self, self_attr, walk_no_nested
from ..engine import AnalysisError
from ..termform import Normalizer, return_exprs
from . import common
from .formulas import get_func

MF = "MultiFit"


def _txt(n):
    return common.src_of(n)


def _nested(f, name):
    for n in ast.walk(f.node):
        if isinstance(n, ast.FunctionDef) and n.name == name and n is not f.node:
            return n
    raise AnalysisError("%s: nested function %s not found" % (f.qualname, name))


def _loops_over(node, text):
    return [n for n in ast.walk(node) if isinstance(n, ast.For) and _txt(n.iter) == text]


def run(eng, R):
    p = eng.p
    R.rule("P-sum", "without shared errors every member contributes exactly one cost argument (an alias of its own cost node) and the multi cost is their plain sum; "
                    "the log-determinant node is the sum of the members' log-determinants", 6)
    R.rule("P-part", "with shared errors the members are partitioned by `is_chi2`: chi2 members enter the concatenated data / model / covariance nodes (one data-index "
                     "slot each), all other members keep their own cost argument; the shared cost and the constraint cost of the sharing members are added once", 6)
    R.rule("P-par", "same-named parameters are one node: every combined parameter node is added to the multi graph and replaces the node of that name in every member "
                    "that has it", 3)
    R.rule("B-diag", "concatenation and diagonal blocks use the consecutive edges _data_indices[j] : _data_indices[j+1] for rows and columns alike", 3)
    R.rule("B-off", "a shared source is *added* (+=) to both off-diagonal blocks (j,k) and (k,j) of every pair of sharing members, only if enabled and on the requested axis; "
                    "block edges are looked up through the fit-index -> data-index map", 6)
    R.rule("B-tot", "the joint covariance is y + x o outer(derivatives, derivatives) in the decomposition nodes and in MultiFit.total_cov_mat; the shared cost reads the "
                    "concatenated data / model and these decompositions", 6)
    R.rule("U-res", "_update_singular_fits runs after every production of results (do_fit, asymmetric errors) on all normal paths and hands each member the sub-blocks "
                    "selected by the positions of its own parameter names", 8)
    R.rule("U-fix", "fix_parameter / release_parameter act on the multi fitter and on every member that has the parameter, with the value the multi fitter recorded", 4)

    ini = get_func(p, MF, "_init_nexus")
    src = _txt(ini.node)
    # ---------------------------------------------------------------- P-sum
    loops = _loops_over(ini.node, "enumerate(self._fits)")
    ok = False
    if loops:
        lp = loops[0]
        body = _txt(ast.Module(body=lp.body, type_ignores=[]))
        iv = lp.target.elts[0].id if isinstance(lp.target, ast.Tuple) else "?"
        fv = lp.target.elts[1].id if isinstance(lp.target, ast.Tuple) else "?"
        ok = "_original_cost_i = %s._nexus.get('cost')" % fv in body and "_cost_alias_name_i = 'cost%%s' %% %s" % iv in body \
            and "_cost_alias_i = Alias(ref=_original_cost_i, name=_cost_alias_name_i)" in body and "self._nexus.add(_cost_alias_i, add_children=False)" in body
        conds = [c for s in ast.walk(lp) if isinstance(s, ast.Call) and "_cost_alias_i" in _txt(s) and isinstance(s.func, ast.Attribute) and s.func.attr == "add" for c in common.guard_conditions_inside(lp, s)]
        ok = ok and not conds
    R.ob("P-sum", "MultiFit._init_nexus:cost aliases", ok, (ini.file, ini.lineno), "every member must contribute an alias `cost<i>` of its own cost node, unconditionally")
    ok = "_cost_names = ['cost%s' % _i for _i in range(len(self._fits))]" in src and "_cost_functions = [_fit._cost_function for _fit in self._fits]" in src \
        and "self._cost_function = MultiCostFunction(singular_cost_functions=_cost_functions, cost_function_names=_cost_names)" in src
    R.ob("P-sum", "MultiFit._init_nexus:cost arguments", ok, (ini.file, ini.lineno), "the multi cost must take exactly the arguments cost0 … cost<n-1>")
    ok = "func=self._cost_function, func_name=self._cost_function.name, par_names=self._cost_function.arg_names" in src and "self._nexus.add_alias(name='cost', alias_for=_cost_function_node.name)" in src
    R.ob("P-sum", "MultiFit._init_nexus:cost node", ok, (ini.file, ini.lineno), "the multi cost node must be wired to the cost function's own argument names and aliased as 'cost'")
    mc = p.find_class("MultiCostFunction")
    cs = mc.find_method("cost_sum")
    rs = return_exprs(cs.node)
    ok = len(rs) == 1 and _txt(rs[0][1]) in ("np.sum(single_costs)", "sum(single_costs)") and cs.node.args.vararg is not None and cs.node.args.vararg.arg == "single_costs" and not cs.node.args.args
    R.ob("P-sum", "MultiCostFunction.cost_sum", ok, (cs.file, cs.lineno), "the multi cost must be the plain sum of all its arguments")
    mi = mc.find_method("__init__")
    msrc = _txt(mi.node)
    ok = "cost_function=MultiCostFunction.cost_sum" in msrc and "arg_names=cost_function_names" in msrc and "add_determinant_cost=False" in msrc
    R.ob("P-sum", "MultiCostFunction.__init__", ok, (mi.file, mi.lineno), "MultiCostFunction must wrap cost_sum over the given names and must not add a determinant term of its own")
    ok = "lambda *log_dets: np.sum(log_dets), func_name='total_cov_mat_log_determinant', par_names=_log_det_names" in src \
        and "_log_det_name = 'total_cov_mat_log_determinant%s' % _i" in src and "_log_det_names.append(_log_det_name)" in src
    R.ob("P-sum", "MultiFit._init_nexus:log determinant", ok, (ini.file, ini.lineno), "the combined log-determinant must be the sum over the members that have one")

    # ---------------------------------------------------------------- P-par
    ok = "self._combined_parameter_node_dict[_par_node] = _fit_i._nexus.get(_par_node)" in src
    R.ob("P-par", "MultiFit._init_nexus:collect", ok, (ini.file, ini.lineno), "combined parameters must be collected by name from the members' graphs")
    loops = _loops_over(ini.node, "self._combined_parameter_node_dict.values()")
    ok = False
    if loops:
        lp = loops[0]
        body = _txt(ast.Module(body=lp.body, type_ignores=[]))
        tv = _txt(lp.target)
        ok = "self._nexus.add(%s)" % tv in body and "for _fit in self._fits: if %s.name in _fit.parameter_names: _fit._nexus.add(node=%s, existing_behavior='replace')" % (tv, tv) in body
    R.ob("P-par", "MultiFit._init_nexus:replace", ok, (ini.file, ini.lineno),
         "each combined parameter node must be added to the multi graph and must replace the same-named node in every member that has this parameter")
    ok = "Array(nodes=self._combined_parameter_node_dict.values(), name='parameter_values'), existing_behavior='replace'" in src
    R.ob("P-par", "MultiFit._init_nexus:parameter_values", ok, (ini.file, ini.lineno), "the multi 'parameter_values' node must be the array of the combined nodes")

    # ---------------------------------------------------------------- P-part
    sh = get_func(p, MF, "_init_shared_error_nodes")
    ssrc = _txt(sh.node)
    loops = _loops_over(sh.node, "enumerate(self._fits)")
    # the partition loop: one if/else per member whose else-branch keeps the member's own cost argument
    part = [l for l in loops if any(isinstance(s, ast.If) and s.orelse and "_cost_names" in _txt(ast.Module(body=s.orelse, type_ignores=[])) for s in l.body)]
    ok = len(part) == 1
    R.ob("P-part", "_init_shared_error_nodes:partition loop", ok, (sh.file, sh.lineno), "one loop over all members must partition them by is_chi2")
    if ok:
        lp = part[0]
        iv, fv = lp.target.elts[0].id, lp.target.elts[1].id
        i = [s for s in lp.body if isinstance(s, ast.If) and s.orelse and "_cost_names" in _txt(ast.Module(body=s.orelse, type_ignores=[]))][0]
        R.ob("P-part", "_init_shared_error_nodes:partition test", _txt(i.test) == "%s._cost_function.is_chi2" % fv and len(lp.body) == 1, (sh.file, i.lineno),
             "the partition must be exactly `if member cost is chi2: joint part else: own cost argument` (found `%s`): a member whose cost is not a chi2 but which passes the test "
             "is absorbed into the shared chi2 and loses its own cost" % _txt(i.test))
        chi = _txt(ast.Module(body=i.body, type_ignores=[]))
        oth = _txt(ast.Module(body=i.orelse, type_ignores=[]))
        ok1 = "_fit_index_to_data_index[%s] = len(_data_indices) - 1" % iv in chi and "_data_indices.append(_data_indices[-1] + %s.data_size)" % fv in chi
        R.ob("P-part", "_init_shared_error_nodes:data slots", ok1 and "_data_indices" not in oth and "_fit_index_to_data_index" not in oth, (sh.file, i.lineno),
             "each chi2 member takes the next data slot (edge = previous edge + its data size); other members take none")
        need = ["_y_data_names.append('y_data%%s' %% %s)" % iv, "_y_model_names.append(_y_model_name)", "_y_cov_mat_names.append(_y_cov_mat_name)", "_x_cov_mat_names.append(_x_cov_mat_name)",
                "_derivative_names.append(_derivatives_name)", "Alias(ref=%s._nexus.get('y_model'), name=_y_model_name)" % fv, "Alias(ref=%s._nexus.get('y_total_cov_mat'), name=_y_cov_mat_name)" % fv,
                "Alias(ref=%s._nexus.get('x_total_cov_mat'), name=_x_cov_mat_name)" % fv]
        miss = [x for x in need if x not in chi]
        # every list is appended exactly once per chi2 member, unconditionally within the branch (the XY / non-XY split only chooses the node kind)
        uncond = True
        for nm in ("_y_data_names", "_y_model_names", "_y_cov_mat_names", "_x_cov_mat_names", "_derivative_names"):
            apps = [c for s in i.body for c in ast.walk(s) if isinstance(c, ast.Call) and isinstance(c.func, ast.Attribute) and c.func.attr == "append" and _txt(c.func.value) == nm]
            uncond = uncond and len(apps) == 1 and not [1 for c in apps for _ in common.guard_conditions_inside(i, c) if "is_chi2" not in _txt(_[0])]
        R.ob("P-part", "_init_shared_error_nodes:joint inputs", not miss and uncond, (sh.file, i.lineno),
             "each chi2 member must append its y data, y model, y covariance, x covariance and derivative node names exactly once (missing: %s)" % miss)
        R.ob("P-part", "_init_shared_error_nodes:no own cost for chi2 members", "_cost_names" not in chi and "_cost_functions" not in chi, (sh.file, i.lineno),
             "a chi2 member must not keep its own cost argument next to the shared cost (it would be counted twice)")
        R.ob("P-part", "_init_shared_error_nodes:own cost for other members", "_cost_functions.append(%s._cost_function)" % fv in oth and "_cost_names.append('cost%%s' %% %s)" % iv in oth, (sh.file, i.lineno),
             "a non-chi2 member must keep its own cost argument cost<i>")
    ok = "_cost_functions.append(self._shared_cost_function)" in ssrc and "_cost_names.append(self._shared_cost_function.name)" in ssrc and ssrc.count("_cost_names.append(self._shared_cost_function.name)") == 1 \
        and "self._cost_function = MultiCostFunction(singular_cost_functions=_cost_functions, cost_function_names=_cost_names)" in ssrc \
        and "func=self._shared_cost_function, func_name=self._shared_cost_function.name, par_names=self._shared_cost_function.arg_names" in ssrc
    R.ob("P-part", "_init_shared_error_nodes:shared cost", ok, (sh.file, sh.lineno), "the shared cost must be added once, wired to its own argument names, and the multi cost rebuilt from the partition")
    # constraint cost of the sharing members (SharedCostFunction is built without constraint cost)
    scf = p.find_class("SharedCostFunction").find_method("__init__")
    shared_has_constraints = "add_constraint_cost=False" not in _txt(scf.node)
    cn = None
    try:
        cn = _nested(sh, "_member_constraint_cost")
    except AnalysisError:
        pass
    ok = shared_has_constraints
    if cn is not None:
        csrc = _txt(cn)
        ok = "for _par_vals, _par_constraints in zip(values_and_constraints[::2], values_and_constraints[1::2]): for _par_constraint in _par_constraints: _cost += _par_constraint.cost(_par_vals)" in csrc \
            and "for _i in _fit_index_to_data_index: for _node_name in ('parameter_values', 'parameter_constraints'):" in ssrc \
            and "Alias(ref=self._fits[_i]._nexus.get(_node_name), name='%s%s' % (_node_name, _i))" in ssrc and "_member_constraint_names.append('%s%s' % (_node_name, _i))" in ssrc \
            and "self._nexus.add_function(_member_constraint_cost, func_name='member_constraint_cost', par_names=_member_constraint_names)" in ssrc \
            and ssrc.count("_cost_names.append('member_constraint_cost')") == 1
    R.ob("P-part", "_init_shared_error_nodes:member constraints", ok, (sh.file, sh.lineno),
         "the shared cost function carries no constraint term: the constraint cost of every sharing member (its own parameter values and constraints) must enter the multi cost once")

    # every member class that can carry a chi2 cost provides the nodes the joint part aliases (a missing node is Alias(ref=None): AttributeError when the first shared
    # error is added to *any* members of the multi-fit)
    from ..consteval import nexus_model

    R.rule("P-nodes", "every fit class whose registry offers a chi2 cost function has the graph nodes that the chi2 branch of the partition aliases", 3)
    if part:
        lp = part[0]
        i = [s_ for s_ in lp.body if isinstance(s_, ast.If) and s_.orelse][0]
        needed = set()
        for c in ast.walk(ast.Module(body=i.body, type_ignores=[])):
            if isinstance(c, ast.Call) and isinstance(c.func, ast.Attribute) and c.func.attr == "get" and _txt(c.func.value).endswith("._nexus") and c.args and common.const_str(c.args[0]):
                conds = common.guard_conditions_inside(i, c)
                if any("isinstance" in _txt(t) for t, pol in conds):
                    continue  # only for the class tested there
                needed.add(common.const_str(c.args[0]))
        if not needed:
            raise AnalysisError("_init_shared_error_nodes: aliased member nodes not found")
        for cn in ("XYFit", "IndexedFit", "HistFit", "UnbinnedFit"):
            cls = p.find_class(cn)
            reg = cls.lookup("_STRING_TO_COST_FUNCTION")
            chi2_capable = False
            if reg and reg[0] == "const" and isinstance(reg[1], ast.Name):
                # follow the imports from the module that defines the class constant to the dictionary literal
                owner = next((k for k in cls.mro if "_STRING_TO_COST_FUNCTION" in k.consts), cls)
                mod, name = owner.module, reg[1].id
                d = None
                for _ in range(4):
                    if name in mod.consts and isinstance(mod.consts[name], ast.Dict):
                        d = mod.consts[name]
                        break
                    imp = mod.imports.get(name)
                    if not imp:
                        break
                    nxt = p.modules.get(imp[0]) or next((m for m in p.modules.values() if m.name == imp[0]), None)
                    if nxt is None:
                        break
                    mod, name = nxt, (imp[1] or name)
                    if nxt.is_package and name not in nxt.consts and name not in nxt.imports:
                        # star re-exports of a package: look into its cost module
                        sub = next((m for m in p.modules.values() if m.name == nxt.name + ".cost"), None)
                        if sub is not None:
                            mod = sub
                if d is None:
                    raise AnalysisError("cost function registry of %s not resolved" % cn)
                chi2_capable = any("Chi2" in _txt(v) for v in d.values)
            G, _tr = nexus_model(p, cls)
            missing = sorted(n for n in needed if n not in G.nodes)
            R.ob("P-nodes", "%s" % cn, not (chi2_capable and missing), (cls.module.relpath, 0),
                 "%s offers a chi2 cost function but has no node(s) %s: with such a member, adding the first shared error to any members of a MultiFit raises AttributeError "
                 "('NoneType' object has no attribute 'add_parent')" % (cn, missing))

    # ---------------------------------------------------------------- B-diag
    c1 = _nested(sh, "_combine_1d_property")
    c2 = _nested(sh, "_combine_cov_mats")
    s1 = _txt(c1)
    ok = "_combined_property = np.zeros(shape=_data_indices[-1])" in s1 and "for _j, _single_fit_property in enumerate(single_fit_properties): _lower = _data_indices[_j] _upper = _data_indices[_j + 1] " \
        "_combined_property[_lower:_upper] = _single_fit_property" in s1
    R.ob("B-diag", "_combine_1d_property", ok, (sh.file, c1.lineno), "concatenation must place the j-th member's values at [_data_indices[j] : _data_indices[j+1]]")
    s2 = _txt(c2)
    ok = "_combined_property = np.zeros(shape=(_data_indices[-1], _data_indices[-1]))" in s2 and "for _j, _single_fit_property in enumerate(single_fit_properties): _lower = _data_indices[_j] _upper = _data_indices[_j + 1] " \
        "_combined_property[_lower:_upper, _lower:_upper] = _single_fit_property" in s2
    R.ob("B-diag", "_combine_cov_mats:diagonal", ok, (sh.file, c2.lineno), "the j-th member's covariance must fill the diagonal block [e_j:e_j+1, e_j:e_j+1]")
    tot = get_func(p, MF, "total_cov_mat")
    ts = _txt(tot.node)
    ok = "_lower = 0 for _fit in self._fits: _upper = _lower + _fit.data_size _total_cov_mat[_lower:_upper, _lower:_upper] = _fit.total_cov_mat _lower = _upper" in ts
    R.ob("B-diag", "MultiFit.total_cov_mat:blocks", ok, (tot.file, tot.lineno), "without shared errors the total covariance must be block diagonal with consecutive blocks of the members' sizes")

    # ---------------------------------------------------------------- B-off
    sl = _loops_over(c2, "self._shared_error_dicts.values()")
    ok = len(sl) == 1
    R.ob("B-off", "_combine_cov_mats:source loop", ok, (sh.file, c2.lineno), "off-diagonal blocks must be built in one loop over the shared sources")
    if ok:
        lp = sl[0]
        ev = _txt(lp.target)
        pre = [_txt(s) for s in lp.body if isinstance(s, ast.If)]
        R.ob("B-off", "_combine_cov_mats:enabled", "if not %s['enabled']: continue" % ev in pre, (sh.file, lp.lineno), "a disabled shared source must not contribute")
        R.ob("B-off", "_combine_cov_mats:axis", "if %s['axis'] != axis_name: continue" % ev in pre, (sh.file, lp.lineno), "a shared source contributes to the matrix of its own axis only")
        stores = []
        for s in ast.walk(lp):
            tg = s.targets[0] if isinstance(s, ast.Assign) and len(s.targets) == 1 else (s.target if isinstance(s, ast.AugAssign) else None)
            if tg is not None and isinstance(tg, ast.Subscript) and _txt(tg.value) == "_combined_property":
                stores.append(s)
        if not stores:
            raise AnalysisError("_combine_cov_mats: no store into the combined matrix inside the shared-source loop")
        aug = all(isinstance(s, ast.AugAssign) and isinstance(s.op, ast.Add) for s in stores)
        R.ob("B-off", "_combine_cov_mats:accumulate", aug, (sh.file, stores[0].lineno),
             "off-diagonal blocks must accumulate (+=): a plain store makes the last of several sources sharing a pair of members overwrite the others")
        idx = []
        for s in stores:
            tg = s.targets[0] if isinstance(s, ast.Assign) else s.target
            sli = tg.slice
            if isinstance(sli, ast.Tuple) and len(sli.elts) == 2:
                idx.append((_txt(sli.elts[0]), _txt(sli.elts[1])))
        sym = len(idx) == len(stores) and all((b, a) in idx for a, b in idx) and all(a != b for a, b in idx)
        R.ob("B-off", "_combine_cov_mats:both blocks", sym and len(idx) >= 2, (sh.file, stores[0].lineno), "the source must be written to block (j,k) and to its transpose block (k,j) (found %s)" % idx)
        vals = set()
        for s in stores:
            v = s.value
            if isinstance(v, ast.Name):
                defs = [d for d in ast.walk(lp) if isinstance(d, ast.Assign) and isinstance(d.targets[0], ast.Name) and d.targets[0].id == v.id]
                v = defs[-1].value if defs else v
            vals.add(_txt(v))
        errv = [_txt(d.targets[0]) for d in lp.body if isinstance(d, ast.Assign) and _txt(d.value) == "%s['err']" % ev]
        R.ob("B-off", "_combine_cov_mats:value", len(errv) == 1 and vals == {"%s.cov_mat" % errv[0]}, (sh.file, stores[0].lineno), "the stored value must be the source's absolute covariance matrix (found %s)" % sorted(vals))
    # block edges through the map: every _data_indices[...] lookup outside the diagonal loops uses a slot taken from _fit_index_to_data_index
    bad = []
    n_lookup = 0
    for fn in (c2,):
        diag_loops = [l for l in ast.walk(fn) if isinstance(l, ast.For) and "enumerate(single_fit_properties)" in _txt(l.iter)]
        skip = {id(x) for l in diag_loops for x in ast.walk(l)}
        scope = [sh.node]
        for n in ast.walk(sh.node):
            if isinstance(n, ast.Subscript) and _txt(n.value) == "_data_indices" and isinstance(n.ctx, ast.Load) and id(n) not in skip:
                it = _txt(n.slice)
                if it in ("-1",):
                    continue
                # inside _combine_1d_property's own loop
                if any(n in list(ast.walk(l)) for l in ast.walk(c1) if isinstance(l, ast.For)):
                    continue
                base = it[:-4] if it.endswith(" + 1") else it
                defs = [d for d in ast.walk(sh.node) if isinstance(d, ast.Assign) and _txt(d.targets[0]) == base]
                n_lookup += 1
                if not defs or not all(_txt(d.value).startswith("_fit_index_to_data_index[") for d in defs):
                    bad.append("%s (line %d)" % (it, n.lineno))
    R.ob("B-off", "_init_shared_error_nodes:edges through the map", not bad and n_lookup >= 2, (sh.file, c2.lineno),
         "block edges of a sharing member must be _data_indices[slot], _data_indices[slot + 1] with slot = _fit_index_to_data_index[fit index] (fit indices differ from data slots "
         "as soon as a non-chi2 member precedes) - offending: %s" % bad)

    # ---------------------------------------------------------------- B-tot
    for fn in ("total_cov_mat_cholesky", "total_cov_mat_qr"):
        n = _nested(sh, fn)
        from ..termform import assigned_exprs

        forms = {}
        for conds, e, env in assigned_exprs(n, "_cov_mat"):
            key = " and ".join(("" if pol else "not ") + _txt(t) for t, pol in conds)
            forms[key] = Normalizer(env).norm(e).canon()
        dec = "cholesky_decomposition" if fn.endswith("cholesky") else "qr_decomposition"
        rets = [_txt(r.value) for r in ast.walk(n) if isinstance(r, ast.Return)]
        want = {"self._min_x_error is not None": "outer(derivatives,derivatives)*x_cov_mat + y_cov_mat", "not self._min_x_error is not None": "y_cov_mat"}
        R.ob("B-tot", "_init_shared_error_nodes:%s" % fn, forms == want and rets == ["%s(_cov_mat)" % dec] and [a.arg for a in n.args.args] == ["x_cov_mat", "derivatives", "y_cov_mat"], (sh.file, n.lineno),
             "%s must decompose y + x o outer(derivatives, derivatives) (x part only when x uncertainties exist); found %s -> %s" % (fn, forms, rets))
    rs = return_exprs(tot.node)
    got = [Normalizer(env).norm(e).canon() for conds, e, env in rs if conds and conds[0][1] and "_shared_error_dicts" in _txt(conds[0][0])]
    want = "((self._nexus).get('x_cov_mat')).value*outer(((self._nexus).get('derivatives')).value,((self._nexus).get('derivatives')).value) + ((self._nexus).get('y_cov_mat')).value"
    R.ob("B-tot", "MultiFit.total_cov_mat:shared", got == [want], (tot.file, tot.lineno), "with shared errors the total covariance must be y_cov_mat + x_cov_mat o outer(derivatives, derivatives) of the joint nodes (found %s)" % got)
    sc = _txt(scf.node)
    ok = "self._DATA_NAME = 'y_data'" in sc and "self._MODEL_NAME = 'y_model'" in sc and "self._COV_MAT_CHOLESKY_NAME = 'total_cov_mat_cholesky'" in sc and "self._COV_MAT_QR_NAME = 'total_cov_mat_qr'" in sc \
        and "errors_to_use='covariance'" in sc and "add_determinant_cost=True" in sc
    R.ob("B-tot", "SharedCostFunction.__init__", ok, (scf.file, scf.lineno), "the shared cost must be the covariance chi2 (with determinant) of the joint y data / y model and the joint decompositions")
    for nm, names in (("x_cov_mat", "_x_cov_mat_names"), ("y_cov_mat", "_y_cov_mat_names")):
        ok = "func=lambda *p: _combine_cov_mats('%s', *p), func_name='%s', par_names=%s" % (nm[0], nm, names) in ssrc
        R.ob("B-tot", "_init_shared_error_nodes:%s node" % nm, ok, (sh.file, sh.lineno), "node %s must combine the members' %s-matrices with the shared sources of axis '%s'" % (nm, nm[0], nm[0]))
    ok = all("func=_combine_1d_property, func_name='%s', par_names=%s" % (a, b) in ssrc for a, b in (("derivatives", "_derivative_names"), ("y_data", "_y_data_names"), ("y_model", "_y_model_names")))
    R.ob("B-tot", "_init_shared_error_nodes:1d nodes", ok, (sh.file, sh.lineno), "derivatives, y_data and y_model must be the concatenations of the sharing members' nodes")

    # the switch "x uncertainties exist" follows the members: read from the live x covariance, never cached on the multi-fit
    mfc = p.find_class(MF)
    pr = mfc.find_prop("_min_x_error")
    stores = [(f_.qualname, n.lineno) for f_ in p.all_functions() if f_.cls is mfc for n in ast.walk(f_.node) if isinstance(n, ast.Assign) and any(self_attr(t) == "_min_x_error" for t in n.targets)]
    ok = pr is not None and pr.fget is not None and "self._nexus.get('x_cov_mat').value" in _txt(pr.fget.node) and not stores
    R.ob("B-tot", "MultiFit._min_x_error:live", ok, (sh.file, sh.lineno),
         "the smallest x uncertainty must be computed from the current joint x covariance whenever it is asked for: a value cached by the MultiFit (%s) does not see x uncertainties "
         "added to a member afterwards, and the shared cost ignores them" % (stores or "no property"))
    ok = "self._nexus.add_dependency(name=_derivatives_name, depends_on=('parameter_values', _x_cov_mat_name))" in ssrc
    R.ob("B-tot", "_init_shared_error_nodes:derivative dependencies", ok, (sh.file, sh.lineno), "the slopes of a member depend on the parameters and on that member's x covariance (the step size and the zero shortcut follow it)")

    # ---------------------------------------------------------------- U-res
    for fn, kind in (("do_fit", "method"), ("asymmetric_parameter_errors", "prop")):
        f = get_func(p, MF, fn)
        g = eng.cfg(f)
        sup = [n for n in g.nodes if any(isinstance(c, ast.Attribute) and c.attr == fn and isinstance(c.value, ast.Call) and _txt(c.value.func) == "super" for part in n.ast_parts() for c in walk_no_nested(part))]
        ok = len(sup) == 1
        if ok:
            ok, _ = g.all_paths_pass(sup[0].id, lambda n: any(isinstance(c, ast.Call) and isinstance(c.func, ast.Attribute) and c.func.attr == "_update_singular_fits" and is_self(c.func.value)
                                                              for part in n.ast_parts() for c in walk_no_nested(part)))
        R.ob("U-res", "MultiFit.%s" % fn, ok, (f.file, f.lineno), "after the base class produced results, %s must update the members on every normal path" % fn)
    us = get_func(p, MF, "_update_singular_fits")
    usrc = _txt(us.node)
    loops = _loops_over(us.node, "self._fits")
    ok = len(loops) == 1
    R.ob("U-res", "_update_singular_fits:all members", ok, (us.file, us.lineno), "every member must be updated")
    if ok:
        lp = loops[0]
        fv = _txt(lp.target)
        body = _txt(ast.Module(body=lp.body, type_ignores=[]))
        R.ob("U-res", "_update_singular_fits:indices", "_parameter_indices = self._get_parameter_indices(singular_fit=%s)" % fv in body, (us.file, lp.lineno), "sub-blocks must be selected by the member's own parameter indices")
        dct = [s for s in lp.body if isinstance(s, ast.Assign) and _txt(s.targets[0]) == "%s._loaded_result_dict" % fv and isinstance(s.value, ast.Call)]
        okd = len(dct) == 1
        kw = {k.arg: _txt(k.value) for k in dct[0].value.keywords} if okd else {}
        want = {"did_fit": "self.did_fit", "parameter_errors": "self.parameter_errors[_parameter_indices]", "parameter_cor_mat": "_par_cor_mat", "parameter_cov_mat": "_par_cov_mat",
                "asymmetric_parameter_errors": "_asymmetric_parameter_errors"}
        R.ob("U-res", "_update_singular_fits:result keys", kw == want, (us.file, lp.lineno), "each member must receive did_fit, errors, correlation, covariance and asymmetric errors (found %s)" % kw)
        for loc, srcattr in (("_par_cor_mat", "self.parameter_cor_mat"), ("_par_cov_mat", "self.parameter_cov_mat")):
            ok = "%s = %s if %s is not None: %s = %s[_parameter_indices][:, _parameter_indices]" % (loc, srcattr, loc, loc, loc) in body
            R.ob("U-res", "_update_singular_fits:%s" % loc, ok, (us.file, lp.lineno), "%s must be the rows and columns of %s at the member's parameter indices" % (loc, srcattr))
        ok = "_asymmetric_parameter_errors = self._fitter.asymmetric_fit_parameter_errors_if_calculated if _asymmetric_parameter_errors is not None: _asymmetric_parameter_errors = _asymmetric_parameter_errors[_parameter_indices]" in body
        R.ob("U-res", "_update_singular_fits:asymmetric", ok, (us.file, lp.lineno), "asymmetric errors must be the rows at the member's parameter indices")
    gi = get_func(p, MF, "_get_parameter_indices")
    rs = return_exprs(gi.node)
    ok = len(rs) == 1 and _txt(rs[0][1]) == "[self.parameter_names.index(_parameter_name) for _parameter_name in singular_fit.parameter_names]"
    R.ob("U-res", "_get_parameter_indices", ok, (gi.file, gi.lineno), "a member's indices are the positions of its parameter names in the multi fit's parameter names, in the member's order")

    # ---------------------------------------------------------------- U-fix
    f = get_func(p, MF, "fix_parameter")
    fs = _txt(f.node)
    g = eng.cfg(f)
    ok = "self._fitter.fix_parameter(name=name, value=value)" in fs and "_val = self._fitter.fixed_parameters[name]" in fs
    R.ob("U-fix", "MultiFit.fix_parameter:multi", ok, (f.file, f.lineno), "the multi fitter must fix the parameter first; the mirrored value is the one it recorded")
    ok = "for fit in self._fits: if name not in fit.parameter_names: continue fit.fix_parameter(name, _val)" in fs
    R.ob("U-fix", "MultiFit.fix_parameter:members", ok, (f.file, f.lineno), "every member that has the parameter must fix it at the recorded value")
    f = get_func(p, MF, "release_parameter")
    fs = _txt(f.node)
    R.ob("U-fix", "MultiFit.release_parameter:multi", "self._fitter.release_parameter(name)" in fs, (f.file, f.lineno), "the multi fitter must release the parameter")
    ok = "for fit in self._fits: if name not in fit.parameter_names: continue fit.release_parameter(name)" in fs
    R.ob("U-fix", "MultiFit.release_parameter:members", ok, (f.file, f.lineno), "every member that has the parameter must release it")
