"""C11 - a multi-fit is the sum of its parts / the joint fit with shared errors: cost partition, parameter unification, block assembly,
results pushed into the members, fix/release mirrored. Structural clauses only (no numerical equivalence)."""
import ast

from ..effects import is_self, self_attr, walk_no_nested
from ..engine import AnalysisError
from ..termform import Normalizer, return_exprs
from . import common
from .formulas import get_func as _get_func_raw

_ENG = [None]


def get_func(p, cname, fname):
    """the anchor function in canonical form (kv/canon.py)"""
    return _ENG[0].cfunc(_get_func_raw(p, cname, fname), paths=False)

MF = "MultiFit"


def _txt(n):
    return common.src_of(n)


def _nested(f, name):
    for n in ast.walk(f.node):
        if isinstance(n, ast.FunctionDef) and n.name == name and n is not f.node:
            return n
    raise AnalysisError("%s: nested function %s not found" % (f.qualname, name))


def _loops_over(node, text):
    return [n for n in ast.walk(node) if isinstance(n, ast.For) and _txt(n.iter) == text]


def run(eng, R):
    p = eng.p
    _ENG[0] = eng
    R.rule("P-sum", "without shared errors every member contributes exactly one cost argument (an alias of its own cost node) and the multi cost is their plain sum; "
                    "the log-determinant node is the sum of the members' log-determinants", 6)
    R.rule("P-part", "with shared errors the members are partitioned by `is_chi2`: chi2 members enter the concatenated data / model / covariance nodes (one data-index "
                     "slot each), all other members keep their own cost argument; the shared cost and the constraint cost of the sharing members are added once", 6)
    R.rule("P-par", "same-named parameters are one node: every combined parameter node is added to the multi graph and replaces the node of that name in every member "
                    "that has it", 3)
    R.rule("B-diag", "concatenation and diagonal blocks use the consecutive edges _data_indices[j] : _data_indices[j+1] for rows and columns alike", 3)
    R.rule("B-off", "a shared source is *added* (+=) to both off-diagonal blocks (j,k) and (k,j) of every pair of sharing members, only if enabled and on the requested axis; "
                    "block edges are looked up through the fit-index -> data-index map", 6)
    R.rule("B-tot", "the joint covariance is y + x o outer(derivatives, derivatives) in the decomposition nodes and in MultiFit.total_cov_mat; the shared cost reads the "
                    "concatenated data / model and these decompositions", 6)
    R.rule("U-res", "_update_singular_fits runs after every production of results (do_fit, asymmetric errors) on all normal paths and hands each member the sub-blocks "
                    "selected by the positions of its own parameter names", 8)
    R.rule("U-fix", "fix_parameter / release_parameter act on the multi fitter and on every member that has the parameter, with the value the multi fitter recorded", 4)

    ini = get_func(p, MF, "_init_nexus")
    ini = type(ini)(ini.name, ini.cls, ini.module, common.read_through(ini.node), ini.kind, ini.prop)   # (a local naming a member's graph - `_g = _fit_i._nexus` - is read as that path)
    src = common.Src(" ".join(ast.unparse(ini.node).split()))   # canonical form; placeholders `_i` / `_f` (loop over the members), `_n` (a name list), `_p` (a parameter node)
    # ---------------------------------------------------------------- P-sum
    with R.guard("Psum"):
        ok = src.like("for _i, _f in enumerate(self._fits): self._nexus.add(Alias(_f._nexus.get('cost'), 'cost%s' % _i), False)")
        R.ob("P-sum", "MultiFit._init_nexus:cost aliases", ok, (ini.file, ini.lineno), "every member must contribute an alias `cost<i>` of its own cost node, unconditionally")
        ok = common.like_any(src, "self._cost_function = MultiCostFunction([_g._cost_function for _g in self._fits], ['cost%s' % _k for _k in range(len(self._fits))])")
        R.ob("P-sum", "MultiFit._init_nexus:cost arguments", ok, (ini.file, ini.lineno), "the multi cost must take exactly the arguments cost0 … cost<n-1>")
        ok = common.like_any(src, "self._nexus.add_alias('cost', self._nexus.add_function(self._cost_function, self._cost_function.name, self._cost_function.arg_names).name)",
                             ["_c = self._nexus.add_function(self._cost_function, self._cost_function.name, self._cost_function.arg_names)", "self._nexus.add_alias('cost', _c.name)"])
        R.ob("P-sum", "MultiFit._init_nexus:cost node", ok, (ini.file, ini.lineno), "the multi cost node must be wired to the cost function's own argument names and aliased as 'cost'")
        mc = p.find_class("MultiCostFunction")
        cs = mc.find_method("cost_sum")
        rs = return_exprs(cs.node)
        ok = len(rs) == 1 and _txt(rs[0][1]) in ("np.sum(single_costs)", "sum(single_costs)") and cs.node.args.vararg is not None and cs.node.args.vararg.arg == "single_costs" and not cs.node.args.args
        R.ob("P-sum", "MultiCostFunction.cost_sum", ok, (cs.file, cs.lineno), "the multi cost must be the plain sum of all its arguments")
        mi = mc.find_method("__init__")
        msrc = _txt(mi.node)
        ok = "cost_function=MultiCostFunction.cost_sum" in msrc and "arg_names=cost_function_names" in msrc and "add_determinant_cost=False" in msrc
        R.ob("P-sum", "MultiCostFunction.__init__", ok, (mi.file, mi.lineno), "MultiCostFunction must wrap cost_sum over the given names and must not add a determinant term of its own")
        # the names summed: per path through the member loop, 'total_cov_mat_log_determinant<i>' is appended exactly when the member has such a node
        ok = False
        s1 = common.Src(str(src))
        if s1.like("self._nexus.add_function(lambda *log_dets: np.sum(log_dets), 'total_cov_mat_log_determinant', _n, existing_behavior='replace')") and s1.like("_n = []"):
            names = s1._binding.get("_n")
            HAS = "._nexus.get('total_cov_mat_log_determinant')"
            for lp in [n for n in ast.walk(ini.node) if isinstance(n, ast.For) and _txt(n.iter) == "enumerate(self._fits)" and isinstance(n.target, ast.Tuple) and len(n.target.elts) == 2]:
                iv, fv = _txt(lp.target.elts[0]), _txt(lp.target.elts[1])
                END = ast.Expr(value=ast.Call(func=ast.Name(id="_END_", ctx=ast.Load()), args=[ast.Constant(value=0)], keywords=[]))
                # (the list of names starts empty just before: a test `names is not None` inside the loop decides itself)
                body = ast.Module(body=[ast.parse("%s = []" % names).body[0]] + list(lp.body) + [END], type_ignores=[])
                app = common.call_args_by_path(body, lambda c: _txt(c.func) == "%s.append" % names)
                ends = common.call_args_by_path(body, lambda c: c is END.value)
                if not app:
                    continue

                def has(conds):
                    return ((fv + HAS + " is not None", True) in conds) or ((fv + HAS + " is None", False) in conds)

                good = all(has(conds) and _txt(e) == "'total_cov_mat_log_determinant%%s' %% %s" % iv for conds, e in app)
                # ... and every pass of the loop for a member that has the node appends it (no further condition on the way)
                for conds, _e in ends:
                    if has(conds):
                        good = good and any(set(c2) <= set(conds) for c2, _ in app)
                ok = ok or good
        R.ob("P-sum", "MultiFit._init_nexus:log determinant", ok, (ini.file, ini.lineno), "the combined log-determinant must be the sum over the members that have one")

    # ---------------------------------------------------------------- P-par
    with R.guard("Ppar"):
        ok = common.Src(str(src)).like("for _p in _f.parameter_names: self._combined_parameter_node_dict[_p] = _f._nexus.get(_p)")
        R.ob("P-par", "MultiFit._init_nexus:collect", ok, (ini.file, ini.lineno), "combined parameters must be collected by name from the members' graphs")
        ok = src.like("for _p in self._combined_parameter_node_dict.values(): self._nexus.add(_p) for _g in self._fits: if _p.name in _g.parameter_names: _g._nexus.add(_p, existing_behavior='replace')")
        R.ob("P-par", "MultiFit._init_nexus:replace", ok, (ini.file, ini.lineno),
             "each combined parameter node must be added to the multi graph and must replace the same-named node in every member that has this parameter")
        ok = "self._nexus.add(Array(self._combined_parameter_node_dict.values(), 'parameter_values'), existing_behavior='replace')" in src
        R.ob("P-par", "MultiFit._init_nexus:parameter_values", ok, (ini.file, ini.lineno), "the multi 'parameter_values' node must be the array of the combined nodes")

    # ---------------------------------------------------------------- P-part
    with R.guard("Ppart"):
        sh = get_func(p, MF, "_init_shared_error_nodes")
        ssrc = _txt(sh.node)
        loops = _loops_over(sh.node, "enumerate(self._fits)")
        # the partition loop: one if/else per member whose else-branch keeps the member's own cost argument
        part = [l for l in loops if any(isinstance(s, ast.If) and s.orelse and "_cost_names" in _txt(ast.Module(body=s.orelse, type_ignores=[])) for s in l.body)]
        ok = len(part) == 1
        R.ob("P-part", "_init_shared_error_nodes:partition loop", ok, (sh.file, sh.lineno), "one loop over all members must partition them by is_chi2")
        if ok:
            lp = part[0]
            iv, fv = lp.target.elts[0].id, lp.target.elts[1].id
            i = [s for s in lp.body if isinstance(s, ast.If) and s.orelse and "_cost_names" in _txt(ast.Module(body=s.orelse, type_ignores=[]))][0]
            R.ob("P-part", "_init_shared_error_nodes:partition test", _txt(i.test) == "%s._cost_function.is_chi2" % fv and len(lp.body) == 1, (sh.file, i.lineno),
                 "the partition must be exactly `if member cost is chi2: joint part else: own cost argument` (found `%s`): a member whose cost is not a chi2 but which passes the test "
                 "is absorbed into the shared chi2 and loses its own cost" % _txt(i.test))
            chi = _txt(ast.Module(body=i.body, type_ignores=[]))
            oth = _txt(ast.Module(body=i.orelse, type_ignores=[]))
            ok1 = "_fit_index_to_data_index[%s] = len(_data_indices) - 1" % iv in chi and "_data_indices.append(_data_indices[-1] + %s.data_size)" % fv in chi
            R.ob("P-part", "_init_shared_error_nodes:data slots", ok1 and "_data_indices" not in oth and "_fit_index_to_data_index" not in oth, (sh.file, i.lineno),
                 "each chi2 member takes the next data slot (edge = previous edge + its data size); other members take none")
            need = ["_y_data_names.append('y_data%%s' %% %s)" % iv, "_y_model_names.append('y_model%%s' %% %s)" % iv, "_y_cov_mat_names.append('y_cov_mat%%s' %% %s)" % iv,
                    "_x_cov_mat_names.append('x_cov_mat%%s' %% %s)" % iv, "_derivative_names.append('derivatives%%s' %% %s)" % iv, "Alias(%s._nexus.get('y_model'), 'y_model%%s' %% %s)" % (fv, iv),
                    "Alias(%s._nexus.get('y_total_cov_mat'), 'y_cov_mat%%s' %% %s)" % (fv, iv), "Alias(%s._nexus.get('x_total_cov_mat'), 'x_cov_mat%%s' %% %s)" % (fv, iv)]
            miss = [x for x in need if x not in chi]
            # every list is appended exactly once per chi2 member, unconditionally within the branch (the XY / non-XY split only chooses the node kind)
            uncond = True
            for nm in ("_y_data_names", "_y_model_names", "_y_cov_mat_names", "_x_cov_mat_names", "_derivative_names"):
                apps = [c for s in i.body for c in ast.walk(s) if isinstance(c, ast.Call) and isinstance(c.func, ast.Attribute) and c.func.attr == "append" and _txt(c.func.value) == nm]
                uncond = uncond and len(apps) == 1 and not [1 for c in apps for _ in common.guard_conditions_inside(i, c) if "is_chi2" not in _txt(_[0])]
            R.ob("P-part", "_init_shared_error_nodes:joint inputs", not miss and uncond, (sh.file, i.lineno),
                 "each chi2 member must append its y data, y model, y covariance, x covariance and derivative node names exactly once (missing: %s)" % miss)
            R.ob("P-part", "_init_shared_error_nodes:no own cost for chi2 members", "_cost_names" not in chi and "_cost_functions" not in chi, (sh.file, i.lineno),
                 "a chi2 member must not keep its own cost argument next to the shared cost (it would be counted twice)")
            R.ob("P-part", "_init_shared_error_nodes:own cost for other members", "_cost_functions.append(%s._cost_function)" % fv in oth and "_cost_names.append('cost%%s' %% %s)" % iv in oth, (sh.file, i.lineno),
                 "a non-chi2 member must keep its own cost argument cost<i>")
        ok = "_cost_functions.append(self._shared_cost_function)" in ssrc and "_cost_names.append(self._shared_cost_function.name)" in ssrc and ssrc.count("_cost_names.append(self._shared_cost_function.name)") == 1 \
            and "self._cost_function = MultiCostFunction(_cost_functions, _cost_names)" in ssrc \
            and "self._nexus.add_function(self._shared_cost_function, self._shared_cost_function.name, self._shared_cost_function.arg_names)" in ssrc
        R.ob("P-part", "_init_shared_error_nodes:shared cost", ok, (sh.file, sh.lineno), "the shared cost must be added once, wired to its own argument names, and the multi cost rebuilt from the partition")
        # constraint cost of the sharing members (SharedCostFunction is built without constraint cost)
        scf = p.find_class("SharedCostFunction").find_method("__init__")
        shared_has_constraints = "add_constraint_cost=False" not in _txt(scf.node)
        cn = None
        try:
            cn = _nested(sh, "_member_constraint_cost")
        except AnalysisError:
            pass
        ok = shared_has_constraints
        if cn is not None:
            csrc = _txt(cn)
            ok = "for _par_vals, _par_constraints in zip(values_and_constraints[::2], values_and_constraints[1::2]): for _par_constraint in _par_constraints: _cost += _par_constraint.cost(_par_vals)" in csrc \
                and "for _i in _fit_index_to_data_index:" in ssrc \
                and all(any(("Alias(self._fits[_i]._nexus.get('%s'), %s)" % (nn, form)) in ssrc and ("_member_constraint_names.append(%s)" % form) in ssrc
                            for form in ("'%%s%%s' %% ('%s', _i)" % nn, "'%s%%s' %% _i" % nn)) for nn in ("parameter_values", "parameter_constraints")) \
                and 0 <= ssrc.find("_member_constraint_names.append('parameter_values%s' % _i)") < ssrc.find("_member_constraint_names.append('parameter_constraints%s' % _i)") \
                and "self._nexus.add_function(_member_constraint_cost, 'member_constraint_cost', _member_constraint_names)" in ssrc \
                and ssrc.count("_cost_names.append('member_constraint_cost')") == 1
        R.ob("P-part", "_init_shared_error_nodes:member constraints", ok, (sh.file, sh.lineno),
             "the shared cost function carries no constraint term: the constraint cost of every sharing member (its own parameter values and constraints) must enter the multi cost once")

        # every member class that can carry a chi2 cost provides the nodes the joint part aliases (a missing node is Alias(ref=None): AttributeError when the first shared
        # error is added to *any* members of the multi-fit)
        from ..consteval import nexus_model

        R.rule("P-nodes", "every fit class whose registry offers a chi2 cost function has the graph nodes that the chi2 branch of the partition aliases", 3)
        if part:
            lp = part[0]
            i = [s_ for s_ in lp.body if isinstance(s_, ast.If) and s_.orelse][0]
            needed = set()
            for c in ast.walk(ast.Module(body=i.body, type_ignores=[])):
                if isinstance(c, ast.Call) and isinstance(c.func, ast.Attribute) and c.func.attr == "get" and _txt(c.func.value).endswith("._nexus") and c.args and common.const_str(c.args[0]):
                    conds = common.guard_conditions_inside(i, c)
                    if any("isinstance" in _txt(t) for t, pol in conds):
                        continue  # only for the class tested there
                    needed.add(common.const_str(c.args[0]))
            if not needed:
                raise AnalysisError("_init_shared_error_nodes: aliased member nodes not found")
            for cn in ("XYFit", "IndexedFit", "HistFit", "UnbinnedFit"):
                cls = p.find_class(cn)
                reg = cls.lookup("_STRING_TO_COST_FUNCTION")
                chi2_capable = False
                if reg and reg[0] == "const" and isinstance(reg[1], ast.Name):
                    # follow the imports from the module that defines the class constant to the dictionary literal
                    owner = next((k for k in cls.mro if "_STRING_TO_COST_FUNCTION" in k.consts), cls)
                    mod, name = owner.module, reg[1].id
                    d = None
                    for _ in range(4):
                        if name in mod.consts and isinstance(mod.consts[name], ast.Dict):
                            d = mod.consts[name]
                            break
                        imp = mod.imports.get(name)
                        if not imp:
                            break
                        nxt = p.modules.get(imp[0]) or next((m for m in p.modules.values() if m.name == imp[0]), None)
                        if nxt is None:
                            break
                        mod, name = nxt, (imp[1] or name)
                        if nxt.is_package and name not in nxt.consts and name not in nxt.imports:
                            # star re-exports of a package: look into its cost module
                            sub = next((m for m in p.modules.values() if m.name == nxt.name + ".cost"), None)
                            if sub is not None:
                                mod = sub
                    if d is None:
                        raise AnalysisError("cost function registry of %s not resolved" % cn)
                    chi2_capable = any("Chi2" in _txt(v) for v in d.values)
                G, _tr = nexus_model(p, cls)
                missing = sorted(n for n in needed if n not in G.nodes)
                R.ob("P-nodes", "%s" % cn, not (chi2_capable and missing), (cls.module.relpath, 0),
                     "%s offers a chi2 cost function but has no node(s) %s: with such a member, adding the first shared error to any members of a MultiFit raises AttributeError "
                     "('NoneType' object has no attribute 'add_parent')" % (cn, missing))

    # ---------------------------------------------------------------- B-diag
    with R.guard("Bdiag"):
        c1 = _nested(sh, "_combine_1d_property")
        c2 = _nested(sh, "_combine_cov_mats")
        s1 = _txt(c1)
        ok = s1.all_like("_c = np.zeros(shape=_data_indices[-1])", "for _j, _v in enumerate(single_fit_properties): _c[_data_indices[_j]:_data_indices[_j + 1]] = _v", "return _c")
        R.ob("B-diag", "_combine_1d_property", ok, (sh.file, c1.lineno), "concatenation must place the j-th member's values at [_data_indices[j] : _data_indices[j+1]]")
        s2 = _txt(c2)
        ok = s2.all_like("_c = np.zeros(shape=(_data_indices[-1], _data_indices[-1]))",
                         "for _j, _v in enumerate(single_fit_properties): _c[_data_indices[_j]:_data_indices[_j + 1], _data_indices[_j]:_data_indices[_j + 1]] = _v", "return _c")
        comb = s2._binding.get("_c", "_combined_property")
        R.ob("B-diag", "_combine_cov_mats:diagonal", ok, (sh.file, c2.lineno), "the j-th member's covariance must fill the diagonal block [e_j:e_j+1, e_j:e_j+1]")
        tot = get_func(p, MF, "total_cov_mat")
        ts = _txt(tot.node)
        ok = "_lower = 0 for _fit in self._fits: _upper = _lower + _fit.data_size _total_cov_mat[_lower:_upper, _lower:_upper] = _fit.total_cov_mat _lower = _upper" in ts
        R.ob("B-diag", "MultiFit.total_cov_mat:blocks", ok, (tot.file, tot.lineno), "without shared errors the total covariance must be block diagonal with consecutive blocks of the members' sizes")

    # ---------------------------------------------------------------- B-off
    with R.guard("Boff"):
        sl = _loops_over(c2, "self._shared_error_dicts.values()")
        ok = len(sl) == 1
        R.ob("B-off", "_combine_cov_mats:source loop", ok, (sh.file, c2.lineno), "off-diagonal blocks must be built in one loop over the shared sources")
        if ok:
            lp = sl[0]
            ev = _txt(lp.target)
            from .formulas import canon_cond_text
            R.ob("B-off", "_combine_cov_mats:source guards present", True, (sh.file, lp.lineno), "", nontrivial=False) if False else None
            _guards_of = lambda n_: canon_cond_text(common.guard_conditions_inside(lp, n_))  # noqa: E731
            stores = []
            for s in ast.walk(lp):
                tg = s.targets[0] if isinstance(s, ast.Assign) and len(s.targets) == 1 else (s.target if isinstance(s, ast.AugAssign) else None)
                if tg is not None and isinstance(tg, ast.Subscript) and _txt(tg.value) == comb:
                    stores.append(s)
            if not stores:
                raise AnalysisError("_combine_cov_mats: no store into the combined matrix inside the shared-source loop")
            lit = [x for st_ in stores for t_, pol_ in common.guard_conditions_inside(lp, st_) if pol_
                   for x in ([_txt(v) for v in t_.values] if isinstance(t_, ast.BoolOp) and isinstance(t_.op, ast.And) else [_txt(t_)])]
            R.ob("B-off", "_combine_cov_mats:enabled", lit.count("%s['enabled']" % ev) == len(stores), (sh.file, lp.lineno), "a disabled shared source must not contribute")
            R.ob("B-off", "_combine_cov_mats:axis", lit.count("%s['axis'] == axis_name" % ev) == len(stores), (sh.file, lp.lineno), "a shared source contributes to the matrix of its own axis only")
            aug = all(isinstance(s, ast.AugAssign) and isinstance(s.op, ast.Add) for s in stores)
            R.ob("B-off", "_combine_cov_mats:accumulate", aug, (sh.file, stores[0].lineno),
                 "off-diagonal blocks must accumulate (+=): a plain store makes the last of several sources sharing a pair of members overwrite the others")
            idx = []
            for s in stores:
                tg = s.targets[0] if isinstance(s, ast.Assign) else s.target
                sli = tg.slice
                if isinstance(sli, ast.Tuple) and len(sli.elts) == 2:
                    idx.append((_txt(sli.elts[0]), _txt(sli.elts[1])))
            sym = len(idx) == len(stores) and all((b, a) in idx for a, b in idx) and all(a != b for a, b in idx)
            R.ob("B-off", "_combine_cov_mats:both blocks", sym and len(idx) >= 2, (sh.file, stores[0].lineno), "the source must be written to block (j,k) and to its transpose block (k,j) (found %s)" % idx)
            vals = set()
            for s in stores:
                v = s.value
                if isinstance(v, ast.Name):
                    defs = [d for d in ast.walk(lp) if isinstance(d, ast.Assign) and isinstance(d.targets[0], ast.Name) and d.targets[0].id == v.id]
                    v = defs[-1].value if defs else v
                vals.add(_txt(v))
            R.ob("B-off", "_combine_cov_mats:value", vals == {"%s['err'].cov_mat" % ev}, (sh.file, stores[0].lineno), "the stored value must be the source's absolute covariance matrix (found %s)" % sorted(vals))
        # block edges through the map: every _data_indices[...] lookup outside the diagonal loops uses a slot taken from _fit_index_to_data_index
        bad = []
        n_lookup = 0
        for fn in (c2,):
            diag_loops = [l for l in ast.walk(fn) if isinstance(l, ast.For) and "enumerate(single_fit_properties)" in _txt(l.iter)]
            skip = {id(x) for l in diag_loops for x in ast.walk(l)}
            scope = [sh.node]
            for n in ast.walk(sh.node):
                if isinstance(n, ast.Subscript) and _txt(n.value) == "_data_indices" and isinstance(n.ctx, ast.Load) and id(n) not in skip:
                    it = _txt(n.slice)
                    if it in ("-1",):
                        continue
                    # inside _combine_1d_property's own loop
                    if any(n in list(ast.walk(l)) for l in ast.walk(c1) if isinstance(l, ast.For)):
                        continue
                    base = it[:-4] if it.endswith(" + 1") else it
                    defs = [d for d in ast.walk(sh.node) if isinstance(d, ast.Assign) and _txt(d.targets[0]) == base]
                    n_lookup += 1
                    direct = base.startswith("_fit_index_to_data_index[")   # written out
                    if not direct and (not defs or not all(_txt(d.value).startswith("_fit_index_to_data_index[") for d in defs)):
                        bad.append("%s (line %d)" % (it, n.lineno))
        R.ob("B-off", "_init_shared_error_nodes:edges through the map", not bad and n_lookup >= 2, (sh.file, c2.lineno),
             "block edges of a sharing member must be _data_indices[slot], _data_indices[slot + 1] with slot = _fit_index_to_data_index[fit index] (fit indices differ from data slots "
             "as soon as a non-chi2 member precedes) - offending: %s" % bad)

    # ---------------------------------------------------------------- B-tot
    with R.guard("Btot"):
        for fn in ("total_cov_mat_cholesky", "total_cov_mat_qr"):
            n = _nested(sh, fn)
            from ..termform import assigned_exprs

            dec = "cholesky_decomposition" if fn.endswith("cholesky") else "qr_decomposition"
            from ..termform import path_exprs, subst
            forms = {}
            for conds, e, env in path_exprs(n, lambda st: [st.value] if isinstance(st, ast.Return) and st.value is not None else []):
                forms[" and ".join(canon_cond_text(conds))] = Normalizer({}).norm(subst(e, env)).canon()
            from ..termform import norm_spec
            spec = norm_spec("%s(y_cov_mat if self._min_x_error is None else y_cov_mat + x_cov_mat * outer(derivatives, derivatives))" % dec).canon()
            split = {"(self._min_x_error is None)": norm_spec("%s(y_cov_mat)" % dec).canon(), "not (self._min_x_error is None)": norm_spec("%s(y_cov_mat + x_cov_mat * outer(derivatives, derivatives))" % dec).canon()}
            rets, want = [spec], forms
            forms_ok = forms == {"": spec} or forms == split
            R.ob("B-tot", "_init_shared_error_nodes:%s" % fn, forms_ok and [a.arg for a in n.args.args] == ["x_cov_mat", "derivatives", "y_cov_mat"], (sh.file, n.lineno),
                 "%s must decompose y + x o outer(derivatives, derivatives) (x part only when x uncertainties exist); found %s -> %s" % (fn, forms, rets))
        rs = return_exprs(tot.node)
        got = [Normalizer(env).norm(e).canon() for conds, e, env in rs if conds and conds[0][1] and "_shared_error_dicts" in _txt(conds[0][0])]
        want = "((self._nexus).get('x_cov_mat')).value*outer(((self._nexus).get('derivatives')).value,((self._nexus).get('derivatives')).value) + ((self._nexus).get('y_cov_mat')).value"
        R.ob("B-tot", "MultiFit.total_cov_mat:shared", got == [want], (tot.file, tot.lineno), "with shared errors the total covariance must be y_cov_mat + x_cov_mat o outer(derivatives, derivatives) of the joint nodes (found %s)" % got)
        sc = _txt(scf.node)
        ok = "self._DATA_NAME = 'y_data'" in sc and "self._MODEL_NAME = 'y_model'" in sc and "self._COV_MAT_CHOLESKY_NAME = 'total_cov_mat_cholesky'" in sc and "self._COV_MAT_QR_NAME = 'total_cov_mat_qr'" in sc \
            and "errors_to_use='covariance'" in sc and "add_determinant_cost=True" in sc
        R.ob("B-tot", "SharedCostFunction.__init__", ok, (scf.file, scf.lineno), "the shared cost must be the covariance chi2 (with determinant) of the joint y data / y model and the joint decompositions")
        for nm, names in (("x_cov_mat", "_x_cov_mat_names"), ("y_cov_mat", "_y_cov_mat_names")):
            ok = "self._nexus.add_function(lambda *p: _combine_cov_mats('%s', *p), '%s', %s, False)" % (nm[0], nm, names) in ssrc
            R.ob("B-tot", "_init_shared_error_nodes:%s node" % nm, ok, (sh.file, sh.lineno), "node %s must combine the members' %s-matrices with the shared sources of axis '%s'" % (nm, nm[0], nm[0]))
        ok = all("self._nexus.add_function(_combine_1d_property, '%s', %s, False)" % (a, b) in ssrc for a, b in (("derivatives", "_derivative_names"), ("y_data", "_y_data_names"), ("y_model", "_y_model_names")))
        R.ob("B-tot", "_init_shared_error_nodes:1d nodes", ok, (sh.file, sh.lineno), "derivatives, y_data and y_model must be the concatenations of the sharing members' nodes")

        # the switch "x uncertainties exist" follows the members: read from the live x covariance, never cached on the multi-fit
        mfc = p.find_class(MF)
        pr = mfc.find_prop("_min_x_error")
        stores = [(f_.qualname, n.lineno) for f_ in p.all_functions() if f_.cls is mfc for n in ast.walk(f_.node) if isinstance(n, ast.Assign) and any(self_attr(t) == "_min_x_error" for t in n.targets)]
        ok = pr is not None and pr.fget is not None and "self._nexus.get('x_cov_mat').value" in _txt(pr.fget.node) and not stores
        R.ob("B-tot", "MultiFit._min_x_error:live", ok, (sh.file, sh.lineno),
             "the smallest x uncertainty must be computed from the current joint x covariance whenever it is asked for: a value cached by the MultiFit (%s) does not see x uncertainties "
             "added to a member afterwards, and the shared cost ignores them" % (stores or "no property"))
        ok = ssrc.like("self._nexus.add_dependency('derivatives%s' % _i, ('parameter_values', 'x_cov_mat%s' % _i))")
        R.ob("B-tot", "_init_shared_error_nodes:derivative dependencies", ok, (sh.file, sh.lineno), "the slopes of a member depend on the parameters and on that member's x covariance (the step size and the zero shortcut follow it)")

    # ---------------------------------------------------------------- U-res
    with R.guard("Ures"):
        for fn, kind in (("do_fit", "method"), ("asymmetric_parameter_errors", "prop")):
            f = get_func(p, MF, fn)
            g = eng.cfg(f)
            sup = [n for n in g.nodes if any(isinstance(c, ast.Attribute) and c.attr == fn and isinstance(c.value, ast.Call) and _txt(c.value.func) == "super" for part in n.ast_parts() for c in walk_no_nested(part))]
            ok = len(sup) == 1
            if ok:
                ok, _ = g.all_paths_pass(sup[0].id, lambda n: any(isinstance(c, ast.Call) and isinstance(c.func, ast.Attribute) and c.func.attr == "_update_singular_fits" and is_self(c.func.value)
                                                                  for part in n.ast_parts() for c in walk_no_nested(part)))
            R.ob("U-res", "MultiFit.%s" % fn, ok, (f.file, f.lineno), "after the base class produced results, %s must update the members on every normal path" % fn)
        us = get_func(p, MF, "_update_singular_fits")
        usrc = _txt(us.node)
        loops = _loops_over(us.node, "self._fits")
        ok = len(loops) == 1
        R.ob("U-res", "_update_singular_fits:all members", ok, (us.file, us.lineno), "every member must be updated")
        if ok:
            lp = loops[0]
            fv = _txt(lp.target)
            body = _txt(ast.Module(body=lp.body, type_ignores=[]))
            IDX = "[self.parameter_names.index(_q) for _q in %s.parameter_names]" % fv
            bsrc = common.Src(body)
            helper = bsrc.like("_ix = self._get_parameter_indices(%s)" % fv) or bsrc.like("_ix = " + IDX)   # through the helper, or the helper written out into a local
            ix = "_ix" if helper else IDX
            R.ob("U-res", "_update_singular_fits:indices", helper or bsrc.like(IDX), (us.file, lp.lineno), "sub-blocks must be selected by the member's own parameter indices")
            dct = [s for s in lp.body if isinstance(s, ast.Assign) and _txt(s.targets[0]) == "%s._loaded_result_dict" % fv and isinstance(s.value, ast.Call)]
            okd = len(dct) == 1
            kw = {k.arg: _txt(k.value) for k in dct[0].value.keywords} if okd else {}
            # what each key holds, per path through the loop body (temporaries, conditional expressions and written-out helpers read through)
            IXS = ("[self.parameter_names.index(_q1) for _q1 in %s.parameter_names]" % fv, "self._get_parameter_indices(%s)" % fv)
            body_mod = ast.Module(body=lp.body, type_ignores=[])

            def values(key):
                return common.call_args_by_path(body_mod, lambda c: okd and c is dct[0].value, arg=lambda c: next((k.value for k in c.keywords if k.arg == key), None))

            def plain(key, *want):
                vs = {_txt(common.alpha_expr(e)) for _, e in values(key)}
                return len(vs) == 1 and vs <= set(want)

            ok = set(kw) == {"did_fit", "parameter_errors", "parameter_cor_mat", "parameter_cov_mat", "asymmetric_parameter_errors"} and plain("did_fit", "self.did_fit") \
                and plain("parameter_errors", *["self.parameter_errors[%s]" % ix for ix in IXS])
            R.ob("U-res", "_update_singular_fits:result keys", ok, (us.file, lp.lineno), "each member must receive did_fit, errors, correlation, covariance and asymmetric errors (found %s)" % kw)
            for key, srcattr in (("parameter_cor_mat", "self.parameter_cor_mat"), ("parameter_cov_mat", "self.parameter_cov_mat")):
                ok = any(common.optional_selection(values(key), srcattr, "%s[%s][:, %s]" % (srcattr, ix, ix)) for ix in IXS)
                R.ob("U-res", "_update_singular_fits:_par_%s" % key[10:], ok, (us.file, lp.lineno), "the member's matrix must be the rows and columns of %s at the member's parameter indices (None while there is none)" % srcattr)
            ASY = "self._fitter.asymmetric_fit_parameter_errors_if_calculated"
            ok = any(common.optional_selection(values("asymmetric_parameter_errors"), ASY, "%s[%s]" % (ASY, ix)) for ix in IXS)
            R.ob("U-res", "_update_singular_fits:asymmetric", ok, (us.file, lp.lineno), "asymmetric errors must be the rows at the member's parameter indices")
        gi = get_func(p, MF, "_get_parameter_indices")
        rs = return_exprs(gi.node)
        ok = len(rs) == 1 and _txt(common.alpha_expr(rs[0][1])) == "[self.parameter_names.index(_q1) for _q1 in singular_fit.parameter_names]"
        R.ob("U-res", "_get_parameter_indices", ok, (gi.file, gi.lineno), "a member's indices are the positions of its parameter names in the multi fit's parameter names, in the member's order")

    # ---------------------------------------------------------------- U-fix
    with R.guard("Ufix"):
        f = get_func(p, MF, "fix_parameter")
        fs = _txt(f.node)
        g = eng.cfg(f)
        ok = fs.all_like("self._fitter.fix_parameter(name, value)", "_v = self._fitter.fixed_parameters[name]")
        R.ob("U-fix", "MultiFit.fix_parameter:multi", ok, (f.file, f.lineno), "the multi fitter must fix the parameter first; the mirrored value is the one it recorded")
        ok = fs.like("for _m in self._fits: if name in _m.parameter_names: _m.fix_parameter(name, _v)")
        R.ob("U-fix", "MultiFit.fix_parameter:members", ok, (f.file, f.lineno), "every member that has the parameter must fix it at the recorded value")
        f = get_func(p, MF, "release_parameter")
        fs = _txt(f.node)
        R.ob("U-fix", "MultiFit.release_parameter:multi", "self._fitter.release_parameter(name)" in fs, (f.file, f.lineno), "the multi fitter must release the parameter")
        ok = fs.like("for _m in self._fits: if name in _m.parameter_names: _m.release_parameter(name)")
        R.ob("U-fix", "MultiFit.release_parameter:members", ok, (f.file, f.lineno), "every member that has the parameter must release it")
