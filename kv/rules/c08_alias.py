"""C08 rule Calias: the snapshot used to undo an excursion shares no mutable object with the live state.

A field of a minimizer adapter that some method of the adapter (or of a base class) changes *in place* (`self._f[i] = v`, `self._f[i] += v`,
`self._f.append(..)`) must be decoupled from the snapshot in both directions: `_save_state` stores a copy of it, `_load_state` installs a copy of the
stored object.  Otherwise the first in-place store after a save / a load writes into the snapshot, and the next `_load_state` "restores" a point of the
excursion (asymmetric errors of several parameters with the scipy adapter: per-parameter load, then `set` of the next parameter).

Decided by an abstract evaluation of the two method bodies (syntax directed, If / IfExp with `is None` tests refined, locals followed): every value that
reaches the target is FRESH (result of a copying constructor), NONE (the source is known to be None on that path), ALIAS (the source object itself) or
UNKNOWN (anything else: counted, never reported).  Only ALIAS at a store is a violation."""
import ast

from ..engine import AnalysisError

COPY_FUNCS = {"np.array", "numpy.array", "np.copy", "numpy.copy", "list", "dict", "tuple", "set", "copy.copy", "copy.deepcopy", "deepcopy", "copy", "float", "int", "bool",
              "np.zeros_like", "np.ones_like", "np.empty_like"}
COPY_METHODS = {"copy", "tolist", "astype"}
MUTATING_METHODS = {"append", "extend", "insert", "pop", "remove", "sort", "reverse", "fill", "clear", "update", "setdefault", "put", "resize", "itemset"}
SNAP = "_save_state_dict"

FRESH, NONE, UNKNOWN = "fresh", "none", "unknown"


def _self_attr(e):
    if isinstance(e, ast.Attribute) and isinstance(e.value, ast.Name) and e.value.id == "self":
        return e.attr
    return None


def _snap_key(e):
    if isinstance(e, ast.Subscript) and _self_attr(e.value) == SNAP:
        return " ".join(ast.unparse(e.slice).split())
    return None


def mutated_in_place(classes):
    """names of self attributes that some method of the given classes changes in place -> first site"""
    out = {}
    for cls in classes:
        for n in ast.walk(cls.node):
            tgt = []
            if isinstance(n, ast.Assign):
                tgt = n.targets
            elif isinstance(n, ast.AugAssign):
                tgt = [n.target]
            for t in tgt:
                for el in (t.elts if isinstance(t, (ast.Tuple, ast.List)) else [t]):
                    if isinstance(el, ast.Subscript):
                        a = _self_attr(el.value)
                        if a and a != SNAP:
                            out.setdefault(a, (cls.file, el.lineno))
            if isinstance(n, ast.Call) and isinstance(n.func, ast.Attribute) and n.func.attr in MUTATING_METHODS:
                a = _self_attr(n.func.value)
                if a and a != SNAP:
                    out.setdefault(a, (cls.file, n.lineno))
    return out


class _Eval:
    """is_source(expr) -> source id or None; is_target(store target) -> target id or None"""

    def __init__(self, is_source, is_target):
        self.is_source, self.is_target = is_source, is_target
        self.reports = []  # (target, source, lineno)
        self.decided = 0
        self.unknown = 0

    def value(self, e, env, none):
        """set of abstract values; ALIAS is represented by ('alias', source)"""
        src = self.is_source(e)
        if src is not None:
            return {NONE} if src in none else {("alias", src)}
        if isinstance(e, ast.Constant):
            return {NONE} if e.value is None else {FRESH}
        if isinstance(e, ast.Name):
            return set(env.get(e.id, {UNKNOWN}))
        a = _self_attr(e)
        if a is not None and ("self." + a) in env:
            return set(env["self." + a])
        if isinstance(e, ast.IfExp):
            n_true, n_false = self.refine(e.test, env, none)
            return self.value(e.body, env, n_true) | self.value(e.orelse, env, n_false)
        if isinstance(e, ast.Call):
            fn = " ".join(ast.unparse(e.func).split())
            if fn in COPY_FUNCS or (isinstance(e.func, ast.Attribute) and e.func.attr in COPY_METHODS):
                return {FRESH}
            return {UNKNOWN}
        if isinstance(e, (ast.BinOp, ast.UnaryOp, ast.Compare, ast.BoolOp, ast.List, ast.ListComp, ast.Dict, ast.DictComp, ast.Tuple, ast.JoinedStr)):
            return {FRESH}
        return {UNKNOWN}

    def refine(self, test, env, none):
        """(known-None sources if test true, if test false)"""
        t, f = set(none), set(none)
        neg = False
        while isinstance(test, ast.UnaryOp) and isinstance(test.op, ast.Not):
            test, neg = test.operand, not neg
        if isinstance(test, ast.Compare) and len(test.ops) == 1 and isinstance(test.comparators[0], ast.Constant) and test.comparators[0].value is None \
                and isinstance(test.ops[0], (ast.Is, ast.IsNot)):
            vals = self.value(test.left, env, set())
            srcs = {v[1] for v in vals if isinstance(v, tuple)}
            if srcs and all(isinstance(v, tuple) for v in vals):
                is_none = isinstance(test.ops[0], ast.Is) != neg
                (t if is_none else f).update(srcs)
        return t, f

    def block(self, body, env, none):
        for st in body:
            if isinstance(st, ast.Assign):
                vals = self.value(st.value, env, none)
                for t in st.targets:
                    self.store(t, vals, env, st)
            elif isinstance(st, ast.AnnAssign) and st.value is not None:
                self.store(st.target, self.value(st.value, env, none), env, st)
            elif isinstance(st, ast.If):
                n_true, n_false = self.refine(st.test, env, none)
                e1 = {k: {NONE if (isinstance(v, tuple) and v[1] in n_true) else v for v in vs} for k, vs in env.items()}
                e2 = {k: {NONE if (isinstance(v, tuple) and v[1] in n_false) else v for v in vs} for k, vs in env.items()}
                self.block(st.body, e1, n_true)
                self.block(st.orelse, e2, n_false)
                for k in set(e1) | set(e2):
                    env[k] = set(e1.get(k, {UNKNOWN})) | set(e2.get(k, {UNKNOWN}))
            elif isinstance(st, (ast.For, ast.While, ast.With, ast.Try)):
                # not an idiom of the snapshot methods: everything assigned inside is unknown afterwards
                for n in ast.walk(st):
                    if isinstance(n, ast.Assign):
                        for t in n.targets:
                            self.store(t, {UNKNOWN}, env, n)

    def store(self, t, vals, env, st):
        if isinstance(t, ast.Name):
            env[t.id] = set(vals)
            return
        tid = self.is_target(t)
        a = _self_attr(t)
        if a is not None:
            env["self." + a] = set(vals)
        if tid is None:
            return
        # the verdict for a target is taken at the end of the method, joined over the paths (see run)
        env[tid] = set(vals)
        self.final[tid] = st.lineno

    def run(self, fn_node):
        self.final = {}
        env = {}
        self.block(fn_node.body, env, set())
        # a field re-assigned later through env (self._f = dict[K]; if self._f is not None: self._f = np.array(self._f)) has its joined value in env
        for tid, line in self.final.items():
            vals = env[tid]
            al = sorted(v[1] for v in vals if isinstance(v, tuple))
            if al:
                self.reports.append((tid, al[0], line))
            elif UNKNOWN in vals:
                self.unknown += 1
            else:
                self.decided += 1


def check(eng, R, rule, adapters):
    """Reported only where the code itself states that the field needs decoupling: the opposite direction of the same transfer copies (contradiction rule).
    A field shared in both directions (MinimizerIMinuit._minimizer_param_dict today) is listed as undecided, not reported."""
    p = eng.p
    n_ob = 0
    for an in adapters:
        cls = p.find_class(an)
        family = [cls] + [c for c in cls.mro if c is not cls]
        mut = mutated_in_place(family)
        ld, sv = cls.methods.get("_load_state"), cls.methods.get("_save_state")
        if ld is None or sv is None:
            continue
        ev_l = _Eval(is_source=lambda e: _snap_key(e) and "snapshot[%s]" % _snap_key(e),
                     is_target=lambda t: ("self." + _self_attr(t)) if _self_attr(t) in mut else None)
        ev_s = _Eval(is_source=lambda e: ("self." + _self_attr(e)) if (_self_attr(e) in mut and isinstance(getattr(e, "ctx", None), ast.Load)) else None,
                     is_target=lambda t: _snap_key(t) and "snapshot[%s]" % _snap_key(t))
        ev_l.run(ld.node)
        ev_s.run(sv.node)
        alias_l = {(t, s_): ln for t, s_, ln in ev_l.reports}  # (self._X, snapshot[K])
        alias_s = {(s_, t): ln for t, s_, ln in ev_s.reports}  # (self._X, snapshot[K])
        for tid in sorted(ev_l.final):
            n_ob += 1
            bad = [(k, ln) for k, ln in alias_l.items() if k[0] == tid]
            if not bad:
                R.ob(rule, "%s._load_state:%s" % (an, tid), True, (ld.file, ev_l.final[tid]), "")
                continue
            (x, k), line = bad[0]
            if (x, k) in alias_s:
                R.ob(rule, "%s._load_state:%s" % (an, tid), True, (ld.file, line), "shared in both directions: undecided (no stated belief that %s needs decoupling)" % x, nontrivial=False)
                continue
            R.ob(rule, "%s._load_state:%s" % (an, tid), False, (ld.file, line),
                 "%s._load_state lets %s and %s be the same object although _save_state stores a copy; %s is changed in place at %s:%d, so the next in-place store "
                 "writes into the snapshot and a later _load_state restores a point of the excursion instead of the optimum" % (an, x, k, x, mut[x[5:]][0], mut[x[5:]][1]))
        for (x, k), line in sorted(alias_s.items()):
            n_ob += 1
            if (x, k) in alias_l:
                R.ob(rule, "%s._save_state:%s" % (an, k), True, (sv.file, line), "shared in both directions: undecided", nontrivial=False)
                continue
            R.ob(rule, "%s._save_state:%s" % (an, k), False, (sv.file, line),
                 "%s._save_state lets %s and %s be the same object although _load_state installs a copy; %s is changed in place at %s:%d, so the first in-place store "
                 "of an excursion writes into the snapshot and _load_state restores a point of the excursion instead of the optimum" % (an, k, x, x, mut[x[5:]][0], mut[x[5:]][1]))
    if n_ob < 5:
        raise AnalysisError("Calias: only %d snapshot transfers found" % n_ob)
