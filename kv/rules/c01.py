"""C01 - cost value = documented -2 log L of exactly the declared inputs: wiring by name (R-D)."""
import ast

from ..consteval import cost_model, is_unknown, nexus_model
from ..effects import is_self, self_attr, walk_no_nested
from ..engine import AnalysisError, norm_stmt
from . import cache, common

FITS = ["XYFit", "IndexedFit", "HistFit", "UnbinnedFit"]
_CACHE = {}


def registry_of(eng, ctx):
    """{identifier: (ClassInfo, kwargs)} of the fit class's _STRING_TO_COST_FUNCTION"""
    p = eng.p
    r = ctx.lookup("_STRING_TO_COST_FUNCTION")
    if not r or r[0] != "const":
        raise AnalysisError("%s has no _STRING_TO_COST_FUNCTION" % ctx.name)
    expr, owner = r[1], r[2]
    mod = owner.module
    seen = 0
    while isinstance(expr, ast.Name) and seen < 5:
        t = p.resolve_name(mod, expr.id)
        if not (isinstance(t, tuple) and t[0] == "const"):
            raise AnalysisError("cannot resolve registry %s of %s" % (expr.id, ctx.name))
        expr, mod = t[1], t[2]
        seen += 1
    if not isinstance(expr, ast.Dict):
        raise AnalysisError("registry of %s is not a dict literal" % ctx.name)
    out = {}
    for k, v in zip(expr.keys, expr.values):
        key = common.const_str(k)
        if key is None or not isinstance(v, ast.Tuple) or len(v.elts) != 2:
            raise AnalysisError("registry entry of %s not understood: %s" % (ctx.name, ast.unparse(k)))
        cls = p.resolve_expr_to_class(mod, v.elts[0])
        if cls is None:
            raise AnalysisError("registry entry %s: class %s not resolved" % (key, ast.unparse(v.elts[0])))
        try:
            kw = ast.literal_eval(v.elts[1])
        except Exception:
            raise AnalysisError("registry entry %s: kwargs not literal" % key)
        out[key] = (cls, kw, (mod.relpath, k.lineno))
    return out


def registry_cost_models(eng, ctx):
    key = (id(eng), ctx.name)
    if key in _CACHE:
        return _CACHE[key]
    out = []
    seen = {}
    for ident, (cls, kw, where) in sorted(registry_of(eng, ctx).items()):
        k2 = (cls.name, tuple(sorted(kw.items())))
        if k2 not in seen:
            seen[k2] = cost_model(eng.p, cls, kw)
        cm = seen[k2]
        if cm["arg_names"] is None or cm["handle"] is None:
            raise AnalysisError("cost model of registry entry '%s' (%s %s) could not be reconstructed: %s" % (ident, cls.name, kw, cm["trace"][:2]))
        out.append((ident, cm))
        pv = cm.get("pointwise_version")
        if isinstance(pv, tuple) and pv and pv[0] == "costmodel":
            out.append((ident + "[pointwise twin]", pv[1]))
    _CACHE[key] = out
    return out


def _strip_axis(n):
    return n[2:] if n.startswith(("x_", "y_")) else n


def run(eng, R):
    p = eng.p
    _ob = R.ob
    _seen = set()

    def ob_once(rule, construct, ok, where, what="", **kw):
        if (rule, construct) in _seen:
            return ok
        _seen.add((rule, construct))
        return _ob(rule, construct, ok, where, what, **kw)

    R.ob = ob_once
    R.rule("D1", "for every registry entry x fit class: the formal parameters of the cost handle equal the wired node names position by position "
                 "(data/model renamed by _DATA_NAME/_MODEL_NAME, optional axis prefix), and every wired name is a node of the fit's static graph", 40)
    R.rule("D2", "the determinant node appended to the arguments matches the quadratic form (covariance decomposition -> total_cov_mat_log_determinant, "
                 "pointwise errors -> total_error_squared_log_sum) and is the node chi2_probability subtracts", 8)
    R.rule("D3", "the pointwise twin built by pointwise_version carries the same effective flags (constraint cost, determinant cost) and data/model names", 4)
    R.rule("D4", "implicit arguments are appended in __init__ in the reverse order in which __call__ and goodness_of_fit strip them", 3)
    R.rule("D5", "XY cost functions restricted to the y axis wire only y_-prefixed uncertainty nodes; unrestricted ones only projected (unprefixed) nodes", 4)
    R.rule("D9", "the node wired to the cost argument `model` depends on the fit parameters in the fit's static graph; the node wired to `data` does not", 8)
    R.rule("D6", "every callback field stored on another object is a field that object's class reads (container -> fit invalidation hook)", 4)
    R.rule("D8", "after an axis specification has been normalised, the raw specification does not flow into storage, indexing or closures", 2)
    R.rule("Dsw", "implicit chi2_no_errors is replaced by the covariance chi2 when the first source is registered; exact (tolerance-free) diagonality test selects the pointwise cost", 3)

    graphs = {}
    for cn in FITS:
        ctx = p.find_class(cn)
        G, tr = nexus_model(p, ctx)
        graphs[cn] = G
        for ident, cm in registry_cost_models(eng, ctx):
            formals, wired = cm["formals"], cm["arg_names"]
            where = (cm["handle_func"].file, cm["handle_func"].lineno) if cm["handle_func"] else (ctx.file, 0)
            fl = cm["fields"]
            dn, mn = fl.get("_DATA_NAME", None), fl.get("_MODEL_NAME", None)
            if dn is None:
                dn = p.find_class(cm["cls"]).const_value("_DATA_NAME")
            if mn is None:
                mn = p.find_class(cm["cls"]).const_value("_MODEL_NAME")
            ok = formals is not None and len(wired) >= len(formals)
            bad = []
            if ok:
                for fpar, w in zip(formals, wired):
                    exp = {"data": dn, "model": mn}.get(fpar)
                    if exp is not None:
                        if w != exp:
                            bad.append("%s<-%s (expected %s)" % (fpar, w, exp))
                    elif _strip_axis(w) != fpar:
                        bad.append("%s<-%s" % (fpar, w))
            R.ob("D1", "%s:%s:%s:formals" % (cn, cm["cls"], _cfg(cm)), ok and not bad, where,
                 "%s '%s' (%s %s): handle %s%s is called with the nodes %s: mismatch %s - the cost function receives a different quantity than its parameter means" % (
                     cn, ident, cm["cls"], cm["kwargs"], cm["handle"], formals, wired[: len(formals or [])], bad))
            missing = [w for w in wired if w not in G.nodes]
            R.ob("D1", "%s:%s:%s:nodes" % (cn, cm["cls"], _cfg(cm)), not missing, where,
                 "%s '%s': wired argument names %s are not nodes of the %s graph" % (cn, ident, missing, cn))
            # D9: the node bound to `model` follows the parameters, the node bound to `data` does not
            if formals and "model" in formals and "[pointwise twin]" not in ident:
                mnode = wired[formals.index("model")]
                if mnode in G.nodes:
                    okm = "parameter_values" in G.depends_closure(mnode)
                    R.ob("D9", "%s:%s:model<-%s" % (cn, cm["cls"], mnode), okm, where,
                         "%s '%s' (%s): the argument `model` is bound to node '%s', which does not depend on the fit parameters in the %s graph: "
                         "the cost never changes when the parameters change" % (cn, ident, cm["cls"], mnode, cn))
            if formals and "data" in formals and "[pointwise twin]" not in ident:
                dnode = wired[formals.index("data")]
                if dnode in G.nodes:
                    okd = "parameter_values" not in G.depends_closure(dnode)
                    R.ob("D9", "%s:%s:data<-%s" % (cn, cm["cls"], dnode), okd, where, "%s '%s': the argument `data` is bound to node '%s', which depends on the fit parameters" % (cn, ident, dnode))
            # D2
            det = [w for w in wired if w.endswith("_log_determinant") or w.endswith("_squared_log_sum")]
            if fl.get("_add_determinant_cost") is True:
                uses_cov = any("cov_mat" in x for x in (formals or []))
                uses_err = any(x.endswith("_error") or x == "total_error" for x in (formals or []))
                want_suffix = "_cov_mat_log_determinant" if uses_cov else ("_error_squared_log_sum" if uses_err else None)
                ok2 = len(det) == 1 and want_suffix is not None and det[0].endswith(want_suffix)
                R.ob("D2", "%s:%s:%s" % (cn, cm["cls"], _cfg(cm)), ok2, where,
                     "%s '%s' (%s %s): the quadratic form uses %s but the determinant term added is %s - %s" % (
                         cn, ident, cm["cls"], cm["kwargs"], [x for x in formals if "cov_mat" in x or "error" in x], det,
                         "ln det of a different quantity than the one the chi2 is built from; chi2_probability subtracts total_cov_mat_log_determinant"))
            else:
                R.ob("D2", "%s:%s:%s" % (cn, cm["cls"], _cfg(cm)), not det, where, "%s '%s': determinant argument %s wired although the flag is off" % (cn, ident, det))
        # D3: twins
        done = set()
        for ident, (cls, kw, where) in sorted(registry_of(eng, ctx).items()):
            k2 = (cls.name, tuple(sorted(kw.items())))
            if k2 in done:
                continue
            done.add(k2)
            cm = cost_model(p, cls, kw)
            pv = cm.get("pointwise_version")
            if not (isinstance(pv, tuple) and pv and pv[0] == "costmodel"):
                continue
            tw = pv[1]

            def eff_det(m):
                return bool(m["fields"].get("_add_determinant_cost") is True or m["fields"].get("_add_determinant_cost_ga") is True)

            diffs = []
            if eff_det(cm) != eff_det(tw):
                diffs.append("determinant cost %s -> %s" % (eff_det(cm), eff_det(tw)))
            if cm["fields"].get("_add_constraint_cost") != tw["fields"].get("_add_constraint_cost"):
                diffs.append("constraint cost %s -> %s" % (cm["fields"].get("_add_constraint_cost"), tw["fields"].get("_add_constraint_cost")))
            for nm in ("_DATA_NAME", "_MODEL_NAME"):
                if cm["fields"].get(nm) != tw["fields"].get(nm):
                    diffs.append("%s %s -> %s" % (nm, cm["fields"].get(nm), tw["fields"].get(nm)))
            if not (tw.get("pointwise") is True):
                diffs.append("twin is not pointwise")
            R.ob("D3", "%s:%s" % (cls.name, _cfg(cm)), not diffs, (cls.file, cls.node.lineno),
                 "%s %s: pointwise_version differs from the original in %s (do_fit silently switches to the twin when the covariance is diagonal)" % (cls.name, kw, diffs))

    # ---- D5 axis constants (explicit XY configurations beyond the registry)
    with R.guard("D5 axis constants (explicit XY configurations beyond the reg"):
        for cname in ("XYCostFunction_Chi2", "XYCostFunction_GaussApproximation", "XYCostFunction_NegLogLikelihood"):
            cls = p.find_class(cname)
            for axes in ("y", "xy"):
                for extra in ({}, {"errors_to_use": "pointwise"}) if "NegLog" not in cname else ({"data_point_distribution": "gaussian"},):
                    kw = dict(extra, axes_to_use=axes)
                    cm = cost_model(p, cls, kw)
                    if cm["arg_names"] is None:
                        raise AnalysisError("cost model of %s %s not reconstructed" % (cname, kw))
                    unc = [w for w in cm["arg_names"] if ("cov_mat" in w or "error" in w)]
                    if axes == "y":
                        bad = [w for w in unc if not w.startswith("y_")]
                    else:
                        bad = [w for w in unc if w.startswith(("x_", "y_"))]
                    missing = [w for w in cm["arg_names"] if w not in graphs["XYFit"].nodes]
                    R.ob("D5", "%s:%s" % (cname, _cfg(cm)), not bad and not missing, (cls.file, cls.node.lineno),
                         "%s(%s) wires %s: with axes_to_use='%s' the uncertainty nodes %s belong to the wrong axis set%s" % (cname, kw, cm["arg_names"], axes, bad, (" / missing nodes %s" % missing) if missing else ""))

    # ---- D4 append / strip symmetry
    with R.guard("D4 append / strip symmetry"):
        CF = p.find_class("CostFunction")
        init = p.method(CF, "__init__")
        call = p.method(CF, "__call__")
        gof = p.method(CF, "goodness_of_fit")
        app = []
        for n in ast.walk(init.node):
            if isinstance(n, ast.AugAssign) and self_attr(n.target) == "_arg_names" and isinstance(n.value, ast.List):
                conds = [self_attr(c) or ast.unparse(c) for c, pol in common.guard_conditions(init.node, n) if pol]
                app.append((n.lineno, [common.const_str(e) for e in n.value.elts], conds))
        app.sort()
        order_init = []
        for _, names, conds in app:
            flag = next((c for c in conds if c in ("_add_constraint_cost", "_add_determinant_cost")), None)
            if flag and (not order_init or order_init[-1][0] != flag):
                order_init.append((flag, names))
            elif flag:
                pass
        flags_init = [f for f, _ in order_init]

        def strip_order(fn):
            out = []
            for st in fn.node.body:
                for n in ast.walk(st):
                    if isinstance(n, ast.If):
                        fl = self_attr(common.resolve_local(fn.node, n.test))   # (the flag may be held in a local)
                        if fl in ("_add_constraint_cost", "_add_determinant_cost"):
                            # `x = x[:-k]` on the argument list (whatever the local holding it is called)
                            sl = [s for s in ast.walk(n) if isinstance(s, ast.Assign) and isinstance(s.value, ast.Subscript) and isinstance(s.value.slice, ast.Slice)
                                  and isinstance(s.value.value, ast.Name) and isinstance(s.targets[0], ast.Name) and s.targets[0].id == s.value.value.id]
                            cut = None
                            for s in sl:
                                up = s.value.slice.upper
                                if isinstance(up, ast.UnaryOp) and isinstance(up.op, ast.USub) and isinstance(up.operand, ast.Constant):
                                    cut = up.operand.value
                            out.append((fl, cut))
            return out

        so = strip_order(call)
        ok = flags_init == ["_add_constraint_cost", "_add_determinant_cost"] and [f for f, _ in so] == ["_add_determinant_cost", "_add_constraint_cost"] \
            and dict(so).get("_add_determinant_cost") == 1 and dict(so).get("_add_constraint_cost") == 2
        R.ob("D4", "CostFunction.__call__", ok, eng.where(call), "__init__ appends %s, __call__ strips %s: implicit arguments are taken off in the wrong order/number" % (order_init, so))
        names = dict(order_init).get("_add_constraint_cost")
        idx = {}
        for n in ast.walk(call.node):
            if isinstance(n, ast.Assign) and isinstance(n.value, ast.Subscript) and isinstance(n.value.value, ast.Name) and n.value.value.id == "args" and isinstance(n.targets[0], ast.Name):
                sl = n.value.slice
                if isinstance(sl, ast.UnaryOp) and isinstance(sl.operand, ast.Constant):
                    idx[n.targets[0].id] = -sl.operand.value
        ok = names == ["parameter_values", "parameter_constraints"] and idx.get("_par_constraints") == -1 and idx.get("_par_vals") == -2
        R.ob("D4", "CostFunction.__call__:constraint slots", ok, eng.where(call), "constraint arguments appended as %s but read as %s" % (names, idx))
        sg = strip_order(gof)
        flags_g = [f for f, c in sg if c is not None]
        # goodness_of_fit zeroes the determinant (args[:-1] + (0.0,)) and then strips determinant, constraints for the saturated call
        ok = "_add_determinant_cost" in [f for f, _ in sg] and "_add_constraint_cost" in [f for f, _ in sg]
        zero = common.zeroed_determinant(gof.node)
        R.ob("D4", "CostFunction.goodness_of_fit", ok and zero, eng.where(gof), "goodness_of_fit must zero the determinant argument and strip determinant and constraint arguments for the saturated call (found %s, zeroing=%s)" % (sg, zero))

    # ---- D2b chi2_probability subtracts the determinant node the cost adds
    with R.guard("D2b chi2_probability subtracts the determinant node the cost"):
        FB = p.find_class("FitBase")
        cp = p.prop(FB, "chi2_probability").fget
        gets = [c.args[0] for c in ast.walk(cp.node) if isinstance(c, ast.Call) and isinstance(c.func, ast.Attribute) and c.func.attr == "get" and self_attr(c.func.value) == "_nexus" and c.args]
        guard_ok = any(isinstance(n, ast.If) and "add_determinant_cost" in ast.unparse(n.test) for n in ast.walk(cp.node))
        det_names = set()
        for cn in FITS:
            for ident, cm in registry_cost_models(eng, p.find_class(cn)):
                if cm["fields"].get("_add_determinant_cost") is True and "[pointwise twin]" not in ident:
                    det_names.add(cm["arg_names"][-1])
        ok = len(gets) == 1 and guard_ok
        if ok:
            a = gets[0]
            if common.const_str(a) is not None:
                ok = det_names == {common.const_str(a)}
            else:
                ok = " ".join(ast.unparse(common.resolve_local(cp.node, a)).split()) == "self._cost_function.arg_names[-1]"  # last argument = determinant node (D4); temporaries read through
        R.ob("D2", "FitBase.chi2_probability", ok, eng.where(cp),
             "chi2_probability subtracts %s (guarded by add_determinant_cost: %s); the registry cost functions add %s" % ([ast.unparse(a) for a in gets], guard_ok, sorted(det_names)))

    # ---- D6 callback wiring
    with R.guard("D6 callback wiring"):
        for f in p.all_functions():
            if not f.module.name.startswith("kafe2.fit"):
                continue
            for n in ast.walk(f.node):
                if isinstance(n, ast.Assign):
                    for t in n.targets:
                        if isinstance(t, ast.Attribute) and t.attr.startswith("_on_") and not is_self(t.value):
                            # the field must be read by some class of the container family
                            readers = []
                            for g in p.all_functions():
                                for a in ast.walk(g.node):
                                    if isinstance(a, ast.Attribute) and a.attr == t.attr and isinstance(a.ctx, ast.Load) and is_self(a.value):
                                        readers.append(g.qualname)
                            R.ob("D6", "%s:%s" % (f.qualname, norm_stmt(t)), bool(readers), (f.file, n.lineno),
                                 "%s stores the callback in %s, a field no class reads: the invalidation hook is never called (a source referring to this object "
                                 "never resets the minimizer, marks the error nodes or triggers the switch away from chi2_no_errors)" % (f.qualname, norm_stmt(t)))
        # both containers of a fit get the hook
        ds = p.prop(FB, "data").fset
        hooked = set()
        for ctxn in FITS:
            ctx = p.find_class(ctxn)
            w = eng.eff.trans_writes(ctx, ds)
            R.ob("D6", "%s.data.fset:data container hook" % ctxn, "_data_container._on_error_change_callback" in w, eng.where(ds), "%s: the data container is not wired to the fit's _on_error_change" % ctxn)
            R.ob("D6", "%s.data.fset:model hook" % ctxn, "_param_model._on_error_change_callback" in w, eng.where(ds), "%s: the parametric model is not wired to the fit's _on_error_change (model-referenced sources do not invalidate the fit)" % ctxn)

    # ---- D8 normalise-then-use
    with R.guard("D8 normalisethenuse"):
        XC = p.find_class("XYContainer")
        for name, f in sorted(XC.methods.items()):
            norm = None
            for n in ast.walk(f.node):
                if isinstance(n, ast.Assign) and isinstance(n.value, ast.Call) and isinstance(n.value.func, ast.Attribute) and n.value.func.attr == "_find_axis_raise" and n.value.args \
                        and isinstance(n.value.args[0], ast.Name) and isinstance(n.targets[0], ast.Name):
                    norm = (n.value.args[0].id, n.targets[0].id, n)
            if not norm:
                continue
            raw, cooked, asg = norm
            uses = [u for u in ast.walk(f.node) if isinstance(u, ast.Name) and u.id == raw and isinstance(u.ctx, ast.Load) and u is not asg.value.args[0]]
            R.ob("D8", "XYContainer.%s" % name, not uses, (f.file, uses[0].lineno if uses else f.lineno),
                 "XYContainer.%s normalises `%s` to `%s` but still uses the raw value (%s): a string axis ends up as an index / dictionary key" % (
                     name, raw, cooked, norm_stmt(common.enclosing_stmt(f.node, uses[0]))[:80] if uses else ""))

    # ---- D-pure: evaluating a cost function writes nothing on the cost-function object (instances are shared between fits: default arguments, user-supplied objects)
    with R.guard("Dpure: evaluating a cost function writes nothing on the cost"):
        R.rule("D-pure", "the cost handle of every registry entry and CostFunction.__call__ write no field of the cost-function object (a cost value depends on the arguments only)", 8)
        CF = p.find_class("CostFunction")
        seen_h = set()
        for ctx in [p.find_class(x) for x in FITS]:
            for ident, cm in registry_cost_models(eng, ctx):
                hf = cm.get("handle_func")
                cls = cm.get("class") or (hf.cls if hf is not None else None)
                if hf is None or (hf.qualname in seen_h):
                    continue
                seen_h.add(hf.qualname)
                w = sorted(x for x in eng.eff.trans_writes(hf.cls, hf) if not x.startswith(("args", "kwargs")))
                w = [x for x in w if "." not in x or x.startswith("self.")]
                R.ob("D-pure", "%s" % hf.qualname, not w, eng.where(hf),
                     "%s writes %s while evaluating the cost: the object is shared by every fit that uses this instance (HistFit's default argument, user-supplied cost functions), "
                     "so values cached from one fit's data leak into another fit's cost" % (hf.qualname, w))
        cf_call = CF.find_method("__call__")
        w = sorted(eng.eff.trans_writes(CF, cf_call))
        R.ob("D-pure", "CostFunction.__call__", not w, eng.where(cf_call), "CostFunction.__call__ writes %s" % w)

    # ---- H-proj: formulas that combine the declared sources into the matrices the cost functions receive
    with R.guard("Hproj: formulas that combine the declared sources into the m"):
        from .formulas import check, check_lambda, get_func as _gf

        R.rule("H-proj", "total = data + model uncertainties (matrices added, pointwise errors in quadrature); x uncertainties are projected onto y through the model slope: "
                         "V = V_y + V_x o outer(f', f') (signed slopes), sigma = sqrt(sigma_y^2 + (sigma_x f')^2), slope taken at the current parameters", 6)
        D = "self._param_model.eval_model_function_derivative_by_x(x=x_model, dx=0.01 * sqrt(diag(x_cov_mat)), model_parameters=parameter_values)"
        KP = ["x_cov_mat", "y_cov_mat", "x_model", "parameter_values", "x_error", "y_error", "()abs", "()outer", "()diag", "self._param_model.eval_model_function_derivative_by_x",
              "()self._param_model.eval_model_function_derivative_by_x", "self._param_model"]
        check(eng, R, "H-proj", "XYFit", "_project_cov_mat", "return", "y_cov_mat + x_cov_mat * outer(%s, %s)" % (D, D), known=KP,
              what="projected covariance = y covariance + x covariance o outer(slope, slope) with signed slopes at the current parameters")
        D1 = "self._param_model.eval_model_function_derivative_by_x(x=x_model, dx=0.01 * x_error, model_parameters=parameter_values)"
        check(eng, R, "H-proj", "XYFit", "_project_error", "return", "sqrt(square(y_error) + square(x_error * %s))" % D1, known=KP,
              what="projected pointwise uncertainty = sqrt(y error^2 + (x error x slope)^2)")
        xin = _gf(p, "XYFit", "_init_nexus")
        xsrc = common.src_of(xin.node)
        R.ob("H-proj", "XYFit._init_nexus:total_cov_mat", "self._nexus.add_function(self._project_cov_mat, 'total_cov_mat', ['x_total_cov_mat', 'y_total_cov_mat', 'x_model', 'parameter_values']" in xsrc, eng.where(xin),
             "the projected covariance node must receive the total x and y covariance matrices, the x values and the current parameters, in this order")
        R.ob("H-proj", "XYFit._init_nexus:total_error", "self._nexus.add_function(self._project_error, 'total_error', ['x_total_error', 'y_total_error', 'x_model', 'parameter_values']" in xsrc, eng.where(xin),
             "the projected error node must receive the total x and y errors, the x values and the current parameters, in this order")
        check_lambda(eng, R, "H-proj", "FitBase", "_init_nexus", "_error", "sqrt(ARG0 ** 2 + ARG1 ** 2)", "total pointwise uncertainty = model and data uncertainties in quadrature")
        check_lambda(eng, R, "H-proj", "FitBase", "_init_nexus", "_mat_name", "ARG0 + ARG1", "total covariance = model covariance + data covariance")

    # ---- Dsw switch from implicit no-errors cost, exact diagonality test
    with R.guard("Dsw switch from implicit noerrors cost, exact diagonality te"):
        oec = p.method(FB, "_on_error_change")
        g = eng.cfg(oec)
        sw = [n for n in ast.walk(oec.node) if isinstance(n, ast.If) and ("implicit_no_errors", True) in common.literals(n.test)]
        ok = False
        if sw:
            body = ast.unparse(ast.Module(body=sw[0].body, type_ignores=[]))
            ok = "chi2_covariance" in body and "_init_cost_function" in body and "_implicit_no_errors = False" in body and "pointwise_version" in body
            # the minimisation target is re-selected inside the branch or unconditionally afterwards

            def selects(n):
                st = n.stmt
                return n.kind == "stmt" and isinstance(st, ast.Assign) and any(isinstance(t, ast.Attribute) and t.attr == "parameter_to_minimize" for t in st.targets)

            sw_node = [n for n in g.nodes if n.kind == "test" and n.stmt is sw[0]]
            ok = ok and bool(sw_node) and g.all_paths_pass(sw_node[0].id, selects)[0]
        R.ob("Dsw", "FitBase._on_error_change:switch", ok, eng.where(oec), "_on_error_change does not replace the implicit chi2_no_errors by the covariance chi2 (cost, pointwise twin, graph node, minimization target, flag)")
        isd = p.resolve_name(p.module("kafe2.fit.util"), "is_diagonal")
        tol = [common.call_name(c) for c in ast.walk(isd.node) if isinstance(c, ast.Call) and common.call_name(c) in ("allclose", "isclose", "assert_allclose", "array_equiv")]
        cmps = [type(o).__name__ for c in ast.walk(isd.node) if isinstance(c, ast.Compare) for o in c.ops]
        R.ob("Dsw", "is_diagonal:exact", not tol and not any(o in ("Lt", "LtE", "Gt", "GtE") for o in cmps), (isd.file, isd.lineno),
             "is_diagonal uses a tolerance (%s %s): a covariance with small but non-zero correlations is treated as diagonal and do_fit silently minimises the pointwise cost" % (tol, cmps))
        df = p.method(FB, "do_fit")
        txt = eng.csrc(df)  # canonical form: if/else, conditional expression, negated test and a temporary for the name are the same selection
        sel = [a for a in ast.walk(eng.cnode(df)) if isinstance(a, ast.Assign) and any(isinstance(t, ast.Attribute) and t.attr == "parameter_to_minimize" for t in a.targets)
               and isinstance(a.value, ast.Attribute) and a.value.attr == "name" and isinstance(a.value.value, ast.IfExp)
               and " ".join(ast.unparse(a.value.value.body).split()) == "self._cost_function_pointwise" and " ".join(ast.unparse(a.value.value.orelse).split()) == "self._cost_function"]
        R.ob("Dsw", "do_fit:cost selection", len(sel) == 1, eng.where(df),
             "do_fit must minimise the pointwise twin only if no correlation is declared, the covariance cost otherwise (one assignment of the minimisation target chosen between the two)")
        from . import selection
        selection.check(eng, R, "Dsw", eng.cfunc(df, paths=False) if hasattr(eng, "cfunc") else df, "do_fit")

def _cfg(cm):
    return ",".join("%s=%s" % kv for kv in sorted(cm["kwargs"].items())) or "default"
