"""The predicate by which a fit lets the pointwise cost function stand in for the covariance cost function (minimisation target in do_fit, goodness of fit).

The pointwise cost ignores every correlation.  It is the same function as the covariance cost only where the total covariance matrix is diagonal, and that has to
hold at *every* parameter point the fit visits and reports at - so the predicate must not read a quantity that depends on the parameter values: the total
covariance matrix of an XYFit (x uncertainties projected with the model slope) or of any fit with model-relative sources is diagonal at one point (slope 0, model 0)
and correlated everywhere else.  Decided here:

  (1) the selecting test of the anchor function is `<not None test> and P` / `P` with P one of
        is_diagonal(self.<Q>)         - then node Q of the static Nexus graph of every fit class must not depend on 'parameter_values'
        self.<M>()                    - a predicate method M of the fit class
  (2) for a predicate method M: it reads no Nexus-backed property that depends on the parameters, it looks at the correlation matrix (`.cor_mat`, which does not
      depend on reference values) of the sources of *both* hidden containers (data container and parametric model) through is_diagonal, and answers False when
      one of them is not diagonal.
"""
import ast

from ..consteval import nexus_model
from ..effects import is_self, self_attr
from ..engine import AnalysisError, norm_stmt
from . import common

FITS = ["XYFit", "IndexedFit", "HistFit"]   # (UnbinnedFit: its likelihood has no pointwise twin)


def _txt(e):
    return " ".join(ast.unparse(e).split())


def selecting_tests(fnode):
    """tests T of `X if T else Y` / `if T:` where one arm mentions self._cost_function_pointwise and the other self._cost_function (the selection)"""
    out = []
    for n in ast.walk(fnode):
        arms = None
        if isinstance(n, ast.IfExp):
            arms = (_txt(n.body), _txt(n.orelse), n.test)
        elif isinstance(n, ast.If) and n.orelse:
            arms = (" ".join(_txt(s) for s in n.body), " ".join(_txt(s) for s in n.orelse), n.test)
        if arms is None:
            continue
        a, b, t = arms
        pw_a, pw_b = "_cost_function_pointwise" in a, "_cost_function_pointwise" in b
        plain_a, plain_b = "self._cost_function" in a.replace("self._cost_function_pointwise", ""), "self._cost_function" in b.replace("self._cost_function_pointwise", "")
        if (pw_a and plain_b and not pw_b) or (pw_b and plain_a and not pw_a):
            out.append((t, pw_a))
    return out


def _predicates(test, positive):
    """the conjuncts of the test that are not the `is not None` test of the twin"""
    lits = []

    def walk(e, pol):
        if isinstance(e, ast.UnaryOp) and isinstance(e.op, ast.Not):
            return walk(e.operand, not pol)
        if isinstance(e, ast.BoolOp) and ((isinstance(e.op, ast.And) and pol) or (isinstance(e.op, ast.Or) and not pol)):
            for v in e.values:
                walk(v, pol)
            return
        lits.append((e, pol))
    walk(test, positive)
    return [(e, pol) for e, pol in lits if "_cost_function_pointwise" not in _txt(e)]


def check(eng, R, rule, f, label):
    p = eng.p
    tests = selecting_tests(f.node)
    if not tests:
        raise AnalysisError("%s: the selection between the pointwise and the covariance cost function was not found" % f.qualname)
    graphs = {}
    for cn in FITS:
        G, trace = nexus_model(p, p.find_class(cn))
        if trace:
            raise AnalysisError("consteval could not read the graph construction of %s" % cn)
        graphs[cn] = G
    for test, pw_first in tests:
        preds = _predicates(test, pw_first)
        if len(preds) != 1 or preds[0][1] is not True:
            R.ob(rule, "%s:selection" % label, False, (f.file, test.lineno), "%s selects the pointwise cost function by %s: not a single no-correlation predicate" % (f.qualname, _txt(test)))
            continue
        pred = preds[0][0]
        if isinstance(pred, ast.Call) and common.call_name(pred) == "is_diagonal" and len(pred.args) == 1 and self_attr(pred.args[0]) is not None:
            q = self_attr(pred.args[0])
            for cn, G in graphs.items():
                nodes = [n for n in G.nodes if n == q or G.nodes[n].get("prop") == q]
                if not nodes:
                    continue
                dep = any("parameter_values" in G.depends_closure(n) for n in nodes)
                R.ob(rule, "%s:%s:selection independent of the parameters" % (label, cn), not dep, (f.file, test.lineno),
                     "%s selects the pointwise cost function by is_diagonal(self.%s), but in a %s '%s' depends on the parameter values (x uncertainties projected with the model "
                     "slope, model-relative sources): started where that part vanishes (slope 0, model 0) the matrix is diagonal, the fit minimises and reports the pointwise "
                     "cost and silently ignores the declared correlations at every other point; started elsewhere the same configuration gives another result" % (f.qualname, q, cn, q))
        elif isinstance(pred, ast.Call) and isinstance(pred.func, ast.Attribute) and is_self(pred.func.value) and not pred.args:
            m = f.cls.find_method(pred.func.attr) if f.cls is not None else None
            if m is None:
                raise AnalysisError("%s: predicate method %s not found" % (f.qualname, pred.func.attr))
            ok, why = _predicate_method(eng, m, graphs)
            R.ob(rule, "%s:selection independent of the parameters" % label, ok, (m.file, m.lineno), "%s (selects the pointwise cost function in %s): %s" % (m.qualname, f.qualname, why))
        else:
            # the predicate written in place (a single-expression predicate method is written out by the canonical program): judged like the body `return <pred>`
            fake = ast.FunctionDef(name="_predicate", args=ast.arguments(posonlyargs=[], args=[ast.arg(arg="self")], kwonlyargs=[], kw_defaults=[], defaults=[]),
                                   body=[ast.Return(value=pred)], decorator_list=[], lineno=getattr(test, "lineno", f.lineno), col_offset=0)
            ast.fix_missing_locations(fake)
            ok, why = _predicate_node(fake, graphs)
            R.ob(rule, "%s:selection independent of the parameters" % label, ok, (f.file, getattr(test, "lineno", f.lineno)),
                 "%s selects the pointwise cost function by %s: %s" % (f.qualname, _txt(pred)[:160], why))


def _predicate_method(eng, m, graphs):
    return _predicate_node(m.node, graphs)


def _predicate_node(node, graphs):
    # (a) no parameter-dependent property read
    for x in ast.walk(node):
        a = self_attr(x) if isinstance(x, ast.Attribute) else None
        if a is None:
            continue
        for cn, G in graphs.items():
            for n in G.nodes:
                if (n == a or G.nodes[n].get("prop") == a) and "parameter_values" in G.depends_closure(n):
                    return False, "reads self.%s, which depends on the parameter values in a %s: the answer changes with the starting point" % (a, cn)
        if a == "_nexus":
            return False, "reads graph node values: they depend on the parameter values"
    # (b) correlation matrices of the sources of both hidden containers, through is_diagonal, answering False
    src = _txt(node)
    for cont in ("_data_container", "_param_model"):
        if cont not in src:
            return False, "does not look at the sources of self.%s: a correlated source there is ignored" % cont
    if "get_matching_errors" not in src and "_error_dicts" not in src:
        return False, "does not enumerate the uncertainty sources"
    diag = [c for c in ast.walk(node) if isinstance(c, ast.Call) and common.call_name(c) == "is_diagonal" and c.args]
    if not diag or not all(isinstance(c.args[0], ast.Attribute) and c.args[0].attr == "cor_mat" for c in diag):
        return False, "does not test the correlation matrix (.cor_mat) of each source with is_diagonal (a covariance matrix depends on reference values that can vanish)"
    false_under = False
    for r in ast.walk(node):
        if isinstance(r, ast.Return) and isinstance(r.value, ast.Constant) and r.value.value is False:
            for c, pol in common.guard_conditions(node, r):
                while isinstance(c, ast.UnaryOp) and isinstance(c.op, ast.Not):
                    c, pol = c.operand, not pol
                if isinstance(c, ast.Call) and common.call_name(c) == "is_diagonal" and not pol:
                    false_under = True
    if not false_under:
        rets = [r for r in ast.walk(node) if isinstance(r, ast.Return) and r.value is not None]
        cands = [r for r in rets if not (isinstance(r.value, ast.Constant) and r.value.value is True)]
        if not (cands and all("is_diagonal" in _txt(r.value) and ("all(" in _txt(r.value) or " and " in _txt(r.value)) for r in cands)):
            return False, "does not answer False when a source has a non-diagonal correlation matrix"
    return True, ""
