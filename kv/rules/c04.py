"""C04 - Nexus structural-edit / notification protocol (rule family R-B)."""
import ast

from ..effects import is_self, self_attr, walk_no_nested
from ..engine import AnalysisError, norm_stmt, path_text
from . import common

NEXUS_MOD = "kafe2.core.fitters.nexus"


def _is_call_on(call, attr, recv_self=None, arg0_self=None):
    f = call.func
    if not (isinstance(f, ast.Attribute) and f.attr == attr):
        return False
    if recv_self is True and not is_self(f.value):
        return False
    if arg0_self is True and not (call.args and is_self(call.args[0])):
        return False
    return True


def inserted_elements(value):
    """Classify the right-hand side of `self._children = value`: returns ('none'|'some', names)"""
    if isinstance(value, (ast.List, ast.Tuple)) and not value.elts:
        return "none", []
    if isinstance(value, ast.Call) and isinstance(value.func, ast.Name) and value.func.id in ("sorted", "list", "reversed", "tuple"):
        if value.args and self_attr(value.args[0]) == "_children":
            return "none", []
    if isinstance(value, ast.ListComp) and len(value.generators) == 1:
        g = value.generators[0]
        if self_attr(g.iter) == "_children" and isinstance(g.target, ast.Name):
            tv = g.target.id
            names = {n.id for n in ast.walk(value.elt) if isinstance(n, ast.Name) and isinstance(n.ctx, ast.Load)}
            # names only used inside comparisons (is / is not / ==) are selectors, not inserted elements
            cmp_only = set()
            for n in ast.walk(value.elt):
                if isinstance(n, ast.Compare):
                    for m in ast.walk(n):
                        if isinstance(m, ast.Name):
                            cmp_only.add(m.id)
            produced = set()
            elts = [value.elt]
            while elts:
                e = elts.pop()
                if isinstance(e, ast.IfExp):
                    elts += [e.body, e.orelse]
                elif isinstance(e, ast.Name):
                    produced.add(e.id)
                else:
                    produced |= {n.id for n in ast.walk(e) if isinstance(n, ast.Name)} - cmp_only
            produced.discard(tv)
            return ("some", sorted(produced)) if produced else ("none", [])
    if isinstance(value, ast.Subscript) and self_attr(value.value) == "_children":
        return "none", []
    return "some", ["<elements of %s>" % norm_stmt(value)[:40]]


def run(eng, R):
    p = eng.p
    mod = p.module(NEXUS_MOD)
    NodeBase = p.cls(NEXUS_MOD, "NodeBase")
    ValueNode = p.cls(NEXUS_MOD, "ValueNode")
    Parameter = p.cls(NEXUS_MOD, "Parameter")
    Nexus = p.cls(NEXUS_MOD, "Nexus")
    family = NodeBase.concrete_leafs()
    R.info["node classes"] = sorted(c.name for c in family)

    # direct predicates on CFG nodes ------------------------------------------------------------
    def has_add_parent_self(n):
        return any(_is_call_on(c, "add_parent", arg0_self=True) and not is_self(c.func.value) for c in eng.calls_in_parts(n.ast_parts()))

    def has_mark_self(n):
        return eng.node_calls_self_method(n, {"mark_for_update"}) and any(
            _is_call_on(c, "mark_for_update", recv_self=True) for c in eng.calls_in_parts(n.ast_parts()))

    def has_notify_self(n):
        return any(_is_call_on(c, "notify_parents", recv_self=True) for c in eng.calls_in_parts(n.ast_parts()))

    # ---- B1: stores into _children register the parent and mark self --------------------------------
    with R.guard("B1: stores into _children register the parent and mark self"):
        R.rule("B1a", "every store that inserts a node into self._children is followed on all normal paths by <node>.add_parent(self)", 4)
        R.rule("B1b", "every method that stores into self._children calls self.mark_for_update() on every normal path", 4)
        for cls, f in eng.functions_of_family(NodeBase):
            if f.name == "__init__":
                continue
            g = eng.cfg(f)
            summ = eng.eff.summary(cls, f)
            stores = [s for s in summ.sites if s.kind == "w" and s.path == "_children"]
            if not stores:
                continue
            inserting = []
            for s in stores:
                st = s.node
                if s.how == "rebind" and isinstance(st, ast.Assign):
                    kind, names = inserted_elements(st.value)
                    if kind == "some":
                        inserting.append((s, names))
                elif s.how == "content":
                    inserting.append((s, ["<item assigned>"]))
                elif s.how == "call-mutator":
                    attr = s.node.func.attr
                    if attr in ("append", "extend", "insert", "add"):
                        inserting.append((s, ["<%s argument>" % attr]))
            sat_parent = eng.satisfying_nodes(cls, f, has_add_parent_self)
            # all-elements idiom: `for c in self._children: c.add_parent(self)` (zero iterations = nothing was inserted)
            # (the loop may run over self._children or over the local list that was just stored there)
            stored_locals = {st_.value.id for st_ in ast.walk(f.node) if isinstance(st_, ast.Assign) and any(self_attr(t) == "_children" for t in st_.targets) and isinstance(st_.value, ast.Name)}
            for n in g.nodes:
                if n.kind == "for" and (self_attr(n.expr) == "_children" or (isinstance(n.expr, ast.Name) and n.expr.id in stored_locals)) and isinstance(n.stmt.target, ast.Name):
                    for c in ast.walk(n.stmt):
                        if isinstance(c, ast.Call) and _is_call_on(c, "add_parent", arg0_self=True) and isinstance(c.func.value, ast.Name) \
                                and c.func.value.id == n.stmt.target.id and not common.guard_conditions_inside(n.stmt, c):
                            sat_parent.add(n.id)
            for s, names in inserting:
                cn = common.cfg_node_of(g, s.node)
                ok, wit = g.all_paths_pass(cn.id, lambda n: n.id in sat_parent)
                R.ob("B1a", "%s:%s" % (f.qualname, norm_stmt(s.node)), ok, eng.where(f, s.node),
                     "%s inserts %s into _children without registering itself as parent on path %s" % (f.qualname, names, path_text(f, wit or [])) if not ok else
                     "%s registers parent after inserting %s" % (f.qualname, names))
            ok = eng.must_call(cls, f, has_mark_self)
            # mark may happen before the store as well (it only sets flags) -> whole-method must-call
            R.ob("B1b", f.qualname, ok, eng.where(f),
                 "%s changes _children but does not mark itself for update on every path (parents keep values computed from the old children)" % f.qualname if not ok
                 else "%s marks itself for update" % f.qualname)

    # ---- B2: raw staleness writes are followed by notify_parents ------------------------------------
    with R.guard("B2: raw staleness writes are followed by notify_parents"):
        R.rule("B2", "every assignment self._stale=True / self._frozen=False outside __init__ is followed on all normal paths by self.notify_parents()", 2)
        for cls, f in eng.functions_of_family(NodeBase):
            if f.name == "__init__":
                continue
            g = eng.cfg(f)
            for n in g.stmt_nodes():
                st = n.stmt
                if n.kind != "stmt" or not isinstance(st, ast.Assign):
                    continue
                for t in st.targets:
                    a = self_attr(t)
                    if a in ("_stale", "_frozen") and isinstance(st.value, ast.Constant):
                        if (a == "_stale" and st.value.value is True) or (a == "_frozen" and st.value.value is False):
                            sat = eng.satisfying_nodes(cls, f, has_notify_self)
                            ok, wit = g.all_paths_pass(n.id, lambda m: m.id in sat)
                            R.ob("B2", "%s:%s" % (f.qualname, norm_stmt(st)), ok, eng.where(f, st),
                                 ("%s sets %s=%s without notifying parents (ancestors keep cached values): %s" % (f.qualname, a, st.value.value, path_text(f, wit or [])))
                                 if not ok else "%s notifies parents after %s" % (f.qualname, norm_stmt(st)))

    # ---- B3: value setters notify; update() overrides produce value and clear stale -------------------
    with R.guard("B3: value setters notify; update() overrides produce value a"):
        R.rule("B3a", "ValueNode.value setter (and every override with a normal exit) reaches self.notify_parents()", 1)
        R.rule("B3b", "every update() override assigns self._value and self._stale=False on every normal path", 5)
        R.rule("B3c", "update() reads its inputs through .value (self-updating), never another node's raw _value", 5)
        R.rule("B3d", "update() evaluates the node's function at most once (no evaluation inside a loop, one call site per path)", 2)
        for cls in family:
            if not cls.is_subclass_of(ValueNode):
                continue
            pr = cls.props.get("value")
            if pr is not None and pr.fset is not None and pr.fset.cls is cls:
                f = pr.fset
                g = eng.cfg(f)
                has_normal_exit = g.exit.id in g.reachable_from([g.entry.id], exceptional=False)
                if has_normal_exit:
                    ok = eng.must_call(cls, f, has_notify_self)
                    R.ob("B3a", f.qualname, ok, eng.where(f), "%s does not notify parents on every path" % f.qualname if not ok else "%s notifies parents" % f.qualname)
                else:
                    R.ob("B3a", f.qualname, True, eng.where(f), "%s always raises (read-only node)" % f.qualname, nontrivial=False)
            f = cls.methods.get("update")
            if f is None:
                continue
            g = eng.cfg(f)

            def writes_value(n):
                if n.kind not in ("stmt",):
                    return False
                st = n.stmt
                tg = st.targets if isinstance(st, ast.Assign) else ([st.target] if isinstance(st, (ast.AugAssign, ast.AnnAssign)) else [])
                for t in tg:
                    if self_attr(t) == "_value":
                        return True
                    if isinstance(t, ast.Subscript) and self_attr(t.value) == "_value":
                        return True
                return False

            def clears_stale(n):
                st = n.stmt
                return n.kind == "stmt" and isinstance(st, ast.Assign) and any(self_attr(t) == "_stale" for t in st.targets) and isinstance(st.value, ast.Constant) and st.value.value is False

            # in-place fill inside a loop: the loop header dominates; accept a write inside a for-body when the loop iterates over children
            wv_nodes = [n for n in g.stmt_nodes() if writes_value(n)]
            ok_v = bool(wv_nodes)
            if wv_nodes:
                ok_path, _ = g.all_paths_pass(g.entry.id, lambda n: writes_value(n) or (n.kind == "for" and any(writes_value(m) for m in g.nodes if m.stmt is not None and _inside(n.stmt, m.stmt))))
                ok_v = ok_path
            ok_s, _ = g.all_paths_pass(g.entry.id, clears_stale)
            R.ob("B3b", f.qualname, ok_v and ok_s, eng.where(f),
                 ("%s: a normal path leaves update() without %s" % (f.qualname, "assigning _value" if not ok_v else "clearing _stale")) if not (ok_v and ok_s)
                 else "%s assigns _value and clears _stale" % f.qualname)
            raw = [n for n in walk_no_nested(f.node) if isinstance(n, ast.Attribute) and n.attr == "_value" and not is_self(n.value)]
            R.ob("B3c", f.qualname, not raw, eng.where(f, raw[0] if raw else None),
                 "%s reads a child's raw _value (%s) - a stale child would be used without being updated" % (f.qualname, norm_stmt(raw[0]) if raw else ""))
            evals = []
            for n in g.stmt_nodes():
                for c in eng.calls_in_parts(n.ast_parts()):
                    if is_self(c.func) or (isinstance(c.func, ast.Attribute) and is_self(c.func.value) and c.func.attr in ("_func", "func", "__call__")):
                        evals.append((n, c))
            if evals:
                in_loop = [n for n, c in evals if common.in_loop(f.node, c)]
                multi = False
                if len(evals) > 1:
                    for n1, _ in evals:
                        for n2, _ in evals:
                            if n1.id != n2.id and n2.id in g.reachable_from([n1.id], exceptional=False) and n1.id != n2.id:
                                multi = True
                R.ob("B3d", f.qualname, not in_loop and not multi, eng.where(f), "%s may evaluate the node function more than once per update" % f.qualname)

    # ---- B9: a node depends on the nodes it was given (an alias of an alias is a parent of that alias, not of its target)
    with R.guard("B9: a node depends on the nodes it was given (an alias of an"):
        R.rule("B9", "node constructors store the nodes they are given as children unchanged: no argument is replaced by something reached through it (ref.ref, node.children …) "
                     "before it becomes a child", 2)
        for cls in family:
            ini = cls.methods.get("__init__")
            if ini is None:
                continue
            params = [a.arg for a in ini.node.args.args[1:]]
            child_params = set()
            for n in ast.walk(ini.node):
                if isinstance(n, ast.Assign) and any(self_attr(t) in ("ref", "parameters", "_parameters", "_children") for t in n.targets):
                    child_params |= {x.id for x in ast.walk(n.value) if isinstance(x, ast.Name) and x.id in params}
                if isinstance(n, ast.Call) and isinstance(n.func, ast.Attribute) and is_self(n.func.value) and n.func.attr in ("set_children", "add_child", "set_parents"):
                    child_params |= {x.id for a in n.args for x in ast.walk(a) if isinstance(x, ast.Name) and x.id in params}
            for q in sorted(child_params):
                bad = []
                for n in ast.walk(ini.node):
                    if isinstance(n, ast.Assign) and any(isinstance(t, ast.Name) and t.id == q for t in n.targets):
                        for x in ast.walk(n.value):
                            if isinstance(x, (ast.Attribute, ast.Subscript)) and any(isinstance(y, ast.Name) and y.id == q for y in ast.walk(x.value)):
                                bad.append("%s = %s" % (q, " ".join(ast.unparse(n.value).split())))
                R.ob("B9", "%s.__init__:%s" % (cls.name, q), not bad, eng.where(ini),
                     "%s.__init__ replaces its argument `%s` by something reached through it (%s) before storing it as a child: the node no longer depends on the node it was given "
                     "(replacing or freezing that node is not seen)" % (cls.name, q, "; ".join(bad)))

        # the same for the Nexus methods that build nodes from nodes they looked up (add_alias, add_function, add_dependency ...): a looked-up node that becomes
        # a child / the target of an alias is not first replaced by something reached through it (`n = n.ref`: the alias of an alias bound to the target)
        node_class_names = {c.name for c in family} | {c.name for c in NodeBase.concrete_leafs()}
        for f in sorted(Nexus.methods.values(), key=lambda m: m.name):
            used = set()
            for c in ast.walk(f.node):
                if isinstance(c, ast.Call) and ((isinstance(c.func, ast.Name) and c.func.id in node_class_names)
                                                or (isinstance(c.func, ast.Attribute) and c.func.attr in ("add_child", "set_children", "add_parent"))):
                    used |= {x.id for a in list(c.args) + [k.value for k in c.keywords] for x in ast.walk(a) if isinstance(x, ast.Name)}
            for q in sorted(used):
                bad = []
                for n in ast.walk(f.node):
                    if isinstance(n, ast.Assign) and any(isinstance(t, ast.Name) and t.id == q for t in n.targets):
                        for x in ast.walk(n.value):
                            if isinstance(x, (ast.Attribute, ast.Subscript)) and any(isinstance(y, ast.Name) and y.id == q for y in ast.walk(x.value)) \
                                    and not (isinstance(x, ast.Attribute) and x.attr in ("name", "value")):
                                bad.append("%s = %s" % (q, " ".join(ast.unparse(n.value).split())))
                if bad:
                    R.ob("B9", "%s:%s" % (f.qualname, q), False, eng.where(f),
                         "%s replaces the node `%s` it looked up by something reached through it (%s) before it becomes a child / an alias target: the new node no longer depends on "
                         "the node that was named (an alias of an alias is bound to the target: redefining the inner alias is not seen)" % (f.qualname, q, "; ".join(bad)))
        nexus_builders = [m for m in Nexus.methods.values() if any(isinstance(c, ast.Call) and isinstance(c.func, ast.Name) and c.func.id in node_class_names for c in ast.walk(m.node))]
        R.ob("B9", "Nexus:node-building methods found", len(nexus_builders) >= 2, (mod.file if hasattr(mod, "file") else "kafe2/core/fitters/nexus.py", 1),
             "the Nexus methods that construct nodes (add_alias, add_function ...) were not found")

    # ---- B8: update() leaves no stale child behind (dependency-only children included)
    with R.guard("B8: update() leaves no stale child behind (dependencyonly ch"):
        R.rule("B8", "update() of a node whose children are not all function parameters brings every stale, non-frozen child up to date before it clears its own flag "
                     "(otherwise a fresh node sits above a stale child and later marks of that child are swallowed)", 1)
        for cls in family:
            f = cls.methods.get("update")
            if f is None:
                continue
            if not any("_parameters" in {s.path for s in eng.eff.summary(cls, ff).sites} for c2, ff in eng.functions_of_family(cls) if c2 is cls):
                continue
            g = eng.cfg(f)
            ok = False
            for n in g.nodes:
                if n.kind != "for":
                    continue
                it = n.expr
                over_children = (isinstance(it, ast.Call) and isinstance(it.func, ast.Attribute) and it.func.attr == "get_children" and is_self(it.func.value)) or self_attr(it) == "_children"
                if not over_children or not isinstance(n.stmt.target, ast.Name):
                    continue
                tv = n.stmt.target.id
                for c in ast.walk(n.stmt):
                    if isinstance(c, ast.Call) and isinstance(c.func, ast.Attribute) and c.func.attr == "update" and isinstance(c.func.value, ast.Name) and c.func.value.id == tv:
                        nf = common.conj_normal_form([(t, pol) for t, pol in common.guard_conditions_inside(n.stmt, c)])
                        names = {a.split(".")[-1] for a, _ in nf}
                        if not nf or all((("stale" in a and pol) or ("frozen" in a and not pol)) for a, pol in nf):
                            ok = True
                    if isinstance(c, ast.Attribute) and c.attr == "value" and isinstance(c.value, ast.Name) and c.value.id == tv and not common.guard_conditions_inside(n.stmt, c):
                        ok = True
                if ok:
                    clears = [m for m in g.stmt_nodes() if m.kind == "stmt" and isinstance(m.stmt, ast.Assign) and any(self_attr(t) == "_stale" for t in m.stmt.targets)]
                    ok = all(g.dominated_by(m.id, lambda k, nid=n.id: k.id == nid)[0] for m in clears)
            R.ob("B8", f.qualname, ok, eng.where(f), "%s evaluates its parameters but leaves dependency-only children stale: the node becomes fresh above a stale child, "
                 "so a later mark_for_update of that child stops there and this node keeps its cached value" % f.qualname)

    # ---- B6: value getter updates iff stale and not frozen ------------------------------------------
    with R.guard("B6: value getter updates iff stale and not frozen"):
        R.rule("B6", "value getter: calls self.update() exactly under (stale and not frozen) and returns self._value", 1)
        for cls in family:
            pr = cls.props.get("value")
            if pr is None or pr.fget is None or pr.fget.cls is not cls:
                continue
            f = pr.fget
            g = eng.cfg(f)
            if g.exit.id not in g.reachable_from([g.entry.id], exceptional=False):
                continue  # Empty.value: always raises
            upd = [n for n in g.stmt_nodes() if any(_is_call_on(c, "update", recv_self=True) for c in eng.calls_in_parts(n.ast_parts()))]
            ok = False
            why = "no self.update() call"
            if upd:
                conds = common.guard_conditions(f.node, upd[0].stmt)
                nf = common.conj_normal_form(conds)
                want = {("stale", True), ("frozen", False)}
                ok = nf == want
                why = "update() is guarded by %s, expected {stale, not frozen}" % sorted(nf) if not ok else ""
            rets = [n for n in g.stmt_nodes() if isinstance(n.stmt, ast.Return)]
            ret_ok = bool(rets) and all(self_attr(n.stmt.value) == "_value" for n in rets)
            R.ob("B6", f.qualname, ok and ret_ok, eng.where(f), ("%s: %s" % (f.qualname, why or "does not return self._value")) if not (ok and ret_ok) else "%s ok" % f.qualname)

    # ---- B4: mark_for_update / notify_parents shape -------------------------------------------------
    with R.guard("B4: mark_for_update / notify_parents shape"):
        R.rule("B4a", "mark_for_update sets _stale and notifies parents exactly when (not stale and not frozen); only Parameter may override it with a no-op", 2)
        R.rule("B4b", "notify_parents calls mark_for_update on every parent (only RootNode, which has no parents, may be a no-op)", 2)
        for cls in family:
            f = cls.methods.get("mark_for_update")
            if f is not None:
                body = [s for s in f.node.body if not (isinstance(s, ast.Expr) and isinstance(s.value, ast.Constant))]
                trivial = all(isinstance(s, ast.Pass) for s in body)
                if trivial:
                    ok = cls.is_subclass_of(Parameter)
                    R.ob("B4a", f.qualname, ok, eng.where(f), "%s is a no-op: updates of its inputs never reach its parents" % f.qualname if not ok else "%s: leaf constant, no-op permitted" % f.qualname)
                else:
                    g = eng.cfg(f)
                    sets = [n for n in g.stmt_nodes() if n.kind == "stmt" and isinstance(n.stmt, ast.Assign) and any(self_attr(t) == "_stale" for t in n.stmt.targets)]
                    notif = [n for n in g.stmt_nodes() if has_notify_self(n)]
                    ok = bool(sets) and bool(notif)
                    why = "does not set _stale and notify parents"
                    if ok:
                        for n in sets + notif:
                            nf = common.conj_normal_form(common.guard_conditions(f.node, n.stmt))
                            if nf == {("stale", False), ("frozen", False)}:
                                continue
                            if n in notif and ("stale", True) in nf:
                                continue   # (forwarding from a node that is already stale: judged as a whole below)
                            if n in sets and ("stale", False) in nf and isinstance(n.stmt.value, ast.Constant) and n.stmt.value.value is True and ("frozen", False) in nf:
                                continue
                            ok = False
                            why = "%s is guarded by %s, expected {not stale, not frozen}" % (norm_stmt(n.stmt), sorted(nf))
                        if ok and cls.name == "NodeBase":
                            from .c04_chain import stale_chain
                            chain_ok, mech, chain_why = stale_chain(eng, p, NodeBase, f, notif)
                            R.info["stale-chain mechanism"] = mech
                            R.ob("B4a", f.qualname + ":stale node, fresh ancestor", chain_ok, eng.where(f), chain_why)
                        # value of the assignment
                        for n in sets:
                            if not (isinstance(n.stmt.value, ast.Constant) and n.stmt.value.value is True):
                                ok = False
                                why = "assigns %s" % norm_stmt(n.stmt)
                    R.ob("B4a", f.qualname, ok, eng.where(f), "%s: %s" % (f.qualname, why) if not ok else "%s ok" % f.qualname)
            f = cls.methods.get("notify_parents")
            if f is not None:
                body = [s for s in f.node.body if not (isinstance(s, ast.Expr) and isinstance(s.value, ast.Constant))]
                trivial = all(isinstance(s, ast.Pass) for s in body)
                if trivial:
                    ok = cls.name == "RootNode"
                    R.ob("B4b", f.qualname, ok, eng.where(f), "%s is a no-op" % f.qualname)
                else:
                    ok = False
                    for n in ast.walk(f.node):
                        if isinstance(n, ast.For) and isinstance(n.iter, ast.Call) and isinstance(n.iter.func, ast.Attribute) and n.iter.func.attr in ("iter_parents", "get_parents") and is_self(n.iter.func.value) and isinstance(n.target, ast.Name):
                            for c in ast.walk(n):
                                if isinstance(c, ast.Call) and _is_call_on(c, "mark_for_update") and isinstance(c.func.value, ast.Name) and c.func.value.id == n.target.id:
                                    if not common.guard_conditions_inside(n, c):
                                        ok = True
                    R.ob("B4b", f.qualname, ok, eng.where(f), "%s does not unconditionally mark every parent for update" % f.qualname if not ok else "%s ok" % f.qualname)

    # ---- B5: Nexus edits end in a cycle check -------------------------------------------------------
    with R.guard("B5: Nexus edits end in a cycle check"):
        R.rule("B5", "every Nexus method that inserts a node or an edge runs NodeCycleChecker on every normal path after the edit", 2)
        R.rule("B5c", "NodeCycleChecker: raises when a node re-occurs on the current path and recurses over all parents", 2)

        def is_cycle_check(n):
            for c in eng.calls_in_parts(n.ast_parts()):
                if isinstance(c.func, ast.Attribute) and c.func.attr == "run" and isinstance(c.func.value, ast.Call):
                    k = p.resolve_expr_to_class(mod, c.func.value.func)
                    if k is not None and k.name == "NodeCycleChecker":
                        return True
            return False

        def is_struct_edit(n):
            for c in eng.calls_in_parts(n.ast_parts()):
                if isinstance(c.func, ast.Attribute) and c.func.attr in ("add_child", "replace", "replace_child", "set_children", "add_parameter") and not is_self(c.func.value):
                    return True
            if n.kind == "stmt" and isinstance(n.stmt, ast.Assign):
                for t in n.stmt.targets:
                    if isinstance(t, ast.Subscript) and self_attr(t.value) == "_nodes":
                        return True
            return False

        for name, f in sorted(Nexus.methods.items()):
            g = eng.cfg(f)
            edits = [n for n in g.stmt_nodes() if is_struct_edit(n)]
            if not edits:
                continue
            sat = eng.satisfying_nodes(Nexus, f, is_cycle_check)
            for n in edits:
                ok, wit = g.all_paths_pass(n.id, lambda m: m.id in sat)
                R.ob("B5", "%s:%s" % (f.qualname, norm_stmt(n.stmt)), ok, eng.where(f, n.stmt),
                     "%s edits the graph (%s) and can return without a cycle check: %s" % (f.qualname, norm_stmt(n.stmt)[:60], path_text(f, wit or [])) if not ok else "%s: cycle check after %s" % (f.qualname, norm_stmt(n.stmt)[:60]))
        checker = p.cls(NEXUS_MOD, "NodeCycleChecker")
        run_f = p.method(checker, "run")
        visit_f = p.method(checker, "visit")
        raises = [n for n in ast.walk(visit_f.node) if isinstance(n, ast.Raise)]
        ok = False
        for r in raises:
            conds = common.guard_conditions(visit_f.node, r)
            for c, pol in conds:
                if pol and isinstance(c, ast.Compare) and len(c.ops) == 1 and isinstance(c.ops[0], ast.In):
                    ok = True
        R.ob("B5c", "NodeCycleChecker.visit", ok, eng.where(visit_f), "visit() does not raise when the node is already on the path")
        rec = False
        calls_visit = False
        for n in ast.walk(run_f.node):
            if isinstance(n, ast.For) and isinstance(n.iter, ast.Call) and isinstance(n.iter.func, ast.Attribute) and n.iter.func.attr in ("iter_parents", "get_parents"):
                for c in ast.walk(n):
                    if isinstance(c, ast.Call) and isinstance(c.func, ast.Attribute) and c.func.attr == "run" and not common.guard_conditions_inside(n, c):
                        rec = True
            if isinstance(n, ast.Call) and isinstance(n.func, ast.Attribute) and n.func.attr == "visit":
                calls_visit = True
        R.ob("B5c", "NodeCycleChecker.run", rec and calls_visit, eng.where(run_f), "run() must visit the node and recurse over every parent")

    # ---- B7: Function keeps _parameters in sync with replaced children -------------------------------
    with R.guard("B7: Function keeps _parameters in sync with replaced childre"):
        R.rule("B7", "a node class with a separate _parameters list updates it whenever a child is replaced", 1)
        for cls in family:
            has_params = any("_parameters" in {s.path for s in eng.eff.summary(cls, f).sites if s.kind == "w"} for c2, f in eng.functions_of_family(cls) if c2 is cls)
            if not has_params and not any(k.name == "Function" for k in cls.mro):
                continue
            f = cls.find_method("replace_child")
            if f is None:
                continue
            w = eng.eff.trans_writes(cls, f)
            ok = "_children" in w and "_parameters" in w
            R.ob("B7", "%s.replace_child" % cls.name, ok, eng.where(f), "%s.replace_child (resolved to %s) replaces the child but not the function parameter: the function keeps reading the old node" % (cls.name, f.qualname) if not ok else "ok")

    # ---- B10: a child that sits at several positions is replaced at all of them --------------------------
    with R.guard("B10: a child that sits at several positions is replaced at a"):
        R.rule("B10", "replace_child substitutes the node at every position where it occurs (a container may hold the same node several times): the stores into _children / "
                      "_parameters rebuild the whole list with an identity test per element, never one position found with list.index", 2)
        seen_rc = set()
        for cls in family:
            f = cls.find_method("replace_child")
            if f is None or id(f) in seen_rc:
                continue
            seen_rc.add(id(f))
            for fld in ("_children", "_parameters"):
                stores = [n for n in ast.walk(f.node) if isinstance(n, (ast.Assign, ast.AugAssign)) for t in (n.targets if isinstance(n, ast.Assign) else [n.target])
                          if self_attr(t) == fld or (isinstance(t, ast.Subscript) and self_attr(t.value) == fld)]
                if not stores:
                    continue
                bad = [n for n in stores if not (isinstance(n, ast.Assign) and any(self_attr(t) == fld for t in n.targets) and isinstance(n.value, ast.ListComp)
                                                 and len(n.value.generators) == 1 and self_attr(common.resolve_local(f.node, n.value.generators[0].iter)) == fld and not n.value.generators[0].ifs
                                                 and isinstance(n.value.elt, ast.IfExp) and isinstance(n.value.elt.test, ast.Compare) and len(n.value.elt.test.ops) == 1
                                                 and isinstance(n.value.elt.test.ops[0], (ast.Is, ast.IsNot, ast.Eq, ast.NotEq)))]
                R.ob("B10", "%s:%s" % (f.qualname, fld), not bad, eng.where(f, bad[0] if bad else None),
                     "%s stores into %s at one position (%s): a node that occurs several times in the list is replaced only where list.index finds it first, the other positions keep "
                     "the old node and the values read through them" % (f.qualname, fld, norm_stmt(bad[0])[:80] if bad else ""))

    # ---- B11: a rejected dependency takes back exactly the edges it added --------------------------------
    with R.guard("B11: a rejected dependency takes back exactly the edges it a"):
        R.rule("B11", "add_dependency rolls a rejected (cyclic) request back by removing only the edges this call added: the list the roll-back iterates over receives a node "
                      "only if it was not a child before (removing an edge that existed before - a function's own parameter - cuts the update notifications of that input)", 1)
        f = Nexus.find_method("add_dependency")
        tries = [t for t in ast.walk(f.node) if isinstance(t, ast.Try) and any(isinstance(c, ast.Call) and "NodeCycleChecker" in _txt(c) for b in t.body for c in ast.walk(b))]
        loops = [l for t in tries for h in t.handlers for b in h.body for l in ast.walk(b) if isinstance(l, ast.For) and isinstance(l.target, ast.Name)
                 and any(isinstance(c, ast.Call) and isinstance(c.func, ast.Attribute) and c.func.attr == "remove_child" and [_txt(a) for a in c.args] == [l.target.id] for c in ast.walk(l))]
        ok, why = bool(loops), "no roll-back loop (`for d in <added>: node.remove_child(d)`) in the handler of the cycle check"
        for l in loops:
            it = l.iter   # (the name of the list; a plain copy of it was closed by the canonical form)
            good = False
            if isinstance(it, ast.Name):
                inits = [a for a in ast.walk(f.node) if isinstance(a, ast.Assign) and len(a.targets) == 1 and isinstance(a.targets[0], ast.Name) and a.targets[0].id == it.id]
                apps = [c for c in ast.walk(f.node) if isinstance(c, ast.Call) and isinstance(c.func, ast.Attribute) and c.func.attr == "append" and isinstance(c.func.value, ast.Name)
                        and c.func.value.id == it.id]
                others = [c for c in ast.walk(f.node) if isinstance(c, ast.Call) and isinstance(c.func, ast.Attribute) and c.func.attr in ("extend", "insert") and isinstance(c.func.value, ast.Name)
                          and c.func.value.id == it.id] + [a for a in ast.walk(f.node) if isinstance(a, ast.AugAssign) and isinstance(a.target, ast.Name) and a.target.id == it.id]

                def new_only(call):
                    # appended under `d not in node.get_children()` (d the appended node)
                    d = _txt(common.resolve_local(f.node, call.args[0])) if call.args else None
                    for t, pol in common.guard_conditions(f.node, call):
                        if isinstance(t, ast.Compare) and len(t.ops) == 1 and isinstance(t.ops[0], (ast.NotIn, ast.In)) and (isinstance(t.ops[0], ast.NotIn) == pol) \
                                and _txt(common.resolve_local(f.node, t.left)) == d and "children" in _txt(t.comparators[0]):
                            return True
                    return False

                if len(inits) == 1 and isinstance(inits[0].value, ast.List) and not inits[0].value.elts and apps and not others:
                    good = all(new_only(c) for c in apps)
                elif len(inits) == 1 and isinstance(inits[0].value, ast.ListComp) and not apps and not others:
                    g0 = inits[0].value.generators[0]
                    adds = [c.lineno for c in ast.walk(f.node) if isinstance(c, ast.Call) and isinstance(c.func, ast.Attribute) and c.func.attr == "add_child"]
                    good = any(isinstance(t, ast.Compare) and isinstance(t.ops[0], ast.NotIn) and "children" in _txt(t.comparators[0]) for t in g0.ifs) \
                        and all(inits[0].lineno < ln for ln in adds)
            if not good:
                ok, why = False, "the roll-back iterates over `%s`, which is not the list of nodes that were not children before this call" % _txt(l.iter)
        R.ob("B11", "Nexus.add_dependency:roll-back", ok, eng.where(f), "Nexus.add_dependency: %s" % why if not ok else "ok")


def _txt(n):
    return " ".join(ast.unparse(n).split()) if n is not None else None


def _inside(outer, inner):
    for n in ast.walk(outer):
        if n is inner:
            return True
    return False
