"""C02 - total uncertainty = sum of enabled sources at the current reference: cache coherence of the container layer (R-C), enabled guard (R-D7)."""
import ast

from ..effects import is_self, self_attr, walk_no_nested
from ..engine import AnalysisError, norm_stmt, path_text
from . import cache, common

CONTAINERS = [
    ("kafe2.fit.indexed.container", "IndexedContainer"),
    ("kafe2.fit.xy.container", "XYContainer"),
    ("kafe2.fit.histogram.container", "HistContainer"),
    ("kafe2.fit.unbinned.container", "UnbinnedContainer"),
    ("kafe2.fit.indexed.model", "IndexedParametricModel"),
    ("kafe2.fit.xy.model", "XYParametricModel"),
    ("kafe2.fit.histogram.model", "HistParametricModel"),
    ("kafe2.fit.unbinned.model", "UnbinnedParametricModel"),
]
GUARD_FLAGS = {"_pm_calculation_stale"}
# reasoned exemptions, keyed by construct (class:function), one line of reason each
EXEMPT_TOTAL = {
    ("UnbinnedParametricModel", "UnbinnedParametricModel.support.fset"): "UnbinnedContainer.add_error/add_matrix_error always raise: no source can exist, the total is identically zero",
}
EXEMPT_PM_READERS = {
    "HistContainer.n_entries.fget": "entry counts of a parametric model are not model predictions (not an observable of C02)",
    "HistContainer.underflow.fget": "underflow of a parametric model is never computed (always 0)",
    "HistContainer.overflow.fget": "overflow of a parametric model is never computed (always 0)",
    "HistContainer._fill_unprocessed": "parametric models cannot be filled (fill raises TypeError)",
    "HistContainer.set_bins": "writer",
    "HistContainer.rebin": "writer",
}


def _is_reference_reset_loop(eng, f, g):
    """CFG 'for' nodes looping over self._error_dicts.values() that assign <entry>['err'].reference; -> {node id: covered axes or 'all'}"""
    out = {}
    for n in g.nodes:
        if n.kind != "for":
            continue
        it = n.expr
        if not (isinstance(it, ast.Call) and isinstance(it.func, ast.Attribute) and it.func.attr in ("values", "items") and self_attr(it.func.value) == "_error_dicts"):
            continue
        for st in ast.walk(n.stmt):
            if isinstance(st, ast.Assign):
                for t in st.targets:
                    if isinstance(t, ast.Attribute) and t.attr == "reference":
                        conds = common.guard_conditions_inside(n.stmt, st)
                        axes = "all"
                        for c, pol in conds:
                            if pol and isinstance(c, ast.Compare) and len(c.ops) == 1 and isinstance(c.ops[0], ast.Eq) and isinstance(c.comparators[0], ast.Constant) \
                                    and "axis" in ast.unparse(c.left):
                                axes = {c.comparators[0].value}
                            elif pol and isinstance(c, ast.Compare) and len(c.ops) == 1 and isinstance(c.ops[0], ast.Eq) and isinstance(c.comparators[0], ast.Name) \
                                    and "axis" in ast.unparse(c.left) and c.comparators[0].id in f.params() \
                                    and not any(isinstance(x, ast.Name) and x.id == c.comparators[0].id and isinstance(x.ctx, ast.Store) for x in ast.walk(f.node)):
                                axes = {("axis named", c.comparators[0].id)}
                            else:
                                axes = set()
                        prev = out.get(n.id)
                        if prev == "all" or axes == "all":
                            out[n.id] = "all"
                        else:
                            out[n.id] = (prev or set()) | axes
    return out


def _written_axes(site):
    """axes of an XY-style 2-row store written by this site: {0}, {1} or 'all'"""
    st = site.node
    tg = []
    if isinstance(st, ast.Assign):
        tg = st.targets
    elif isinstance(st, ast.AugAssign):
        tg = [st.target]
    for t in tg:
        if isinstance(t, ast.Subscript) and self_attr(t.value) == "_data":
            sl = t.slice
            first = sl.elts[0] if isinstance(sl, ast.Tuple) and sl.elts else sl
            if isinstance(first, ast.Constant) and isinstance(first.value, int):
                return {first.value}
            if isinstance(first, ast.Name):
                return {("axis named", first.id)}  # a helper that serves one axis given by its parameter: the reset must select the same name
    return "all"


def run(eng, R):
    p = eng.p
    classes = [p.cls(m, n) for m, n in CONTAINERS]
    R.info["container classes"] = [c.name for c in classes]
    pm_mixin = p.cls("kafe2.fit._base.model", "ParametricModelBaseMixin")

    # ---------------------------------------------------------------- Ctot
    with R.guard("Ctot"):
        R.rule("Ctot", "every writer of an input of the cached total error (inputs = transitive read set of _calculate_total_error and of the error "
                       "reference callable) reaches `self._total_error = None` on all normal paths", 12)
        inval = cache.direct_invalidation_pred({"_total_error"})
        for ctx in classes:
            comp = ctx.find_method("_calculate_total_error")
            if comp is None:
                raise AnalysisError("%s has no _calculate_total_error" % ctx.name)
            inputs = set(eng.eff.trans_reads(ctx, comp))
            ref = ctx.find_method("_get_error_reference")
            if ref is not None:
                inputs |= eng.eff.trans_reads(ctx, ref)
            inputs = {i for i in inputs if "." not in i} - {"_total_error"} - GUARD_FLAGS
            inputs -= {"_on_error_change_callback", "_label", "_axis_labels"}
            R.info["inputs(_total_error) for %s" % ctx.name] = sorted(inputs)

            def flt(f, s, ctx=ctx):
                return (ctx.name, f.qualname) not in EXEMPT_TOTAL

            cache.check_writers_invalidate(eng, R, "Ctot", ctx, inputs, inval, skip_funcs=("_calculate_total_error",), what="total error cache", site_filter=flt, cache_fields=("_total_error",))
            for (cn, fq), why in EXEMPT_TOTAL.items():
                if cn == ctx.name:
                    R.note("exempt from Ctot: %s in %s - %s" % (fq, cn, why))

    # ---------------------------------------------------------------- Csrc
    with R.guard("Csrc"):
        R.rule("Csrc", "every writer of the value store _data re-points or resets the references of the sources of the written axis "
                       "(per-source covariance caches are only invalidated through the reference setter)", 8)
        for ctx in classes:
            for f in cache.visible_functions(ctx):
                if f.name == "__init__":
                    continue
                summ = eng.eff.summary(ctx, f)
                sites = [s for s in summ.sites if s.kind == "w" and s.path == "_data"]
                if not sites:
                    continue
                g = eng.cfg(f)
                for s in sites:
                    need = _written_axes(s)
                    ok, how, wit = _reaches_reset(eng, ctx, f, g, s.node, need, depth=2)
                    R.ob("Csrc", "%s:%s:%s" % (ctx.name, f.qualname, norm_stmt(s.node)[:70]), ok, eng.where(f, s.node),
                         ("%s (as %s) changes the stored values (%s) without resetting the source references of axis %s: relative sources keep the covariance computed from the old values: %s" % (
                             f.qualname, ctx.name, norm_stmt(s.node)[:50], need, path_text(f, wit or []))) if not ok else "%s resets references (%s)" % (f.qualname, how))

    # ---------------------------------------------------------------- Cpm
    with R.guard("Cpm"):
        R.rule("Cpm", "in a parametric model every raw read of the lazily computed part of _data is dominated by the stale check / recalculation "
                      "(directly or in all callers)", 5)
        R.rule("Cpm-set", "parameters/x/support setters of parametric models set the stale flag", 4)
        for ctx in classes:
            if pm_mixin not in ctx.mro:
                continue
            is_xy = any(k.name == "XYContainer" for k in ctx.mro)
            top = set(id(x) for x in cache.visible_functions(ctx))
            for f in cache.visible_functions(ctx, with_shadowed=True):
                if f.name in ("__init__", "_recalculate") or f.kind == "setter":
                    continue
                if f.qualname in EXEMPT_PM_READERS:
                    continue
                if eng.absorbed(f):
                    continue  # a private helper that is written out at every call site of the canonical program is decided there
                reads = _raw_lazy_reads(f, is_xy)
                if not reads:
                    continue
                if id(f) not in top and not cache.callers_of(eng, ctx, f):
                    continue  # overridden and never reached through super(): not executable on this class
                g = eng.cfg(f)
                for sub in reads:
                    ok, how = _dominated_by_stale_check(eng, ctx, f, g, sub, is_xy, depth=2)
                    R.ob("Cpm", "%s:%s" % (ctx.name, f.qualname), ok, eng.where(f, sub),
                         "%s (as %s) reads model values %s that may not have been recomputed since the parameters changed" % (f.qualname, ctx.name, norm_stmt(sub)) if not ok
                         else "%s guarded (%s)" % (f.qualname, how))
            for pname in ("parameters", "x", "support"):
                pr = ctx.find_prop(pname)
                if pr is None or pr.fset is None:
                    continue
                if pname == "x" and not is_xy:
                    continue
                f = pr.fset
                g = eng.cfg(f)
                if g.exit.id not in g.reachable_from([g.entry.id], exceptional=False):
                    continue

                def sets_stale(n):
                    st = n.stmt
                    return n.kind == "stmt" and isinstance(st, ast.Assign) and any(self_attr(t) == "_pm_calculation_stale" for t in st.targets) and isinstance(st.value, ast.Constant) and st.value.value is True

                ok = eng.must_call(ctx, f, sets_stale)
                R.ob("Cpm-set", "%s:%s" % (ctx.name, f.qualname), ok, eng.where(f), "%s (as %s) changes a model input without marking the model values stale" % (f.qualname, ctx.name))

    # ---------------------------------------------------------------- Cfirst
    with R.guard("Cfirst"):
        R.rule("Cfirst", "_calculate_total_error brings lazily computed values up to date (reads self.data / self.x / self.y) before it sums the sources", 2)
        for ctx in classes:
            comp = ctx.find_method("_calculate_total_error")
            if comp.cls is not ctx and any(c is comp.cls for c in classes):
                continue  # inherited: checked on the defining class
            g = eng.cfg(comp)
            acc = [n for n in g.stmt_nodes() if n.kind == "stmt" and isinstance(n.stmt, ast.AugAssign) and ".cov_mat" in ast.unparse(n.stmt.value)]
            if not acc:
                raise AnalysisError("%s._calculate_total_error: accumulation of source covariance matrices not found" % comp.cls.name)

            def forces(n):
                for part in n.ast_parts():
                    for sub in walk_no_nested(part):
                        if isinstance(sub, ast.Attribute) and is_self(sub.value) and sub.attr in ("data", "x", "y") and isinstance(sub.ctx, ast.Load):
                            return True
                return False

            for n in acc:
                ok, wit = g.dominated_by(n.id, forces)
                R.ob("Cfirst", "%s:%s" % (comp.qualname, norm_stmt(n.stmt)), ok, eng.where(comp, n.stmt),
                     "%s sums the sources before the (lazily recomputed) values they refer to are brought up to date" % comp.qualname)

    # ---------------------------------------------------------------- D7 enabled guard
    with R.guard("D7 enabled guard"):
        R.rule("D7", "every loop over error dictionaries that accumulates a covariance skips entries whose 'enabled' flag is false", 2)
        for f in p.all_functions():
            for loop in [n for n in ast.walk(f.node) if isinstance(n, ast.For)]:
                it = ast.unparse(loop.iter)
                if not ("_error_dicts" in it and ("values()" in it or "items()" in it)):
                    continue
                accs = [n for n in ast.walk(loop) if isinstance(n, ast.AugAssign) and "cov_mat" in ast.unparse(n.value)]
                if not accs:
                    continue
                # decided on the canonical form: `if not e['enabled'] or <other>: continue`, nested ifs, a guard in a private helper are one thing there
                cn = eng.cnode(f)
                caccs = [n for lp in ast.walk(cn) if isinstance(lp, ast.For) and "_error_dicts" in ast.unparse(lp.iter) for n in ast.walk(lp) if isinstance(n, ast.AugAssign) and "cov_mat" in ast.unparse(n.value)]
                if len(caccs) < len(accs):
                    raise AnalysisError("%s: accumulation over the error dictionaries not found in the canonical form" % f.qualname)
                for a in caccs:
                    ok = _enabled_guarded_canonical(cn, a)
                    R.ob("D7", "%s:%s" % (f.qualname, norm_stmt(a)[:70]), ok, (f.file, a.lineno),
                         "%s adds the covariance of a source without testing its 'enabled' flag: a disabled source still contributes" % f.qualname)

    # ---------------------------------------------------------------- Ccov
    with R.guard("Ccov"):
        ERR = "kafe2.core.error"
        CovMat = p.cls(ERR, "CovMat")
        R.rule("Ccov", "every writer of CovMat._mat clears each derived cache (_chol, _inverse, _cor_mat, _cond)", 4)
        invf = p.method(CovMat, "_invalidate_cache")
        cache_fields = set()
        for pr in CovMat.props.values():
            if pr.fget is None:
                continue
            # a getter that stores a private field memoises it there (whatever the test around the store looks like)
            for n in ast.walk(pr.fget.node):
                if isinstance(n, ast.Assign):
                    for t in n.targets:
                        if (self_attr(t) or '').startswith('_'):
                            cache_fields.add(self_attr(t))
        cache_fields = sorted(cache_fields)
        if len(cache_fields) < 3:
            raise AnalysisError("CovMat._invalidate_cache: expected >=3 cache fields, found %s" % cache_fields)
        R.info["CovMat cache fields"] = cache_fields
        for k in cache_fields:
            cache.check_writers_invalidate(eng, R, "Ccov", CovMat, {"_mat"}, cache.direct_invalidation_pred({k}), what="CovMat.%s cache" % k)

    # ---------------------------------------------------------------- Clazy: guard field == returned field
    with R.guard("Clazy: guard field == returned field"):
        R.rule("Clazy", "lazy getters test the same field they return: `if self.K is None: compute` followed by `return self.K[...]`", 10)
        for cname in ("CovMat", "SimpleGaussianError", "MatrixGaussianError"):
            c = p.cls(ERR, cname)
            for pname, pr in sorted(c.props.items()):
                f = pr.fget
                if f is None or f.cls is not c:
                    continue
                _check_lazy_getter(eng, R, f)
        for m, n, meth in (("kafe2.fit._base.container", "DataContainerBase", "get_total_error"), ("kafe2.fit.xy.container", "XYContainer", "get_total_error")):
            _check_lazy_getter(eng, R, p.method(p.cls(m, n), meth))

    # ---------------------------------------------------------------- Cref: reference setter invalidates the opposite representation
    with R.guard("Cref: reference setter invalidates the opposite representati"):
        R.rule("Cref", "GaussianErrorBase.reference setter clears the absolute caches of a relative source and the relative caches of an absolute source", 4)
        base = p.cls(ERR, "GaussianErrorBase")
        f = p.prop(base, "reference").fset
        want = {True: {"_cov_mat", "_err"}, False: {"_cov_mat_rel", "_err_rel"}}
        got = {True: set(), False: set()}
        for n in ast.walk(f.node):
            if isinstance(n, ast.Assign) and isinstance(n.value, ast.Constant) and n.value.value is None:
                for t in n.targets:
                    a = self_attr(t)
                    if a in ("_cov_mat", "_err", "_cov_mat_rel", "_err_rel"):
                        nf = common.conj_normal_form(common.guard_conditions(f.node, n))
                        rel = {pol for atom, pol in nf if atom in ("relative", "is_relative")}
                        if not rel:
                            got[True].add(a)
                            got[False].add(a)
                        else:
                            for pol in rel:
                                got[pol].add(a)
        for pol in (True, False):
            for a in sorted(want[pol]):
                R.ob("Cref", "reference.fset:%s:relative=%s" % (a, pol), a in got[pol], eng.where(f),
                     "reference setter does not clear %s for a source with relative=%s: the cached %s covariance keeps the old reference" % (a, pol, "absolute" if pol else "relative"))
        # the stores of the new reference happen on every path
        g = eng.cfg(f)

        def stores_ref(n):
            st = n.stmt
            return n.kind == "stmt" and isinstance(st, ast.Assign) and any(self_attr(t) == "_reference" for t in st.targets)

        ok, _ = g.all_paths_pass(g.entry.id, stores_ref)
        R.ob("Cref", "reference.fset:store", ok, eng.where(f), "reference setter does not store the new reference on every path")

        _source_formulas(eng, R)

def _reaches_reset(eng, ctx, f, g, node, need, depth):
    loops = _is_reference_reset_loop(eng, f, g)
    covered_nodes = set()
    for nid, axes in loops.items():
        if axes == "all" or (need != "all" and need <= axes):
            covered_nodes.add(nid)
    # union of per-axis loops on the same path: accept if every needed axis has a loop that is passed on all paths
    cn = common.cfg_node_of(g, node)

    def direct(n):
        return n.id in covered_nodes

    # calls to functions that reset on all their paths
    sat = set(covered_nodes)
    summ = eng.eff.summary(ctx, f)
    for cs in summ.calls:
        if cs.prefix != "":
            continue
        for c2, f2 in cs.targets:
            if f2 is f:
                continue
            g2 = eng.cfg(f2)
            l2 = _is_reference_reset_loop(eng, f2, g2)
            good = {nid for nid, axes in l2.items() if axes == "all" or (need != "all" and need <= axes)}
            if good:
                ok2, _ = g2.all_paths_pass(g2.entry.id, lambda n: n.id in good)
                if ok2:
                    try:
                        sat.add(common.cfg_node_of(g, cs.node).id)
                    except AnalysisError:
                        pass
    ok, wit = g.all_paths_pass(cn.id, lambda n: n.id in sat)
    if cn.id in sat:
        ok = True
    if ok:
        return True, "in function", None
    if need == "all" and len(loops) >= 2:
        # separate loops per axis
        axes_cov = set()
        for nid, axes in loops.items():
            okk, _ = g.all_paths_pass(cn.id, lambda n, nid=nid: n.id == nid)
            if okk and axes != "all":
                axes_cov |= axes
        if {0, 1} <= axes_cov:
            return True, "per-axis loops", None
    if depth > 0 and cache.is_private_helper(f):
        cs = cache.callers_of(eng, ctx, f)
        if cs:
            allok = True
            for cf, c in cs:
                if cf.name == "__init__":
                    continue
                gc = eng.cfg(cf)
                okc, _, _ = _reaches_reset(eng, ctx, cf, gc, c.node, need, depth - 1)
                allok = allok and okc
            if allok:
                return True, "in all callers", None
    return False, "", wit


def _raw_lazy_reads(f, is_xy):
    out = []
    pm = common.parents_of(f.node)
    for n in walk_no_nested(f.node):
        if isinstance(n, ast.Attribute) and self_attr(n) == "_data" and isinstance(n.ctx, ast.Load):
            par = pm.get(id(n))
            if isinstance(par, ast.Call) and isinstance(par.func, ast.Name) and par.func.id == "len":
                continue
            if isinstance(par, ast.Attribute) and par.attr in ("shape", "size", "ndim", "dtype"):
                continue
            if isinstance(par, ast.Subscript) and par.value is n and isinstance(par.ctx, (ast.Store, ast.Del)):
                continue
            if is_xy and isinstance(par, ast.Subscript) and par.value is n:
                sl = par.slice
                first = sl.elts[0] if isinstance(sl, ast.Tuple) and sl.elts else sl
                if isinstance(first, ast.Constant) and first.value == 0:
                    continue  # x support values are inputs, not lazily computed
            out.append(par if isinstance(par, ast.Subscript) and par.value is n else n)
    return out


def _stale_check_nodes(f, g):
    """test nodes `if self._pm_calculation_stale:` whose body calls self._recalculate()"""
    out = set()
    for n in g.nodes:
        if n.kind == "test" and isinstance(n.stmt, ast.If) and self_attr(n.stmt.test) == "_pm_calculation_stale":
            for c in ast.walk(ast.Module(body=n.stmt.body, type_ignores=[])):
                if isinstance(c, ast.Call) and isinstance(c.func, ast.Attribute) and c.func.attr == "_recalculate" and is_self(c.func.value):
                    out.add(n.id)
    return out


def _dominated_by_stale_check(eng, ctx, f, g, sub, is_xy, depth):
    cn = common.cfg_node_of(g, sub)
    checks = _stale_check_nodes(f, g)
    ok, _ = g.dominated_by(cn.id, lambda n: n.id in checks)
    if ok:
        return True, "stale check in function"
    if depth <= 0:
        return False, ""
    callers = cache.callers_of(eng, ctx, f)
    if not callers:
        return False, ""
    for cf, cs in callers:
        if cf.name in ("__init__", "_recalculate") or cf.kind == "setter":
            continue
        # XY: a call passing the constant axis 0 reads the support values only
        if is_xy and isinstance(cs.node, ast.Call):
            args = cs.node.args
            if args and isinstance(args[-1], ast.Constant) and args[-1].value == 0 and f.name in ("_get_data_for_axis", "_get_error_reference"):
                continue
        gc = eng.cfg(cf)
        okc, _ = _dominated_by_stale_check(eng, ctx, cf, gc, cs.node, is_xy, depth - 1)
        if not okc:
            return False, "caller %s unguarded" % cf.qualname
    return True, "stale check in all callers"


def _enabled_guarded_canonical(fn, acc):
    """some guard of the accumulation requires <entry>['enabled'] to be true (as a conjunct of a test that held, or a disjunct's negation of a test that failed)"""
    from ..canon import negate, positive

    for t, pol in common.guard_conditions(fn, acc):
        t = positive(t) if pol else negate(positive(t))
        for c in (t.values if isinstance(t, ast.BoolOp) and isinstance(t.op, ast.And) else [t]):
            if isinstance(c, ast.Subscript) and common.const_str(c.slice) == "enabled":
                return True
            if isinstance(c, ast.Call) and isinstance(c.func, ast.Attribute) and c.func.attr == "get" and c.args and common.const_str(c.args[0]) == "enabled":
                return True
    return False


def _enabled_guarded(loop, acc):
    # (a) enclosing `if entry["enabled"]`  (b) preceding `if not entry["enabled"]: continue` in the loop body
    for c, pol in common.guard_conditions_inside(loop, acc):
        if "enabled" in ast.unparse(c) and pol and not (isinstance(c, ast.UnaryOp) and isinstance(c.op, ast.Not)):
            return True
    # find top-level statement of loop body containing acc
    for i, st in enumerate(loop.body):
        if any(n is acc for n in ast.walk(st)):
            for prev in loop.body[:i]:
                if isinstance(prev, ast.If) and "enabled" in ast.unparse(prev.test) and isinstance(prev.test, ast.UnaryOp) and isinstance(prev.test.op, ast.Not) \
                        and prev.body and isinstance(prev.body[-1], ast.Continue):
                    return True
    return False


def _check_lazy_getter(eng, R, f):
    """`if self.K is None: ...` guards: K must be the field (or the receiver of the attribute) returned afterwards."""
    for n in f.node.body:
        if isinstance(n, ast.If) and isinstance(n.test, ast.Compare) and len(n.test.ops) == 1 and isinstance(n.test.ops[0], ast.Is) \
                and isinstance(n.test.comparators[0], ast.Constant) and n.test.comparators[0].value is None:
            k = self_attr(n.test.left)
            if k is None:
                continue
            rets = [r for r in ast.walk(f.node) if isinstance(r, ast.Return) and r.value is not None and r not in list(ast.walk(n))]
            if not rets:
                continue
            used = set()
            for r in rets:
                for a in ast.walk(r.value):
                    aa = self_attr(a)
                    if aa:
                        used.add(aa)
            # computed inside the guard: fields assigned (directly or by resolved self-calls)
            if not used:
                continue
            ok = k in used or any(u.startswith(k + "_") and u.endswith("_part") for u in used)
            if not ok:
                # allowed: the guard field is assigned together with the returned field by the compute call (same computation)
                ok = False
            R.ob("Clazy", f.qualname, ok, (f.file, n.lineno),
                 "%s tests `self.%s is None` but returns %s: the returned field is used without having been computed" % (f.qualname, k, sorted(used)))


def _source_formulas(eng, R):
    """R-H: the covariance of one source is (sigma sigma^T) o rho, with sigma = relative size x reference for relative sources; the total is the plain sum of
    the sources' absolute covariances; err / cor_mat / inverse are read from the same total."""
    from .formulas import check, extract, get_func

    p = eng.p
    R.rule("Hsrc", "per-source covariance = (sigma sigma^T) o rho (diagonal (1-rho) sigma^2 + rho outer(sigma, sigma)); sigma of a relative source = relative size x "
                   "reference; matrix sources convert with outer(reference, reference)", 12)
    R.rule("Htot", "the total is the sum of the absolute covariances of the sources (one accumulator per axis, zero-initialised), wrapped as an absolute covariance "
                   "source at the current values; err = sqrt(diag), cor_mat, inverse are read from the same total", 14)
    S, M, CM = "SimpleGaussianError", "MatrixGaussianError", "CovMat"
    KS = ["self.reference", "self.error", "self.error_rel", "self._err", "self._err_rel", "()abs", "error_array", "corr_coeff", "()outer", "()diag", "()zeros_like"]
    g = "_calculate_cov_mat_generic"
    # end to end: what the source stores as its (relative) covariance and its two parts, per branch (the shared helper is read through, wherever it lives)
    KS2 = KS + ["self._corr_coeff"]
    RHO = "self._corr_coeff"

    def parts(sig):
        pos = ("diag((%s) ** 2 * (1 - %s))" % (sig, RHO), "outer(%s, %s) * %s" % (sig, sig, RHO))
        neg = ("diag((%s) ** 2)" % sig, "zeros_like(diag((%s) ** 2))" % sig)
        return pos, neg

    for fn, stem, branches in (("_calculate_cov_mat", "self._cov_mat", [(["(self.relative)"], "self.error_rel * self.reference"), (["not (self.relative)"], "self.error")]),
                               ("_calculate_cov_mat_rel", "self._cov_mat_rel", [([], "self.error_rel")])):
        f = get_func(p, S, fn)
        for conds, sig in branches:
            if fn == "_calculate_cov_mat" and conds == ["(self.relative)"]:
                got = sorted({x.canon() for _, x, _ in extract(f, "store", stem + "_uncor_part", conds + ["not (%s > 0)" % RHO], node=eng.cnode(f))})
                if got == ["diag(self.error**2)"]:
                    R.ob("Hsrc", "%s._calculate_cov_mat:_abs_err:=(self.relative)" % S, False, (f.file, f.lineno),
                         "the covariance of a relative source is built from `self.error` = relative size x |reference|: for reference values of mixed sign the off-diagonal "
                         "elements rho sigma_i sigma_j lose their sign, the total is no longer the sum of (sigma sigma^T) o rho with sigma = relative size x values")
                    continue
            (pu, pc), (nu, nc) = parts(sig)
            for when, (u, c) in ((["(%s > 0)" % RHO], (pu, pc)), (["not (%s > 0)" % RHO], (nu, nc))):
                what = "sigma = %s; %s" % (sig, "(1 - rho) sigma^2 on the diagonal + rho outer(sigma, sigma)" if when[0].startswith("(") else "uncorrelated: sigma^2 on the diagonal")
                check(eng, R, "Hsrc", S, fn, "store", "CovMat(%s + %s)" % (u, c), target=stem, when=conds + when, known=KS2, what="covariance: " + what)
                check(eng, R, "Hsrc", S, fn, "store", u, target=stem + "_uncor_part", when=conds + when, known=KS2, what="uncorrelated part: " + what)
                check(eng, R, "Hsrc", S, fn, "store", c, target=stem + "_cor_part", when=conds + when, known=KS2, what="correlated part: " + what)
    KM = ["self.error", "self.error_rel", "self.cov_mat", "self.cov_mat_rel", "self.reference", "self._cov_mat", "self._cov_mat_rel", "()diag", "()sqrt"]
    KM = KM + ["()CovMat", "()outer", "()abs"]
    check(eng, R, "Hsrc", M, "cov_mat", "assign", ["self._calculate_cov_mat_from_cov_rel(self.cov_mat_rel, self.reference)", "CovMat(self.cov_mat_rel * outer(self.reference, self.reference))"],
          target="self._cov_mat", when="=(self.relative)", known=KM,
          what="absolute covariance of a relative matrix source = relative covariance converted with the current reference")
    check(eng, R, "Hsrc", M, "cov_mat_rel", "assign", ["self._calculate_cov_mat_rel_from_cov(self.cov_mat, self.reference)", "CovMat(self.cov_mat / outer(self.reference, self.reference))"],
          target="self._cov_mat_rel", when="=(not self.relative)", known=KM,
          what="relative covariance of an absolute matrix source = covariance converted with the current reference")
    check(eng, R, "Hsrc", M, "_calculate_cov_mat_from_cov_rel", "return", "CovMat(cov_mat_rel * outer(reference, reference))", known=["cov_mat_rel", "reference", "()abs"], what="covariance = relative covariance x outer(reference, reference)")
    check(eng, R, "Hsrc", M, "_calculate_cov_mat_rel_from_cov", "return", "CovMat(cov_mat / outer(reference, reference))", known=["cov_mat", "reference", "()abs"], what="relative covariance = covariance / outer(reference, reference)")
    check(eng, R, "Hsrc", M, "_calculate_cov_mat_from_cor_mat_and_error_array", "return", "CovMat(outer(error_array, error_array) * corr_mat)", known=["error_array", "corr_mat"], what="covariance = outer(sigma, sigma) o correlation")
    # ---- total
    check(eng, R, "Htot", M, "error", "assign", "sqrt(diag(self.cov_mat))", target="self._err", known=KM, what="pointwise uncertainty = sqrt(diag(covariance))")
    check(eng, R, "Htot", M, "error_rel", "assign", "sqrt(diag(self.cov_mat_rel))", target="self._err_rel", known=KM, what="relative pointwise uncertainty = sqrt(diag(relative covariance))")
    check(eng, R, "Htot", M, "cov_mat", "return", "self._cov_mat.mat", known=KM, what="the covariance getter returns the stored absolute matrix")
    check(eng, R, "Htot", M, "cor_mat", "return", "self._cov_mat.cor_mat", known=KM, what="correlation matrix of the same stored covariance")
    check(eng, R, "Htot", M, "cov_mat_inverse", "return", "self._cov_mat.I", known=KM, what="inverse of the same stored covariance")
    check(eng, R, "Htot", CM, "cor_mat", "assign", "self._mat / outer(sqrt(diag(self._mat)), sqrt(diag(self._mat)))", target="self._cor_mat", known=["self._mat"], what="correlation = covariance / outer(sigma, sigma)")
    check(eng, R, "Htot", CM, "I", "store", "np.linalg.inv(self._mat)", target="self._inverse", known=["self._mat", "linalg.pinv"], what="inverse of the stored matrix")
    for cname, names in (("IndexedContainer", {"err": (None, "error"), "cov_mat": (None, "cov_mat"), "cov_mat_inverse": (None, "cov_mat_inverse"), "cor_mat": (None, "cor_mat")}),
                         ("XYContainer", {"x_err": (0, "error"), "y_err": (1, "error"), "x_cov_mat": (0, "cov_mat"), "y_cov_mat": (1, "cov_mat"), "x_cov_mat_inverse": (0, "cov_mat_inverse"),
                                          "y_cov_mat_inverse": (1, "cov_mat_inverse"), "x_cor_mat": (0, "cor_mat"), "y_cor_mat": (1, "cor_mat")})):
        for pn, (axis, attr) in sorted(names.items()):
            spec = "self.get_total_error(%s).%s" % ("" if axis is None else "axis=%d" % axis, attr)
            check(eng, R, "Htot", cname, pn, "return", spec, known=["self.get_total_error", "()self.get_total_error", ".error", ".cov_mat", ".cor_mat", ".cov_mat_inverse", ".cov_mat_rel", ".error_rel"], what="%s must be read from the total of %s" % (pn, "the container" if axis is None else "axis %d" % axis))
    # canonical form + placeholders for the remaining locals (accumulators, loop variable): `_acc`, `_ax`, `_ay`, `_e` stand for whatever they are called
    # the reference is the current value array, read once *before* the sources are summed (the read brings lazily computed values up to date: rule Cfirst)
    for cname, accs in (("IndexedContainer", {None: ("_acc", "_ref", "self.data")}), ("XYContainer", {0: ("_ax", "_rx", "self.x"), 1: ("_ay", "_ry", "self.y")})):
        f = get_func(p, cname, "_calculate_total_error")
        fn = eng.cnode(f)
        src = eng.csrc(f)
        loop_ok = src.like("for _e in self._error_dicts.values(): if _e['enabled']:")
        for axis, (acc, refl, refv) in sorted(accs.items(), key=lambda kv: str(kv[0])):
            ok = loop_ok and src.like("%s = np.zeros((self.size, self.size))" % acc)
            if axis is None:
                ok = ok and src.like("if _e['enabled']: %s += _e['err'].cov_mat" % acc)
            else:
                ok = ok and src.like("if _e['axis'] == %d: %s += _e['err'].cov_mat" % (axis, acc))
            name = src._binding.get(acc)
            if ok:
                # one zero-initialisation and one accumulation per accumulator, nothing else stored to it
                inits = [n for n in ast.walk(fn) if isinstance(n, ast.Assign) and any(isinstance(t, ast.Name) and t.id == name for t in n.targets)]
                augs = [n for n in ast.walk(fn) if isinstance(n, ast.AugAssign) and isinstance(n.target, ast.Name) and n.target.id == name]
                ok = len(inits) == 1 and len(augs) == 1 and isinstance(augs[0].op, ast.Add)
                if ok and axis is not None:
                    conds = common.guard_conditions(fn, augs[0])
                    loopvar = src._binding.get("_e")
                    ok = any(pol and " ".join(ast.unparse(c).split()) == "%s['axis'] == %d" % (loopvar, axis) for c, pol in conds) \
                        and any(pol and " ".join(ast.unparse(c).split()) == "%s['enabled']" % loopvar for c, pol in conds)
            R.ob("Htot", "%s._calculate_total_error:accumulate%s" % (cname, "" if axis is None else ":axis %d" % axis), bool(ok), (f.file, f.lineno),
                 "the total must be `acc = zeros((size, size)); acc += source.cov_mat` over the enabled sources%s" % ("" if axis is None else " of axis %d" % axis))
            wrap = "MatrixGaussianError(%s, 'cov', relative=False, reference=%s)" % (acc, refl)
            refdef = src.like("%s = %s" % (refl, refv)) or (cname == "XYContainer" and src.like("_rx, _ry = (self.x, self.y)"))
            R.ob("Htot", "%s._calculate_total_error:wrap%s" % (cname, "" if axis is None else ":axis %d" % axis), bool(ok) and bool(refdef) and src.like(wrap), (f.file, f.lineno),
                 "the accumulated matrix must be wrapped as absolute covariance with the current values as reference: %s" % wrap)
        if cname == "XYContainer":
            R.ob("Htot", "XYContainer._calculate_total_error:order",
                 src.like("self._total_error = [MatrixGaussianError(_ax, 'cov', relative=False, reference=_rx), MatrixGaussianError(_ay, 'cov', relative=False, reference=_ry)]"),
                 (f.file, f.lineno), "totals must be stored as [x, y] (get_total_error indexes by axis)")
        else:
            R.ob("Htot", "IndexedContainer._calculate_total_error:store", src.like("self._total_error = MatrixGaussianError(_acc, 'cov', relative=False, reference=_ref)"),
                 (f.file, f.lineno), "the wrapped total must be stored as the container's total error")
        f = get_func(p, cname, "get_total_error")
        src = eng.csrc(f)
        if cname == "IndexedContainer":
            ok = src.like("return self._total_error")
        else:
            ok = src.all_like("_a = self._find_axis_raise(axis)", "return self._total_error[_a]")
        R.ob("Htot", "%s.get_total_error" % cname, ok and src.like("if self._total_error is None: self._calculate_total_error()"), (f.file, f.lineno),
             "get_total_error must compute the total when the cache is empty and return it")
