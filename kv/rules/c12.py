"""C12 - histogram filling: flush-before-read typestate (R-G) and conservation path rules on _fill_unprocessed/rebin."""
import ast

from ..effects import is_self, self_attr, walk_no_nested
from ..engine import AnalysisError, norm_stmt, path_text
from . import common

MOD = "kafe2.fit.histogram.container"


def _subscript_of_data(n):
    return isinstance(n, ast.Subscript) and self_attr(n.value) == "_data"


def _index_repr(sub):
    return norm_stmt(sub.slice)


def enumerate_paths(g, start, stops, limit=4000):
    """All simple paths from `start` to any node in `stops` (normal edges), start may equal a stop (cycle)."""
    out = []
    stack = [(start, [start])]
    while stack:
        x, path = stack.pop()
        for y in sorted(g.succ[x]):
            if y in stops:
                out.append(path + [y])
                if len(out) > limit:
                    raise AnalysisError("too many paths")
                continue
            if y in path:
                continue
            stack.append((y, path + [y]))
    return out


def run(eng, R):
    p = eng.p
    H = p.cls(MOD, "HistContainer")

    # ------------------------------------------------------------------ G1: flush before content read
    with R.guard("G1: flush before content read"):
        R.rule("G1", "every HistContainer function that reads the content of the count store _data first flushes pending entries "
                     "(self._fill_unprocessed() / self.data), or is flush-independent by construction (adds len(_unprocessed_entries))", 4)

        def flush_nodes(f, g):
            sat = set()
            for n in g.stmt_nodes():
                for c in eng.calls_in_parts(n.ast_parts()):
                    if isinstance(c.func, ast.Attribute) and c.func.attr == "_fill_unprocessed" and is_self(c.func.value):
                        conds = common.guard_conditions(f.node, c)
                        # unconditional, or guarded only by the truthiness of the pending list (the callee returns early when empty)
                        if all(pol and self_attr(t) == "_unprocessed_entries" for t, pol in conds):
                            if conds:
                                # the guarding test node dominates both branches: mark the test node
                                for m in g.nodes:
                                    if m.kind == "test" and m.expr is conds[0][0]:
                                        sat.add(m.id)
                            else:
                                sat.add(n.id)
                for part in n.ast_parts():
                    for sub in walk_no_nested(part):
                        if isinstance(sub, ast.Attribute) and sub.attr == "data" and is_self(sub.value) and isinstance(sub.ctx, ast.Load):
                            sat.add(n.id)
            # the filler written out in place (canonical program): `if self._unprocessed_entries: <body that empties the pending list>` is the flush
            for m in g.nodes:
                if m.kind == "test" and isinstance(m.stmt, ast.If) and self_attr(m.expr) == "_unprocessed_entries" and _empties_pending(m.stmt.body):
                    sat.add(m.id)
            return sat

        def _empties_pending(body):
            for st in ast.walk(ast.Module(body=list(body), type_ignores=[])):
                if isinstance(st, ast.Assign):
                    tg, vals = [], []
                    for t in st.targets:
                        if isinstance(t, ast.Tuple) and isinstance(st.value, ast.Tuple) and len(t.elts) == len(st.value.elts):
                            tg += list(t.elts)
                            vals += list(st.value.elts)
                        else:
                            tg.append(t)
                            vals.append(st.value)
                    for t, v in zip(tg, vals):
                        if self_attr(t) == "_unprocessed_entries" and isinstance(v, (ast.List, ast.Tuple)) and not v.elts:
                            return True
            return False

        def in_flush_region(f, node):
            return any(pol and self_attr(t) == "_unprocessed_entries" for t, pol in common.guard_conditions(f.node, node))

        writers = {"__init__", "_fill_unprocessed", "rebin", "set_bins", "fill"}
        for cls, f in eng.functions_of_family(H):
            if cls is not H or f.name in writers or eng.absorbed(f):
                continue  # (a private helper that is written out in all its callers is decided there)
            f = eng.cfunc(f)
            g = eng.cfg(f)
            reads = []
            for n in g.stmt_nodes():
                for part in n.ast_parts():
                    for sub in walk_no_nested(part):
                        if isinstance(sub, ast.Attribute) and self_attr(sub) == "_data" and isinstance(sub.ctx, ast.Load):
                            par = common.parents_of(f.node).get(id(sub))
                            # shape-only uses
                            if isinstance(par, ast.Call) and isinstance(par.func, ast.Name) and par.func.id == "len":
                                continue
                            if isinstance(par, ast.Attribute) and par.attr in ("shape", "size", "ndim", "dtype"):
                                continue
                            reads.append((n, sub))
            if not reads:
                continue
            # flush-independent by construction: the same expression adds the number of pending entries
            src = ast.unparse(f.node)
            independent = "len(self._unprocessed_entries)" in src and any(
                isinstance(b, ast.BinOp) and isinstance(b.op, ast.Add) and "len(self._unprocessed_entries)" in ast.unparse(b) and "self._data" in ast.unparse(b)
                for b in ast.walk(f.node))
            if independent:
                R.ob("G1", f.qualname, True, eng.where(f), "%s counts pending entries separately (flush-independent)" % f.qualname)
                continue
            sat = flush_nodes(f, g)
            for n, sub in reads:
                ok, wit = g.dominated_by(n.id, lambda m: m.id in sat)
                ok = ok or n.id in sat and False
                R.ob("G1", f.qualname, ok, eng.where(f, sub),
                     "%s reads the counts (%s) without flushing pending entries: the result depends on whether `data` was read before" % (f.qualname, norm_stmt(common.enclosing_stmt(f.node, sub))[:60])
                     if not ok else "%s flushes before reading counts" % f.qualname)

    # ------------------------------------------------------------------ G2: index conventions
    with R.guard("G2: index conventions"):
        R.rule("G2", "underflow/overflow/data/size/error-reference use the index convention of the filler (0 | 1:-1 | -1; size = len-2)", 4)
        want = {"underflow": "0", "overflow": "-1", "data": "1:-1", "_get_error_reference": "1:-1"}
        for name, idx in want.items():
            f = H.find_prop(name).fget if H.find_prop(name) else H.find_method(name)
            if f is None:
                raise AnalysisError("anchor HistContainer.%s not found" % name)
            f = eng.cfunc(f)
            rets = [n for n in ast.walk(f.node) if isinstance(n, ast.Return) and n.value is not None]
            subs = [s for r in rets for s in ast.walk(r.value) if _subscript_of_data(s)]
            ok = bool(subs) and all(_index_repr(s) == idx for s in subs)
            R.ob("G2", "HistContainer.%s" % name, ok, eng.where(f), "%s returns _data[%s], expected _data[%s]" % (name, ",".join(_index_repr(s) for s in subs), idx))

    # ------------------------------------------------------------------ G3: the filler
    with R.guard("G3: the filler"):
        f = p.method(H, "_fill_unprocessed")
        g = eng.cfg(f)
        R.rule("G3a", "bin advance happens exactly when entry >= current upper edge (closed below / open above) and the terminal test compares the edge with `high`", 2)
        R.rule("G3b", "every path through the fill loop that advances the entry cursor increments exactly one count by 1 and records the entry as processed", 1)
        R.rule("G3c", "entries left after the loop are added to the overflow count with their number and recorded as processed", 2)
        R.rule("G3d", "the pending list is emptied on every normal exit that processed entries; entries are sorted before the single pass", 2)
        R.rule("G3e", "the filler starts in the underflow bin with upper edge = low and walks bins one by one taking edges from _bin_edges[index]", 3)

        # independent of how the pass over the bins is written: the record of processed entries is only ever *extended* by the filler (a plain store would forget the entries
    # of earlier passes: a later rebin then loses them)
    R.rule("G3f", "the filler never replaces the list of processed entries: every store to _processed_entries in _fill_unprocessed extends it (+=, append, extend, or a value built from the old list)", 1)
    with R.guard("G3f"):
        fnode_ = eng.cnode(f, paths=True)
        bad_ = []
        n_ = 0
        for st in ast.walk(fnode_):
            if isinstance(st, ast.Assign):
                pairs = []
                for t in st.targets:
                    if isinstance(t, ast.Tuple) and isinstance(st.value, ast.Tuple) and len(t.elts) == len(st.value.elts):
                        pairs += list(zip(t.elts, st.value.elts))
                    else:
                        pairs.append((t, st.value))
                for t, v in pairs:
                    if self_attr(t) == "_processed_entries":
                        n_ += 1
                        if not any(self_attr(x) == "_processed_entries" for x in ast.walk(v)):
                            bad_.append(st)
            elif isinstance(st, ast.AugAssign) and self_attr(st.target) == "_processed_entries":
                n_ += 1
            elif isinstance(st, ast.Call) and isinstance(st.func, ast.Attribute) and st.func.attr in ("append", "extend") and self_attr(st.func.value) == "_processed_entries":
                n_ += 1
        R.ob("G3f", "_fill_unprocessed:processed list extended", n_ > 0 and not bad_, eng.where(f, bad_[0] if bad_ else None),
             "the filler %s: entries processed by an earlier pass are forgotten, a later rebin() re-queues only the last batch" % (
                 "assigns a new list to _processed_entries (%s)" % norm_stmt(bad_[0])[:80] if bad_ else "never records processed entries"))
    with R.guard("G3 single pass over the bins"):
        _filler(eng, R, H, f, g, p)

    # ------------------------------------------------------------------ G4: rebin / fill / raw_data / n_entries
    with R.guard("G4: rebin / fill / raw_data / n_entries"):
        R.rule("G4", "rebin zeroes the counts, re-queues all processed entries before clearing them; fill queues every entry; raw_data = processed + pending", 5)
        rb = eng.cfunc(p.method(H, "rebin"))
        grb = eng.cfg(rb)

        # a local that only names the pending list (`_out = self._unprocessed_entries; _out += ...` extends the same list in place)
        pend_alias = {a.targets[0].id for a in ast.walk(rb.node) if isinstance(a, ast.Assign) and len(a.targets) == 1 and isinstance(a.targets[0], ast.Name) and self_attr(a.value) == "_unprocessed_entries"}
        pend_alias = {k for k in pend_alias if sum(1 for a in ast.walk(rb.node) if isinstance(a, ast.Assign) and any(isinstance(t, ast.Name) and t.id == k for t in a.targets)) == 1}

        def is_pending(e):
            return self_attr(e) == "_unprocessed_entries" or (isinstance(e, ast.Name) and e.id in pend_alias)

        # a local that holds the processed list, taken before it is cleared (`_old = self._processed_entries; self._processed_entries = []; pending += _old`)
        proc_alias = {a.targets[0].id for a in ast.walk(rb.node) if isinstance(a, ast.Assign) and len(a.targets) == 1 and isinstance(a.targets[0], ast.Name) and self_attr(a.value) == "_processed_entries"}
        proc_alias = {k for k in proc_alias if sum(1 for a in ast.walk(rb.node) if isinstance(a, ast.Assign) and any(isinstance(t, ast.Name) and t.id == k for t in a.targets)) == 1}

        def is_processed(e):
            return self_attr(e) == "_processed_entries" or (isinstance(e, ast.Name) and e.id in proc_alias)

        def saves_processed(n):
            st = n.stmt
            return n.kind == "stmt" and isinstance(st, ast.Assign) and len(st.targets) == 1 and isinstance(st.targets[0], ast.Name) and st.targets[0].id in proc_alias

        def requeue(n):
            st = n.stmt
            if n.kind == "stmt" and isinstance(st, ast.AugAssign) and isinstance(st.op, ast.Add) and is_pending(st.target) and is_processed(st.value):
                return True
            if n.kind == "stmt" and isinstance(st, ast.Assign):
                for t, v in _pairs(st):   # (a, b = x, y  is two stores; the right-hand sides are evaluated before either)
                    if self_attr(t) == "_unprocessed_entries":
                        txt = ast.unparse(v)
                        if "self._processed_entries" in txt and "self._unprocessed_entries" in txt and isinstance(v, ast.BinOp) and isinstance(v.op, ast.Add):
                            return True
                return False
            for c in eng.calls_in_parts(n.ast_parts()):
                if isinstance(c.func, ast.Attribute) and c.func.attr == "extend" and is_pending(c.func.value) and c.args and is_processed(c.args[0]):
                    return True
            return False

        def clears_processed(n):
            st = n.stmt
            if n.kind == "stmt" and isinstance(st, ast.Assign) and requeue(n) and any(self_attr(t) == "_processed_entries" for t, v in _pairs(st)):
                return False  # cleared in the same (tuple) assignment that re-queues: the old list was read first
            return n.kind == "stmt" and isinstance(st, ast.Assign) and any(self_attr(t) == "_processed_entries" for t, v in _pairs(st))

        def zero_counts(n):
            st = n.stmt
            return n.kind == "stmt" and isinstance(st, ast.Assign) and any(self_attr(t) == "_data" for t in st.targets) and isinstance(st.value, ast.Call) and common.call_name(st.value) == "zeros"

        clr = [n for n in grb.stmt_nodes() if clears_processed(n)]
        combined = [n for n in grb.stmt_nodes() if n.kind == "stmt" and isinstance(n.stmt, ast.Assign) and requeue(n) and any(self_attr(t) == "_processed_entries" for t, v in _pairs(n.stmt))]
        rq_ok = bool(clr) or bool(combined)
        for n in clr:
            ok, _ = grb.dominated_by(n.id, requeue)
            if not ok and proc_alias:
                ok, _ = grb.dominated_by(n.id, saves_processed)   # (the old list was put aside first and is re-queued from there)
            rq_ok = rq_ok and ok
        ok_all, wit = grb.all_paths_pass(grb.entry.id, requeue)
        R.ob("G4", "rebin:requeue", rq_ok and ok_all, eng.where(rb), "rebin does not re-queue all processed entries before clearing them (previously filled entries are lost)")
        ok_z, _ = grb.all_paths_pass(grb.entry.id, zero_counts)
        R.ob("G4", "rebin:zero", ok_z, eng.where(rb), "rebin does not reset the counts to zeros (re-queued entries would be counted twice)")
        zs = [n.stmt for n in grb.stmt_nodes() if zero_counts(n)]
        # the edges may be held in a local that is stored to self._bin_edges in the same function
        edge_locals = {ast.unparse(n.value) for n in ast.walk(rb.node) if isinstance(n, ast.Assign) and any(self_attr(t) == "_bin_edges" for t in n.targets) and isinstance(n.value, ast.Name)}
        okl = {"len(self._bin_edges)+1"} | {"len(%s)+1" % e for e in edge_locals}
        sz_ok = bool(zs) and all(_norm_len(ast.unparse(common.resolve_local(rb.node, z.value.args[0]) if not any(isinstance(x, ast.Name) and x.id in edge_locals for x in ast.walk(z.value.args[0])) else z.value.args[0])) in okl for z in zs)
        R.ob("G4", "rebin:size", sz_ok, eng.where(rb), "rebin allocates %s counts, expected len(edges)-1 bins + underflow + overflow" % [ast.unparse(z.value.args[0]) for z in zs])
        fl = eng.cfunc(p.method(H, "fill"))
        q_ok = False
        for n in ast.walk(fl.node):
            if isinstance(n, ast.AugAssign) and isinstance(n.op, ast.Add) and (self_attr(n.target) == "_unprocessed_entries" or (isinstance(n.target, ast.Name) and
                    self_attr(next((a.value for a in ast.walk(fl.node) if isinstance(a, ast.Assign) and len(a.targets) == 1 and isinstance(a.targets[0], ast.Name)
                                    and a.targets[0].id == n.target.id), None)) == "_unprocessed_entries")):   # (the queue itself or a local that names it: `+=` on a list extends it in place)
                v = n.value
                if isinstance(v, ast.Name):
                    # a local that holds list(entries) (e.g. converted in a try block, added in its else branch)
                    defs = [a.value for a in ast.walk(fl.node) if isinstance(a, ast.Assign) and len(a.targets) == 1 and isinstance(a.targets[0], ast.Name) and a.targets[0].id == v.id]
                    if len(defs) == 1:
                        v = defs[0]
                    elif defs and all((isinstance(d, ast.Call) and common.call_name(d) == "list" and d.args and isinstance(d.args[0], ast.Name) and d.args[0].id == "entries")
                                      or (isinstance(d, ast.List) and len(d.elts) == 1 and isinstance(d.elts[0], ast.Name) and d.elts[0].id == "entries") for d in defs) \
                            and any(isinstance(d, ast.Call) for d in defs):
                        q_ok = True   # (`list(entries)`, or `[entries]` where a scalar cannot be iterated)
                if isinstance(v, ast.Call) and common.call_name(v) == "list" and v.args and isinstance(v.args[0], ast.Name) and v.args[0].id == "entries":
                    q_ok = True
            if isinstance(n, ast.Call) and isinstance(n.func, ast.Attribute) and n.func.attr == "extend" and self_attr(common.resolve_local(fl.node, n.func.value)) == "_unprocessed_entries" and n.args:
                a0 = common.resolve_local(fl.node, n.args[0])
                if isinstance(a0, ast.Call) and common.call_name(a0) == "list" and a0.args:
                    a0 = a0.args[0]
                if isinstance(a0, ast.Name) and a0.id == "entries":
                    q_ok = True
        R.ob("G4", "fill:queue", q_ok, eng.where(fl), "fill does not queue all given entries")
        raw = eng.cfunc(H.find_prop("raw_data").fget)
        txt = []
        for r in ast.walk(raw.node):
            if isinstance(r, ast.Return) and r.value is not None:
                t_ = ast.unparse(common.resolve_local(raw.node, r.value))
                if isinstance(r.value, ast.Name):
                    # a list that is built up: what it is created from and what is appended to it
                    t_ += " " + " ".join(ast.unparse(c) for c in ast.walk(raw.node) if isinstance(c, ast.Call) and isinstance(c.func, ast.Attribute) and c.func.attr in ("extend", "append")
                                         and isinstance(c.func.value, ast.Name) and c.func.value.id == r.value.id)
                    t_ += " " + " ".join(ast.unparse(a.value) for a in ast.walk(raw.node) if isinstance(a, (ast.Assign, ast.AugAssign)) and ast.unparse(a.targets[0] if isinstance(a, ast.Assign) else a.target) == r.value.id)
                txt.append(t_)
        R.ob("G4", "raw_data", bool(txt) and all("_processed_entries" in t and "_unprocessed_entries" in t for t in txt), eng.where(raw), "raw_data must list processed and pending entries")
        ne = eng.cfunc(H.find_prop("n_entries").fget)
        txt = [ast.unparse(r.value) for r in ast.walk(ne.node) if isinstance(r, ast.Return) and r.value is not None]
        R.ob("G4", "n_entries", bool(txt) and all("sum(self._data)" in t.replace("np.", "") and "len(self._unprocessed_entries)" in t for t in txt), eng.where(ne),
             "n_entries must be sum of all counts (incl. under/overflow) + number of pending entries, got %s" % txt)

def _pairs(st):
    """(target, value) pairs of an assignment, tuple assignments taken apart"""
    out = []
    for t in st.targets:
        if isinstance(t, ast.Tuple) and isinstance(st.value, ast.Tuple) and len(t.elts) == len(st.value.elts):
            out += list(zip(t.elts, st.value.elts))
        else:
            out.append((t, st.value))
    return out


def _norm_len(s):
    s = s.replace(" ", "")
    for a, b in (("-1+2", "+1"), ("+2-1", "+1"), ("+1", "+1")):
        if s.endswith(a):
            return s[: -len(a)] + b
    return s


def _inside(outer, inner):
    for n in ast.walk(outer):
        if n is inner:
            return True
    return False


def _filler(eng, R, H, f, g, p):
    # decided on the canonical form: helpers of the filler written out, locals that only name an attribute (`_counts = self._data`) resolved
    fnode = eng.cnode(f, paths=True)
    g = eng.ccfg(f, paths=True)
    # roles by def-use: entry-value variables derive from the sorted array; edge variables from self.low / _bin_edges[...] ; cursor/bin index ints
    really_sorted = set()
    really_sorted = set()
    sorted_vars, entry_vars, edge_upper_vars, cursor_vars, bin_vars = set(), set(), set(), set(), set()
    assigns = [n for n in ast.walk(fnode) if isinstance(n, ast.Assign) and len(n.targets) == 1 and isinstance(n.targets[0], ast.Name)]
    for a in assigns:
        v = a.value
        if isinstance(v, ast.Call) and v.args and "_unprocessed_entries" in ast.unparse(v.args[0]) and common.call_name(v) not in ("len", "all", "any", "floor"):
            sorted_vars.add(a.targets[0].id)
            if common.call_name(v) in ("sort", "sorted"):
                really_sorted.add(a.targets[0].id)
    unsorted_expr = []

    def from_pending(v):
        return isinstance(v, ast.Call) and v.args and "_unprocessed_entries" in ast.unparse(v.args[0]) and common.call_name(v) not in ("len", "all", "any", "floor", "list", "warn")

    def is_sorted_expr(e):
        """the sorted batch: a local holding it, or the sorting call itself (when the local has been written out)"""
        if isinstance(e, ast.Name):
            return e.id in sorted_vars
        if from_pending(e):
            if common.call_name(e) not in ("sort", "sorted"):
                unsorted_expr.append(e)
            return True
        return False

    inline_sorted = [n for n in ast.walk(fnode) if from_pending(n) and not any(a.value is n for a in assigns)]
    for _ in range(2):
        for a in assigns:
            v = a.value
            t = a.targets[0].id
            if isinstance(v, ast.Subscript) and is_sorted_expr(v.value) and not isinstance(v.slice, ast.Slice):
                entry_vars.add(t)
                if isinstance(v.slice, ast.Name):
                    cursor_vars.add(v.slice.id)
            if isinstance(v, ast.Subscript) and self_attr(v.value) == "_bin_edges" and isinstance(v.slice, ast.Name):
                edge_upper_vars.add(t)
                bin_vars.add(v.slice.id)
    if not ((sorted_vars or inline_sorted) and entry_vars and edge_upper_vars and cursor_vars and bin_vars):
        if _vectorised_fill(eng, R, H, f):
            # the single-pass rules G3a-e do not apply to this implementation (their floors are dropped, G5 carries its own)
            for r in ("G3a", "G3b", "G3c", "G3d", "G3e"):
                R.floors[r] = 0
            return
        raise AnalysisError("HistContainer._fill_unprocessed: single-pass idiom not recognised (sorted=%s entry=%s edges=%s cursor=%s bin=%s)" % (
            sorted_vars, entry_vars, edge_upper_vars, cursor_vars, bin_vars))
    R.ob("G3d", "_fill_unprocessed:sorted", bool(sorted_vars or inline_sorted) and bool(entry_vars) and sorted_vars <= really_sorted and not unsorted_expr
         and all(common.call_name(n) in ("sort", "sorted") for n in inline_sorted), eng.where(f), "entries are not sorted before the single pass over the bins")
    # edge variable that is *compared* with the entry value is the upper edge
    cmps = []
    for n in ast.walk(fnode):
        if isinstance(n, ast.Compare) and len(n.ops) == 1:
            l, r = n.left, n.comparators[0]
            ln = l.id if isinstance(l, ast.Name) else None
            rn = r.id if isinstance(r, ast.Name) else None
            if ln in entry_vars and rn in edge_upper_vars:
                cmps.append((n, type(n.ops[0]).__name__, rn))
            elif rn in entry_vars and ln in edge_upper_vars:
                flip = {"Lt": "Gt", "LtE": "GtE", "Gt": "Lt", "GtE": "LtE", "Eq": "Eq", "NotEq": "NotEq"}
                cmps.append((n, flip.get(type(n.ops[0]).__name__, "?"), ln))
    ok = len(cmps) >= 1 and all(op == "GtE" for _, op, _ in cmps)
    R.ob("G3a", "_fill_unprocessed:advance-test", ok, eng.where(f, cmps[0][0] if cmps else None),
         "bin-advance comparison between entry and upper edge is %s, expected `entry >= upper edge` (an entry equal to an edge belongs to the bin above)" % [op for _, op, _ in cmps])
    upper = cmps[0][2] if cmps else None
    # initial upper edge = self.low ; start bin 0 ; edge refresh from _bin_edges[bin] after bin += 1
    init_ok = any(isinstance(a.value, ast.Attribute) and self_attr(a.value) == "low" and a.targets[0].id == upper for a in assigns)
    start_ok = any(a.targets[0].id in bin_vars and isinstance(a.value, ast.Constant) and a.value.value == 0 for a in assigns)
    R.ob("G3e", "_fill_unprocessed:init-edge", init_ok, eng.where(f), "the walk does not start with upper edge = self.low (underflow bin)")
    R.ob("G3e", "_fill_unprocessed:init-bin", start_ok, eng.where(f), "the walk does not start at count index 0 (underflow bin)")
    incs = [n for n in ast.walk(fnode) if isinstance(n, ast.AugAssign) and isinstance(n.target, ast.Name) and n.target.id in bin_vars]
    step_ok = bool(incs) and all(isinstance(n.op, ast.Add) and isinstance(n.value, ast.Constant) and n.value.value == 1 for n in incs)
    refresh_ok = any(a.targets[0].id == upper and isinstance(a.value, ast.Subscript) and self_attr(a.value.value) == "_bin_edges" and isinstance(a.value.slice, ast.Name) and a.value.slice.id in bin_vars for a in assigns)
    R.ob("G3e", "_fill_unprocessed:bin-step", step_ok and refresh_ok, eng.where(f), "bin index must advance by exactly 1 and the upper edge must be re-read from _bin_edges[bin index]")
    # terminal test: upper == self.high guards a break ; loop condition upper <= high
    term = []
    for n in ast.walk(fnode):
        if isinstance(n, ast.Compare) and len(n.ops) == 1:
            txt = (ast.unparse(n.left), type(n.ops[0]).__name__, ast.unparse(n.comparators[0]))
            if upper in (txt[0], txt[2]) and "self.high" in (txt[0], txt[2]):
                term.append((n, txt))
    ops = sorted(t[1] if t[0] == upper else {"LtE": "GtE", "GtE": "LtE", "Lt": "Gt", "Gt": "Lt"}.get(t[1], t[1]) for _, t in term)
    R.ob("G3a", "_fill_unprocessed:terminal-test", ops == ["Eq", "LtE"], eng.where(f),
         "terminal tests between the upper edge and `high` are %s, expected loop condition `edge <= high` and exit test `edge == high`" % ops)

    # loop paths
    loops = [n for n in g.nodes if n.kind == "test" and isinstance(n.stmt, ast.While)]
    if len(loops) != 1:
        raise AnalysisError("_fill_unprocessed: expected exactly one while loop, found %d" % len(loops))
    head = loops[0]
    body_ids = {n.id for n in g.nodes if n.stmt is not None and n.id != head.id and _inside(head.stmt, n.stmt) and n.stmt is not head.stmt}
    after = {y for x in body_ids | {head.id} for y in g.succ[x] if y not in body_ids and y != head.id}
    paths = enumerate_paths(g, head.id, {head.id} | after)

    def count(path, pred):
        return sum(1 for nid in path[1:-1] if pred(g.nodes[nid]))

    def is_cursor_inc(n):
        return n.kind == "stmt" and isinstance(n.stmt, ast.AugAssign) and isinstance(n.stmt.target, ast.Name) and n.stmt.target.id in cursor_vars

    def is_count_inc(n):
        st = n.stmt
        return n.kind == "stmt" and isinstance(st, ast.AugAssign) and _subscript_of_data(st.target) and isinstance(st.op, ast.Add) and isinstance(st.value, ast.Constant) and st.value.value == 1 \
            and isinstance(st.target.slice, ast.Name) and st.target.slice.id in bin_vars

    def is_any_count_write(n):
        st = n.stmt
        if n.kind != "stmt":
            return False
        tg = st.targets if isinstance(st, ast.Assign) else ([st.target] if isinstance(st, ast.AugAssign) else [])
        return any(_subscript_of_data(t) or self_attr(t) == "_data" for t in tg)

    def is_processed_append(n):
        for c in eng.calls_in_parts(n.ast_parts()):
            if isinstance(c.func, ast.Attribute) and c.func.attr == "append" and self_attr(c.func.value) == "_processed_entries" and c.args and isinstance(c.args[0], ast.Name) and c.args[0].id in entry_vars:
                return True
        return False

    # scheme B for the processed list: the whole sorted batch is appended once, on every normal path that processed entries
    def records_whole(n):
        st = n.stmt
        if n.kind == "stmt" and isinstance(st, ast.AugAssign) and isinstance(st.op, ast.Add) and self_attr(st.target) == "_processed_entries":
            v = st.value
            if isinstance(v, ast.Call) and common.call_name(v) == "list" and v.args:
                v = v.args[0]
            return is_sorted_expr(v)
        for c in eng.calls_in_parts(n.ast_parts()):
            if isinstance(c.func, ast.Attribute) and c.func.attr == "extend" and self_attr(c.func.value) == "_processed_entries" and c.args and is_sorted_expr(c.args[0]):
                return True
        return False

    whole_recorded, _ = g.all_paths_pass(head.id, records_whole)
    whole_recorded = whole_recorded and any(records_whole(n) for n in g.stmt_nodes()) and not any(records_whole(n) for n in g.stmt_nodes() if n.id in body_ids)
    bad = None
    advancing = 0
    for pth in paths:
        ci, di, pi, wi = count(pth, is_cursor_inc), count(pth, is_count_inc), count(pth, is_processed_append), count(pth, is_any_count_write)
        if ci:
            advancing += 1
        if not (ci == di and wi == di and ci <= 1 and (pi == ci or (pi == 0 and whole_recorded))):
            bad = (pth, ci, di, pi, wi)
            break
    R.info["fill-loop paths enumerated"] = len(paths)
    R.ob("G3b", "_fill_unprocessed:loop", bad is None and advancing >= 1, eng.where(f, head.stmt),
         ("a loop path advances the cursor %d time(s) but increments %d count(s) / records %d processed entries (%d count writes): %s" % (
             bad[1], bad[2], bad[3], bad[4], path_text(f, [g.nodes[i] for i in bad[0]]))) if bad else "no loop path consumes an entry")
    # leftovers
    tail_vars = set()
    for a in assigns:
        v = a.value
        if isinstance(v, ast.Subscript) and is_sorted_expr(v.value) and isinstance(v.slice, ast.Slice) \
                and isinstance(v.slice.lower, ast.Name) and v.slice.lower.id in cursor_vars and v.slice.upper is None:
            tail_vars.add(a.targets[0].id)

    def is_tail(e):
        if isinstance(e, ast.Name) and e.id in tail_vars:
            return True
        return isinstance(e, ast.Subscript) and is_sorted_expr(e.value) and isinstance(e.slice, ast.Slice) \
            and isinstance(e.slice.lower, ast.Name) and e.slice.lower.id in cursor_vars and e.slice.upper is None

    of_ok = False
    pr_ok = False
    for n in ast.walk(fnode):
        if isinstance(n, ast.AugAssign) and isinstance(n.op, ast.Add):
            if _subscript_of_data(n.target) and _index_repr(n.target) == "-1":
                v = n.value
                if isinstance(v, ast.Name):
                    defs = [a.value for a in assigns if a.targets[0].id == v.id]
                    if len(defs) == 1:
                        v = defs[0]
                if isinstance(v, ast.Call) and common.call_name(v) == "len" and is_tail(v.args[0]):
                    of_ok = not _inside(head.stmt, n)
                # equivalent form: len(sorted) - cursor
                if isinstance(v, ast.BinOp) and isinstance(v.op, ast.Sub) and isinstance(v.left, ast.Call) and common.call_name(v.left) == "len" and v.left.args \
                        and is_sorted_expr(v.left.args[0]) and isinstance(v.right, ast.Name) and v.right.id in cursor_vars:
                    of_ok = not _inside(head.stmt, n)
            if self_attr(n.target) == "_processed_entries":
                v = n.value
                if isinstance(v, ast.Call) and common.call_name(v) == "list" and v.args:
                    v = v.args[0]
                if is_tail(v):
                    pr_ok = not _inside(head.stmt, n)
        if isinstance(n, ast.Call) and isinstance(n.func, ast.Attribute) and n.func.attr == "extend" and self_attr(n.func.value) == "_processed_entries" and n.args and is_tail(n.args[0]):
            pr_ok = not _inside(head.stmt, n)
    R.ob("G3c", "_fill_unprocessed:overflow-count", of_ok, eng.where(f), "entries remaining after the walk are not added to the overflow count _data[-1] with their number")
    R.ob("G3c", "_fill_unprocessed:overflow-processed", pr_ok or whole_recorded, eng.where(f), "entries remaining after the walk are not recorded as processed (a later rebin would lose them)")
    # pending list emptied on all normal exits that passed the loop
    def clears_pending(n):
        st = n.stmt
        return n.kind == "stmt" and isinstance(st, ast.Assign) and any(self_attr(t) == "_unprocessed_entries" for t in st.targets) and isinstance(st.value, (ast.List, ast.Tuple)) and not st.value.elts
    ok, wit = g.all_paths_pass(head.id, clears_pending)
    R.ob("G3d", "_fill_unprocessed:clear-pending", ok, eng.where(f), "pending entries are not cleared after processing (they would be counted again on the next read): %s" % path_text(f, wit or []))


def _vectorised_fill(eng, R, H, f):
    """Alternative implementation of the filler: bin indices looked up for all entries at once. Decides the half-open placement from the look-up calls:
    every index must come from a comparison with the stored edges - np.searchsorted(edges, entries, side='right') or np.digitize(entries, edges) -, never from
    arithmetic on (entry - low) / width. Returns False if no look-up call is found at all (not this implementation either)."""
    funcs = [f]
    for c in ast.walk(f.node):
        if isinstance(c, ast.Call) and isinstance(c.func, ast.Attribute) and isinstance(c.func.value, ast.Name) and c.func.value.id == "self":
            m = H.find_method(c.func.attr)
            if m is not None and m is not f and any(isinstance(x, ast.Call) and common.call_name(x) in ("searchsorted", "digitize", "floor", "bincount", "histogram") for x in ast.walk(m.node)):
                funcs.append(m)
    lookups = [(fn, c) for fn in funcs for c in ast.walk(fn.node) if isinstance(c, ast.Call) and common.call_name(c) in ("searchsorted", "digitize")]
    if not lookups:
        return False
    R.rule("G5", "vectorised filler: every bin index comes from a comparison with the stored edges (searchsorted(edges, entries, side='right') / digitize(entries, edges)); "
                 "no index is computed arithmetically; counts are added with bincount over the whole store; all entries are recorded as processed", 3)

    def edges_expr(e, fn):
        t = " ".join(ast.unparse(e).split())
        if t == "self._bin_edges":
            return True
        if isinstance(e, ast.Name):
            defs = [a for a in ast.walk(fn.node) if isinstance(a, ast.Assign) and isinstance(a.targets[0], ast.Name) and a.targets[0].id == e.id]
            return bool(defs) and all(" ".join(ast.unparse(a.value).split()) == "self._bin_edges" for a in defs)
        return False

    for fn, c in lookups:
        kw = {k.arg: k.value for k in c.keywords}
        if common.call_name(c) == "searchsorted":
            ok = len(c.args) >= 2 and edges_expr(c.args[0], fn) and isinstance(kw.get("side"), ast.Constant) and kw["side"].value == "right"
        else:
            ok = len(c.args) >= 2 and edges_expr(c.args[1], fn) and not (isinstance(kw.get("right"), ast.Constant) and kw["right"].value)
        R.ob("G5", "%s:%s" % (fn.qualname, common.call_name(c)), ok, (fn.file, c.lineno),
             "the look-up must be over the stored edges with the value on an edge going to the upper bin (side='right'): found %s" % " ".join(ast.unparse(c).split())[:100])
    # index-producing helpers: every return is a look-up, none is arithmetic
    for fn in funcs[1:]:
        for r in ast.walk(fn.node):
            if isinstance(r, ast.Return) and r.value is not None:
                is_lookup = isinstance(r.value, ast.Call) and common.call_name(r.value) in ("searchsorted", "digitize")
                arith = [common.call_name(x) for x in ast.walk(r.value) if isinstance(x, ast.Call) and common.call_name(x) in ("floor", "ceil", "astype", "trunc", "rint", "clip", "int")] \
                    + [type(x.op).__name__ for x in ast.walk(r.value) if isinstance(x, ast.BinOp) and isinstance(x.op, (ast.Div, ast.FloorDiv))]
                names = [x.id for x in ast.walk(r.value) if isinstance(x, ast.Name)]
                for nm in names:
                    for a in ast.walk(fn.node):
                        if isinstance(a, ast.Assign) and isinstance(a.targets[0], ast.Name) and a.targets[0].id == nm:
                            arith += [common.call_name(x) for x in ast.walk(a.value) if isinstance(x, ast.Call) and common.call_name(x) in ("floor", "ceil", "trunc", "rint")]
                            arith += [type(x.op).__name__ for x in ast.walk(a.value) if isinstance(x, ast.BinOp) and isinstance(x.op, (ast.Div, ast.FloorDiv))]
                R.ob("G5", "%s:return@%d" % (fn.qualname, len([1 for _ in ()])), is_lookup and not arith, (fn.file, r.lineno),
                     "%s returns bin indices computed arithmetically (%s): the quotient (x - low) / width rounds differently from the comparison with the stored edges, an entry on "
                     "an edge (and the last edge) can land in the lower bin" % (fn.qualname, sorted(set(arith)) or "not a look-up"))
    src = common.src_of(f.node)
    ok = any(isinstance(a, ast.AugAssign) and isinstance(a.op, ast.Add) and self_attr(a.target) == "_data" and "bincount" in ast.unparse(a.value) and "minlength=len(self._data)" in " ".join(ast.unparse(a.value).split())
             for a in ast.walk(f.node))
    R.ob("G5", "_fill_unprocessed:counts", ok, eng.where(f), "counts must be added to the whole store (underflow, bins, overflow) with bincount(indices, minlength=len(self._data))")
    ok = any(isinstance(a, ast.AugAssign) and self_attr(a.target) == "_processed_entries" for a in ast.walk(f.node)) and "self._unprocessed_entries = []" in src
    R.ob("G5", "_fill_unprocessed:bookkeeping", ok, eng.where(f), "all entries must be recorded as processed and the pending list emptied")
    return True
